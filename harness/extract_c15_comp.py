"""C15 - how the compositor USES the clipping relation, read off composite/__init__.py on every run
-> lean/PsdVerif/Generated/ClipCompositor.lean (tied by `compositor_gate_tied` in Props/C15.lean).

What is read (sources normalised with ast.unparse):
* `Compositor.apply`: the tests of the early `return`s at the top level of its body, in order (the last one is the gate
  "a clipping layer that has a target is not drawn in the ordinary pass");
* `Compositor._apply_clip_layers`: what it iterates over and how it calls `apply` for each element;
* where `_apply_clip_layers` is called from, and under which test;
* `Compositor._bbox` (the box a group is drawn in under a caller-supplied filter): the tests under which the cached
  `layer.bbox` is returned, what the union ranges over and EVERY condition a child must meet to be counted.
A function that is missing or has another shape gives empty lists / a sentinel: the tying theorem fails (a broken tie,
never an infrastructure error).
"""
from __future__ import annotations

import ast

from core import REPO
from extract import lean_str

SRC = REPO / "src" / "psd_tools" / "composite" / "__init__.py"


def _method(tree, cls, name):
    for c in ast.walk(tree):
        if isinstance(c, ast.ClassDef) and c.name == cls:
            for f in c.body:
                if isinstance(f, ast.FunctionDef) and f.name == name:
                    return f
    return None


def _body(fn):
    body = list(fn.body)
    if body and isinstance(body[0], ast.Expr) and isinstance(body[0].value, ast.Constant) and isinstance(body[0].value.value, str):
        body = body[1:]
    return body


def read_compositor():
    info = {"apply_skips": [], "clip_iter": "<absent>", "clip_calls": [], "clip_callers": [], "bbox_cached_when": "<absent>",
            "bbox_iter": [], "bbox_child_tests": []}
    try:
        tree = ast.parse(SRC.read_text())
    except Exception:  # noqa
        return info
    ap = _method(tree, "Compositor", "apply")
    if ap is not None:
        for st in _body(ap):
            if isinstance(st, ast.If) and not st.orelse and any(isinstance(x, ast.Return) for x in st.body):
                info["apply_skips"].append(ast.unparse(st.test))
    cl = _method(tree, "Compositor", "_apply_clip_layers")
    if cl is not None:
        for n in ast.walk(cl):
            if isinstance(n, ast.For):
                info["clip_iter"] = ast.unparse(n.iter)
                for m in ast.walk(n):
                    if isinstance(m, ast.Call) and isinstance(m.func, ast.Attribute) and m.func.attr == "apply":
                        info["clip_calls"].append(ast.unparse(m))
                        # anything else in the loop body (a test, a continue) is part of the shape
                info["clip_calls"] += ["<%s>" % type(x).__name__ for x in n.body if not isinstance(x, ast.Expr)]
    for c in ast.walk(tree):
        if isinstance(c, ast.ClassDef) and c.name == "Compositor":
            for f in c.body:
                if not isinstance(f, ast.FunctionDef):
                    continue
                for st in ast.walk(f):
                    if isinstance(st, ast.If):
                        for m in ast.walk(st):
                            if isinstance(m, ast.Call) and isinstance(m.func, ast.Attribute) and m.func.attr == "_apply_clip_layers" \
                                    and any(m in ast.walk(b) for b in st.body):
                                info["clip_callers"].append("%s: if %s" % (f.name, ast.unparse(st.test)))
    info["clip_callers"] = sorted(set(info["clip_callers"]))
    bb = _method(tree, "Compositor", "_bbox")
    if bb is not None:
        body = _body(bb)
        if body and isinstance(body[0], ast.If) and any(isinstance(x, ast.Return) for x in body[0].body):
            info["bbox_cached_when"] = ast.unparse(body[0].test) + " -> " + "; ".join(ast.unparse(x) for x in body[0].body)
        for n in ast.walk(bb):
            gens = []
            if isinstance(n, (ast.ListComp, ast.GeneratorExp, ast.SetComp)):
                gens = n.generators
            for g in gens:
                info["bbox_iter"].append(ast.unparse(g.iter))
                info["bbox_child_tests"].append(" and ".join(ast.unparse(t) for t in g.ifs) or "<none>")
            if isinstance(n, ast.For):
                info["bbox_iter"].append(ast.unparse(n.iter))
                info["bbox_child_tests"].append("<loop> " + "; ".join(ast.unparse(t.test) for t in ast.walk(n) if isinstance(t, ast.If)))
    return info


def gen_clip_compositor(ctx):
    info = read_compositor()
    strs = lambda xs: "[" + ", ".join(lean_str(x) for x in xs) + "]"
    src = f"""namespace PsdVerif.Generated.ClipCompositor

/-- tests of the early returns of `Compositor.apply`, in order -/
def applySkips : List String := {strs(info["apply_skips"])}
/-- what `_apply_clip_layers` iterates over -/
def clipIter : String := {lean_str(info["clip_iter"])}
/-- how it composites each element (anything else in the loop body is listed by its statement kind) -/
def clipCalls : List String := {strs(info["clip_calls"])}
/-- callers of `_apply_clip_layers` with the test they sit under -/
def clipCallers : List String := {strs(info["clip_callers"])}
/-- `_bbox`: when the cached box of the layer is used -/
def bboxCachedWhen : String := {lean_str(info["bbox_cached_when"])}
/-- `_bbox`: what the union ranges over, per comprehension / loop -/
def bboxIter : List String := {strs(info["bbox_iter"])}
/-- `_bbox`: every condition a child must meet to be counted, per comprehension / loop -/
def bboxChildTests : List String := {strs(info["bbox_child_tests"])}

end PsdVerif.Generated.ClipCompositor
"""
    ctx.write_generated("ClipCompositor", src)
    return info
