"""Tie of Model/CompositeFx.lean to composite/__init__.py: facts regenerated from the AST of the current working tree
into lean/PsdVerif/Generated/CompositeFx.lean (C11, C13).

* `applyExits`     the tests of the early exits of `Compositor.apply`, in order (the adjustment-layer skip is the 2nd)
* `applyEvents`    the in-place scalings (`shape *= …`, `alpha *= …`) and the `self._apply_*` calls of `apply` in source order
* `applyCalls`     every `self._apply_*` call of `apply` with the text of its arguments (which of shape / alpha, before or
                   after `shape_const`; `shape_mask` or `shape` for the stroke effect)
* `overlaySources` for the three overlay functions and the stroke effect: the `effects.find(...)` key, the arguments of the
                   `_apply_source` call, the colour / shape pastes, and the opacity scale `effect.opacity / 100.0` as a rational
* `useFillTable`, `useVectorMaskTable`, `strokeFromMaskTable`: the three decisions EVALUATED from the AST of their `if` tests
                   over all Boolean inputs (`has_pixels()`, `has_fill`, `force`, vector mask present / disabled, mask / real mask)
* `constScales`    `_get_const` evaluated on a stub layer: shape and opacity per unit of the stored byte (1/255)
* `strokeFacts`    `_get_object`'s vector-stroke block (condition, sub-compositor, `finish()`), `_get_stroke`'s opacity scale
* `clipReturn`     what `_apply_clip_layers` returns (`compositor._color`: the un-removed colour)
* `fillTags`       `has_fill`'s FILL_TAGS

A fact that cannot be extracted (function renamed, statement rewritten) is generated as a sentinel (empty list / "?") that makes
the tying theorem of Props/C11Fx.lean fail, with a note: a changed source is a broken tie, never an infrastructure error.
"""
from __future__ import annotations

import ast
import itertools
from fractions import Fraction

from core import REPO

SRC = REPO / "src" / "psd_tools"


def lstr(s: str) -> str:
    return '"' + s.replace("\\", "\\\\").replace('"', '\\"').replace("\n", "\\n") + '"'


def llist(xs, f=lstr):
    return "[" + ", ".join(f(x) for x in xs) + "]"


def lbool(b):
    return "true" if b else "false"


def _unparse(node):
    return ast.unparse(node).replace("'", '"')


class _Src:
    def __init__(self):
        self.tree = ast.parse((SRC / "composite" / "__init__.py").read_text())
        self.cls = next((n for n in self.tree.body if isinstance(n, ast.ClassDef) and n.name == "Compositor"), None)

    def method(self, name):
        if self.cls is None:
            return None
        return next((n for n in self.cls.body if isinstance(n, ast.FunctionDef) and n.name == name), None)

    def function(self, name):
        return next((n for n in self.tree.body if isinstance(n, ast.FunctionDef) and n.name == name), None)


def _self_calls(node, prefix):
    """calls `self.<prefix>*(...)` below `node`, in source order"""
    out = []
    for n in ast.walk(node):
        if isinstance(n, ast.Call) and isinstance(n.func, ast.Attribute) and isinstance(n.func.value, ast.Name) \
                and n.func.value.id == "self" and n.func.attr.startswith(prefix):
            out.append(n)
    return sorted(out, key=lambda c: (c.lineno, c.col_offset))


def _is_return_if(st):
    return isinstance(st, ast.If) and not st.orelse and any(isinstance(s, ast.Return) for s in st.body)


def _apply_facts(src, notes):
    fn = src.method("apply")
    if fn is None:
        notes.append("composite/__init__.py: Compositor.apply not found")
        return [], [], []
    exits = [_unparse(st.test) for st in fn.body if _is_return_if(st)]
    events = []
    for n in sorted((n for n in ast.walk(fn) if isinstance(n, ast.AugAssign)
                     or (isinstance(n, ast.Call) and isinstance(n.func, ast.Attribute) and isinstance(n.func.value, ast.Name)
                         and n.func.value.id == "self" and n.func.attr.startswith("_apply_"))),
                    key=lambda c: (c.lineno, c.col_offset)):
        events.append(_unparse(n) if isinstance(n, ast.AugAssign) else "call " + n.func.attr)
    calls = [(c.func.attr, [_unparse(a) for a in c.args] + [f"{k.arg}={_unparse(k.value)}" for k in c.keywords])
             for c in _self_calls(fn, "_apply_")]
    return exits, events, calls


def _opacity_scale(expr, names):
    """the rational by which `expr` scales the value 1 supplied for the attribute / lookup it reads"""
    class Stub:
        def __init__(self, v):
            self.opacity = v
            self.v = v

        def get(self, *a, **k):
            return self.v
    env = {n: Stub(1.0) for n in names}
    v = eval(compile(ast.Expression(expr), "<scale>", "eval"), {"__builtins__": {}}, env)
    f = Fraction(float(v)).limit_denominator(100000)
    return f.numerator, f.denominator


def _overlay_facts(src, notes):
    out = []
    for name in ("_apply_color_overlay", "_apply_pattern_overlay", "_apply_gradient_overlay", "_apply_stroke_effect"):
        fn = src.method(name)
        if fn is None:
            notes.append(f"composite/__init__.py: Compositor.{name} not found")
            out.append((name, "?", [], [], (0, 0)))
            continue
        loop = next((n for n in fn.body if isinstance(n, ast.For)), None)
        key = _unparse(loop.iter) if loop is not None else "?"
        calls = _self_calls(fn, "_apply_source")
        args = [_unparse(a) for a in calls[0].args] if len(calls) == 1 else []
        pastes = []
        scale = (0, 0)
        for n in ast.walk(fn):
            if isinstance(n, ast.Assign) and len(n.targets) == 1 and isinstance(n.targets[0], ast.Name):
                tgt = n.targets[0].id
                if isinstance(n.value, ast.Call) and getattr(n.value.func, "id", None) == "paste":
                    pastes.append((n.lineno, f"{tgt} = {_unparse(n.value)}"))
                elif tgt in ("shape_e", "bbox", "shape_in_bbox"):
                    pastes.append((n.lineno, f"{tgt} = {_unparse(n.value)}"))
                elif tgt == "opacity":
                    pastes.append((n.lineno, f"{tgt} = {_unparse(n.value)}"))
                    try:
                        scale = _opacity_scale(n.value, ["effect", "layer"])
                    except Exception as e:  # noqa
                        notes.append(f"{name}: opacity expression {_unparse(n.value)} cannot be evaluated ({type(e).__name__})")
        out.append((name, key, args, [p for _, p in sorted(pastes)], scale))
    return out


def _truth_table(test, variables, build_env, notes, what):
    """evaluate the `if` test for every assignment of the Boolean inputs (first variable = most significant bit)"""
    if test is None:
        notes.append(f"{what}: the decision was not found")
        return []
    code = compile(ast.Expression(test), "<decision>", "eval")
    table = []
    try:
        for bits in itertools.product([False, True], repeat=len(variables)):
            env = build_env(dict(zip(variables, bits)))
            table.append(bool(eval(code, {"__builtins__": {"bool": bool}}, env)))
    except Exception as e:  # noqa
        notes.append(f"{what}: the decision {_unparse(test)} cannot be evaluated on stub objects ({type(e).__name__}: {e})")
        return []
    return table


class _Obj:
    def __init__(self, **kw):
        self.__dict__.update(kw)


def _layer_env(v):
    mask = None
    if v.get("mask_present"):
        mask = _Obj(_has_real=lambda: v.get("has_real", False), disabled=False)
    vm = None
    if v.get("vm_present"):
        vm = _Obj(disabled=v.get("vm_disabled", False))
    layer = _Obj(has_pixels=lambda: v.get("has_pixels", False), has_vector_mask=lambda: v.get("has_vector_mask", False),
                 mask=mask, vector_mask=vm)
    return {"self": _Obj(_force=v.get("force", False)), "layer": layer, "has_fill": lambda l: v.get("has_fill", False)}


def _find_if(fn, pred):
    if fn is None:
        return None
    for n in ast.walk(fn):
        if isinstance(n, ast.If) and pred(n):
            return n
    return None


def _calls_name(node, name):
    return any(isinstance(c, ast.Call) and (getattr(c.func, "id", None) == name or getattr(c.func, "attr", None) == name)
               for c in ast.walk(node))


def _decisions(src, notes):
    go = src.method("_get_object")
    gm = src.method("_get_mask")
    ap = src.method("apply")
    i1 = _find_if(go, lambda n: any(_calls_name(s, "create_fill") for s in n.body))
    t1 = _truth_table(i1.test if i1 else None, ["force", "has_pixels", "has_fill"], _layer_env, notes, "_get_object: fill or pixels")
    i2 = _find_if(gm, lambda n: any(_calls_name(s, "draw_vector_mask") for s in n.body))
    t2 = _truth_table(i2.test if i2 else None,
                      ["vm_present", "vm_disabled", "force", "has_pixels", "has_fill", "mask_present", "has_real"],
                      _layer_env, notes, "_get_mask: vector mask")
    i3 = _find_if(ap, lambda n: any(_calls_name(s, "_apply_stroke_effect") for s in n.body) and bool(n.orelse))
    t3 = _truth_table(i3.test if i3 else None, ["force", "has_vector_mask", "has_pixels", "has_fill"], _layer_env, notes,
                      "apply: stroke effect from shape_mask")
    return t1, t2, t3


def _const_scales(src, notes):
    fn = src.method("_get_const")
    if fn is None:
        notes.append("composite/__init__.py: Compositor._get_const not found")
        return []
    mod = ast.Module(body=[fn], type_ignores=[])
    ns = {}
    try:
        from psd_tools.constants import Tag
        exec(compile(mod, "<_get_const>", "exec"), {"Tag": Tag, "float": float, "__builtins__": {"float": float}}, ns)
        layer = _Obj(tagged_blocks=_Obj(get_data=lambda k, d=None: 51 if k == Tag.BLEND_FILL_OPACITY else d), opacity=85)
        shape, opacity = ns["_get_const"](None, layer)
        default_layer = _Obj(tagged_blocks=_Obj(get_data=lambda k, d=None: d), opacity=255)
        dshape, _ = ns["_get_const"](None, default_layer)
        out = []
        for v, per in ((shape, 51), (opacity, 85), (dshape, 1)):
            f = Fraction(float(v)).limit_denominator(100000) / per
            out.append((f.numerator, f.denominator))
        return out
    except Exception as e:  # noqa
        notes.append(f"_get_const cannot be evaluated on a stub layer ({type(e).__name__}: {e})")
        return []


def _stroke_facts(src, notes):
    go = src.method("_get_object")
    blk = _find_if(go, lambda n: any(_calls_name(s, "_get_stroke") for s in n.body))
    facts = []
    if blk is None:
        notes.append("_get_object: the vector-stroke block was not found")
        facts.append("?")
    else:
        facts.append("if " + _unparse(blk.test))
        facts += [_unparse(s) for s in blk.body]
        # where the block stands: after the clip layers, before the return
        order = []
        for n in sorted((n for n in ast.walk(go) if isinstance(n, ast.Call) and isinstance(n.func, ast.Attribute)
                         and n.func.attr in ("_apply_clip_layers", "_get_stroke")), key=lambda c: c.lineno):
            order.append(n.func.attr)
        facts.append("order " + " ".join(order))
    gs = src.method("_get_stroke")
    scale = (0, 0)
    extra = []
    if gs is None:
        notes.append("composite/__init__.py: Compositor._get_stroke not found")
    else:
        for n in sorted((m for m in ast.walk(gs) if isinstance(m, ast.Assign)), key=lambda m: m.lineno):
            if isinstance(n, ast.Assign) and len(n.targets) == 1 and isinstance(n.targets[0], ast.Name):
                if n.targets[0].id == "opacity":
                    extra.append("opacity = " + _unparse(n.value))
                    try:
                        scale = _opacity_scale(n.value, ["desc"])
                    except Exception as e:  # noqa
                        notes.append(f"_get_stroke: opacity expression cannot be evaluated ({type(e).__name__})")
                elif n.targets[0].id == "alpha":
                    extra.append("alpha = " + _unparse(n.value))
                elif isinstance(n.value, ast.Call) and getattr(n.value.func, "id", None) == "paste":
                    extra.append(f"{n.targets[0].id} = {_unparse(n.value)}")
        ret = next((n for n in ast.walk(gs) if isinstance(n, ast.Return)), None)
        extra.append("return " + (_unparse(ret.value) if ret is not None and ret.value is not None else "?"))
    return facts + extra, scale


def _clip_return(src, notes):
    fn = src.method("_apply_clip_layers")
    if fn is None:
        notes.append("composite/__init__.py: Compositor._apply_clip_layers not found")
        return "?"
    rets = [n for n in ast.walk(fn) if isinstance(n, ast.Return)]
    if len(rets) != 1 or rets[0].value is None:
        notes.append("_apply_clip_layers: not exactly one return value")
        return "?"
    return _unparse(rets[0].value)


def _fill_tags(src, notes):
    fn = src.function("has_fill")
    if fn is None:
        notes.append("composite/__init__.py: has_fill not found")
        return []
    for n in ast.walk(fn):
        if isinstance(n, ast.Assign) and isinstance(n.value, (ast.Tuple, ast.List)):
            return [_unparse(e) for e in n.value.elts]
    notes.append("has_fill: the tag tuple was not found")
    return []


def gen_composite_fx(ctx):
    notes = []
    try:
        src = _Src()
    except Exception as e:  # noqa  (a syntax error in the source: nothing can be extracted)
        notes.append(f"composite/__init__.py cannot be parsed: {type(e).__name__}")
        src = None
    exits, events, calls, overlays, t1, t2, t3, consts, stroke, sscale, clipret, tags = [], [], [], [], [], [], [], [], ["?"], (0, 0), "?", []
    if src is not None:
        for name, fn in (("apply", lambda: _apply_facts(src, notes)),):
            try:
                exits, events, calls = fn()
            except Exception as e:  # noqa
                notes.append(f"{name}: {type(e).__name__}: {e}")
        for setter in (
            lambda: ("overlays", _overlay_facts(src, notes)), lambda: ("dec", _decisions(src, notes)),
            lambda: ("consts", _const_scales(src, notes)), lambda: ("stroke", _stroke_facts(src, notes)),
            lambda: ("clip", _clip_return(src, notes)), lambda: ("tags", _fill_tags(src, notes))):
            try:
                k, v = setter()
            except Exception as e:  # noqa
                notes.append(f"extract_fx: {type(e).__name__}: {e}")
                continue
            if k == "overlays":
                overlays = v
            elif k == "dec":
                t1, t2, t3 = v
            elif k == "consts":
                consts = v
            elif k == "stroke":
                stroke, sscale = v
            elif k == "clip":
                clipret = v
            else:
                tags = v
    pair = lambda p: f"({p[0]}, {p[1]})"
    lines = [
        "namespace PsdVerif.Generated.CompositeFx",
        "/-- tests of the early exits of `Compositor.apply`, in order -/",
        f"def applyExits : List String := {llist(exits)}",
        "/-- in-place scalings and `self._apply_*` calls of `apply`, in source order -/",
        f"def applyEvents : List String := {llist(events)}",
        "/-- the `self._apply_*` calls of `apply` with their arguments -/",
        "def applyCalls : List (String × List String) := " + llist(calls, lambda c: f"({lstr(c[0])}, {llist(c[1])})"),
        "/-- per effect function: (name, effects.find key, `_apply_source` arguments, pastes, opacity scale num/den) -/",
        "def overlaySources : List (String × String × List String × List String × Nat × Nat) := "
        + llist(overlays, lambda o: f"({lstr(o[0])}, {lstr(o[1])}, {llist(o[2])}, {llist(o[3])}, {o[4][0]}, {o[4][1]})"),
        "/-- `_get_object`: `(force or not has_pixels()) and has_fill`, over (force, has_pixels, has_fill), first = most significant -/",
        f"def useFillTable : List Bool := {llist(t1, lbool)}",
        "/-- `_get_mask`: the vector-mask test over (vm present, vm disabled, force, has_pixels, has_fill, mask present, has real) -/",
        f"def useVectorMaskTable : List Bool := {llist(t2, lbool)}",
        "/-- `apply`: stroke effect drawn from `shape_mask`, over (force, has_vector_mask, has_pixels, has_fill) -/",
        f"def strokeFromMaskTable : List Bool := {llist(t3, lbool)}",
        "/-- `_get_const`: (shape per unit of the fill-opacity byte, opacity per unit of `layer.opacity`, shape when the block is absent) -/",
        f"def constScales : List (Nat × Nat) := {llist(consts, pair)}",
        "/-- the vector stroke in `_get_object` / `_get_stroke` -/",
        f"def strokeFacts : List String := {llist(stroke)}",
        f"def strokeOpacityScale : Nat × Nat := {pair(sscale)}",
        "/-- what `_apply_clip_layers` returns -/",
        f"def clipReturn : String := {lstr(clipret)}",
        "/-- `has_fill`: FILL_TAGS -/",
        f"def fillTags : List String := {llist(tags)}",
        "end PsdVerif.Generated.CompositeFx",
    ]
    for n in notes:
        ctx.notes.append("extract_fx: " + n)
    ctx.write_generated("CompositeFx", "\n".join(lines) + "\n")
    return ["PsdVerif.Generated.CompositeFx"]
