"""C16: tables of the source the attribute model depends on -> Generated/Attr.lean.

Read from the live modules of the working tree on every run: the `BlendMode` enum
(the blend-mode theorems quantify over this list), the tagged-block keys and enum
values the model names, and the upper half of Python's MacRoman codec (the `name`
setter's test `value.encode("macroman")`).
"""
from __future__ import annotations

from core import Infra


def _bytes(b: bytes) -> str:
    return "[" + ", ".join(str(x) for x in b) + "]"


def tables():
    from psd_tools.constants import BlendMode, Tag, Clipping, SectionDivider, ProtectedFlags
    blend = [(m.name, bytes(m.value)) for m in BlendMode]
    if not all(len(v) == 4 for _, v in blend):
        raise Infra("BlendMode: a key is not 4 bytes long")
    high = [ord(c) for c in bytes(range(128, 256)).decode("macroman")]
    low_ok = bytes(range(128)).decode("macroman") == "".join(map(chr, range(128)))
    if not low_ok:
        raise Infra("macroman: the lower half is not ASCII")
    return {
        "blend": blend,
        "macHigh": high,
        "tags": {k: bytes(getattr(Tag, k).value) for k in
                 ("UNICODE_LAYER_NAME", "SECTION_DIVIDER_SETTING", "NESTED_SECTION_DIVIDER_SETTING", "PROTECTED_SETTING")},
        "clipping": {m.name: int(m.value) for m in Clipping},
        "divider": {m.name: int(m.value) for m in SectionDivider},
        "protected": {m.name: int(m.value) for m in ProtectedFlags},
    }


def record_defaults():
    """How every attrs field of the classes in psd/layer_and_mask.py gets its default: `factory` (a new object per
    instance), `immutable` (a value that cannot be mutated), `required`, or `shared` (ONE mutable object, created with
    the class, for every instance built without that argument). The cross-layer frame theorem needs: no `shared`."""
    import enum
    import inspect
    import attr
    import psd_tools.psd.layer_and_mask as M
    out = []
    for cname, cls in sorted(vars(M).items()):
        if not (inspect.isclass(cls) and attr.has(cls) and cls.__module__ == M.__name__):
            continue
        for f in attr.fields(cls):
            d = f.default
            if d is attr.NOTHING:
                how = "required"
            elif isinstance(d, attr.Factory):
                how = "factory"
            elif d is None or isinstance(d, (bool, int, float, str, bytes, tuple, frozenset, enum.Enum)):
                how = "immutable"
            else:
                how = "shared"
            out.append((f"{cname}.{f.name}", how))
    return out


def gen_attr(ctx):
    t = tables()
    try:
        t["defaults"] = record_defaults()
        if not any(n == "LayerRecord.flags" for n, _ in t["defaults"]):
            ctx.notes.append("extract_c16: LayerRecord.flags not found among the attrs fields of psd/layer_and_mask.py")
            t["defaults"].append(("LayerRecord.flags", "missing"))
    except Exception as e:  # noqa - a change of the source: the tying theorem fails, the run goes on
        ctx.notes.append(f"extract_c16: attrs fields of psd/layer_and_mask.py cannot be read ({type(e).__name__}: {e})")
        t["defaults"] = [("LayerRecord.flags", "missing")]
    L = ["namespace PsdVerif.Generated.Attr", ""]
    L.append("/-- `constants.BlendMode`: (member name, 4-byte key) in definition order -/")
    L.append("def blendModes : List (String × List UInt8) := [")
    L.append(",\n".join(f'  ("{n}", {_bytes(v)})' for n, v in t["blend"]))
    L.append("]")
    L.append("def blendKeys : List (List UInt8) := blendModes.map (·.2)")
    L.append("")
    L.append("/-- code points of the bytes 0x80..0xFF in Python's `mac_roman` codec -/")
    L.append("def macRomanHigh : List Nat := [" + ", ".join(map(str, t["macHigh"])) + "]")
    L.append("")
    names = {"UNICODE_LAYER_NAME": "tagLuni", "SECTION_DIVIDER_SETTING": "tagLsct",
             "NESTED_SECTION_DIVIDER_SETTING": "tagLsdk", "PROTECTED_SETTING": "tagLspf"}
    for k, nm in names.items():
        L.append(f"/-- `Tag.{k}` -/\ndef {nm} : List UInt8 := {_bytes(t['tags'][k])}")
    L.append(f"def clippingBase : Nat := {t['clipping']['BASE']}")
    L.append(f"def clippingNonBase : Nat := {t['clipping']['NON_BASE']}")
    L.append("def clippingValues : List Nat := [" + ", ".join(str(v) for v in t["clipping"].values()) + "]")
    L.append(f"def dividerOpen : Nat := {t['divider']['OPEN_FOLDER']}")
    L.append(f"def dividerClosed : Nat := {t['divider']['CLOSED_FOLDER']}")
    L.append("def dividerValues : List Nat := [" + ", ".join(str(v) for v in t["divider"].values()) + "]")
    L.append("/-- `ProtectedFlags` -/")
    L.append("def protectedFlags : List (String × Nat) := ["
             + ", ".join(f'("{n}", {v})' for n, v in t["protected"].items()) + "]")
    L.append("")
    L.append("/-- attrs fields of psd/layer_and_mask.py: where the default value comes from -/")
    L.append("def recordDefaults : List (String × String) := [")
    L.append(",\n".join(f'  ("{n}", "{h}")' for n, h in t["defaults"]))
    L.append("]")
    L.append("")
    L.append("end PsdVerif.Generated.Attr")
    ctx.write_generated("Attr", "\n".join(L) + "\n")
    return {"blend_modes": len(t["blend"]), "protected_flags": t["protected"],
            "record_defaults": {h: sum(1 for _, x in t["defaults"] if x == h) for h in sorted({x for _, x in t["defaults"]})}}


# =====================================================================================================
# Part 2: the accessor table -> Generated/AttrTable.lean
#
# For every public attribute of `Layer` and its subclasses (reflection over the LIVE classes: every property that
# has a setter in some layer class, plus public methods whose flattened body assigns attribute storage - `lock`,
# `unlock`) and for every layer class (classes with identical rows are emitted once, `classes` maps each class to
# its representative) one row:
#   reads   the getter's read path, a priority list of locations (record field / attribute of an element of the
#           record / attribute of the data element of a tagged block, the block named by its Tag member or by the
#           keys an intermediate property such as `_setting` selects, in its order of precedence / derived)
#   effs    the setter's effects in source order (see Model/AttrTable.lean `Eff`), `self.<attr> = ...` resolved
#           through the MRO of the ROW's class and inlined (a property without setter: refusal)
# and for the writers (`TaggedBlock.write`, `TaggedBlocks.write`, `LayerRecord.write` and what they call on self,
# the `write` of the element classes of the attribute blocks): every attribute of self they read that is not an
# attrs constructor field, a method or a class constant (caches), and every attribute they assign.
# A small symbolic evaluator over the AST (classes/methods indexed by extract_c15._Api); what it does not understand
# becomes `.other`, which `tableOk` rejects - a changed source never raises.
# =====================================================================================================
import ast
import inspect
import re
import textwrap

from extract_c15 import _Api, _lstr

# ---- symbolic values ---------------------------------------------------------------------------------
# ("self",) ("rec",) ("blocks",) ("psd",) ("field", f) ("elem", f, a) ("blk", keys) ("bd", keys) ("ba", keys, attr)
# ("arg", j|None) ("const", src) ("tuple", [v...]) ("prio", [v...]) ("derived", src, [reads]) ("unknown", src)


def _tagname(node):
    s = ast.unparse(node)
    m = re.fullmatch(r"Tag\.([A-Z0-9_]+)", s)
    return m.group(1) if m else None


def _value_attr(keys):
    """attribute through which `get_data` / `set_data` see the element of this block: `value` for ValueElement classes"""
    try:
        from psd_tools.constants import Tag
        from psd_tools.psd.base import ValueElement
        from psd_tools.psd.tagged_blocks import TYPES
        kls = TYPES.get(getattr(Tag, keys[0]))
        return "value" if (kls is not None and issubclass(kls, ValueElement)) else "*"
    except Exception:  # noqa
        return "*"


def _elem_class(keys):
    try:
        from psd_tools.constants import Tag
        from psd_tools.psd.tagged_blocks import TYPES
        return TYPES.get(getattr(Tag, keys[0]))
    except Exception:  # noqa
        return None


def _locs(v):
    """locations a symbolic value is read from, in priority order"""
    k = v[0]
    if k == "field":
        return [("field", v[1])]
    if k == "elem":
        return [("elem", v[1], v[2])]
    if k in ("bd", "blk"):
        return [("block", "|".join(v[1]), _value_attr(v[1]))]
    if k == "ba":
        return [("block", "|".join(v[1]), v[2])]
    if k in ("tuple", "prio"):
        out = []
        for x in v[1]:
            out += [l for l in _locs(x) if l not in out]
        return out
    if k == "derived":
        return list(v[2]) if v[2] else [("derived", v[1])]
    if k in ("rec", "blocks"):
        return [("other", "the whole " + k)]
    if k == "unknown":
        return [("other", v[1])]
    return []          # self, psd, arg, const


def _is_arg(v):
    return v[0] == "arg"


class _Acc:
    """symbolic evaluation of the accessors of one ROW class"""

    MAXD = 10

    def __init__(self, api, live, row_cls):
        self.api, self.live, self.row_cls = api, live, row_cls
        self.mro = [c.__name__ for c in live[row_cls].__mro__ if c.__name__ in api.classes]
        self.gid = 0

    # -- resolution through the MRO of the row class ----------------------------------------------------
    def resolve(self, name, kind, after=None):
        mro = self.mro
        if after is not None and after in mro:
            mro = mro[mro.index(after) + 1:]
        for c in mro:
            if (c, name, kind) in self.api.methods:
                return c
            if kind == "setter" and (c, name, "getter") in self.api.methods:
                return None            # the nearest definition is a property without setter (in this class body)
            if kind in ("getter", "setter") and (c, name, "method") in self.api.methods:
                return None
        return None

    def is_property(self, name, after=None):
        mro = self.mro
        if after is not None and after in mro:
            mro = mro[mro.index(after) + 1:]
        for c in mro:
            if (c, name, "getter") in self.api.methods:
                return c
            if (c, name, "method") in self.api.methods:
                return None
        return None

    # -- expressions -----------------------------------------------------------------------------------
    def ev(self, node, env, cur_cls, depth=0):
        if isinstance(node, ast.Constant):
            return ("const", repr(node.value))
        if isinstance(node, ast.Name):
            if node.id in env:
                return env[node.id]
            return ("const", node.id) if node.id[:1].isupper() or node.id in ("None", "True", "False") else ("unknown", node.id)
        if isinstance(node, ast.Tuple):
            return ("tuple", [self.ev(e, env, cur_cls, depth) for e in node.elts])
        if isinstance(node, ast.Attribute):
            if isinstance(node.value, ast.Name) and node.value.id[:1].isupper() and node.value.id not in env:
                return ("const", ast.unparse(node))                     # BlendMode.NORMAL, Tag.X, Clipping.BASE
            is_super = isinstance(node.value, ast.Call) and isinstance(node.value.func, ast.Name) and node.value.func.id == "super"
            base = ("self",) if is_super else self.ev(node.value, env, cur_cls, depth)
            return self.attr(base, node.attr, cur_cls if is_super else None, depth, ast.unparse(node))
        if isinstance(node, ast.Subscript):
            base = self.ev(node.value, env, cur_cls, depth)
            if base[0] == "tuple" and isinstance(node.slice, ast.Constant) and isinstance(node.slice.value, int) \
                    and 0 <= node.slice.value < len(base[1]):
                return base[1][node.slice.value]
            if base[0] == "arg" and isinstance(node.slice, ast.Constant) and isinstance(node.slice.value, int):
                return ("arg", node.slice.value)
            if base[0] == "blocks":
                k = _tagname(node.slice)
                return ("blk", (k,)) if k else ("unknown", ast.unparse(node))
            return ("derived", ast.unparse(node), _locs(base))
        if isinstance(node, ast.Call):
            return self.call_value(node, env, cur_cls, depth)
        if isinstance(node, ast.IfExp):
            a, b = self.ev(node.body, env, cur_cls, depth), self.ev(node.orelse, env, cur_cls, depth)
            t = self.ev(node.test, env, cur_cls, depth)
            argish = [x for x in (a, b, t) if _is_arg(x)]
            if argish and all(x[0] in ("arg", "const") for x in (a, b)):
                return argish[0]                                        # a conversion of the argument
            return ("prio", [a, b])
        if isinstance(node, (ast.Compare, ast.BoolOp, ast.UnaryOp)):
            parts = [node.left] + list(node.comparators) if isinstance(node, ast.Compare) else \
                node.values if isinstance(node, ast.BoolOp) else [node.operand]
            vals = [self.ev(p, env, cur_cls, depth) for p in parts]
            rd = []
            for x in vals:
                rd += [l for l in _locs(x) if l not in rd]
            nonconst = [x for x in vals if x[0] != "const"]
            if len(nonconst) == 1 and nonconst[0][0] in ("field", "elem", "ba", "bd"):
                return nonconst[0]                                      # `record.clipping == Clipping.NON_BASE`: that field
            return ("derived", ast.unparse(node), rd)
        if isinstance(node, ast.BinOp):
            vals = [self.ev(node.left, env, cur_cls, depth), self.ev(node.right, env, cur_cls, depth)]
            rd = []
            for x in vals:
                rd += [l for l in _locs(x) if l not in rd]
            return ("derived", ast.unparse(node), rd)
        if isinstance(node, (ast.GeneratorExp, ast.ListComp)):
            g = node.generators[0]
            it = self.ev(g.iter, env, cur_cls, depth)
            if len(node.generators) == 1 and _is_arg(it) and isinstance(g.target, ast.Name) and not g.ifs:
                e2 = dict(env)
                e2[g.target.id] = ("arg", "each")
                el = self.ev(node.elt, e2, cur_cls, depth)
                if el == ("arg", "each"):
                    return ("arg", None)                                # elementwise conversion of the argument
            return ("derived", ast.unparse(node), [])
        return ("unknown", ast.unparse(node))

    def attr(self, base, name, super_of, depth, src):
        k = base[0]
        if k == "self":
            if name == "_record":
                return ("rec",)
            if name == "_psd":
                return ("psd",)
            pc = self.is_property(name, after=super_of)
            if pc is not None:
                if depth >= self.MAXD:
                    return ("unknown", src)
                return self.getter_value(pc, name, depth + 1)
            if super_of is None and self.resolve(name, "method") is not None:
                return ("const", "self." + name)                        # a bound method
            return ("derived", "self." + name, [])                      # plain instance attribute (memo such as `_bbox`)
        if k == "rec":
            return ("blocks",) if name == "tagged_blocks" else ("field", name)
        if k == "field":
            return ("elem", base[1], name)
        if k == "blk":
            return ("bd", base[1]) if name == "data" else ("unknown", src)
        if k == "bd":
            return ("ba", base[1], name)
        if k == "arg":
            return base
        if k == "psd":
            return ("derived", src, [])
        if k == "derived":
            return ("derived", src, base[2])
        if k in ("prio", "tuple"):
            return ("derived", src, _locs(base))
        return ("unknown", src)

    def call_value(self, node, env, cur_cls, depth):
        f = node.func
        src = ast.unparse(node)
        if isinstance(f, ast.Name):
            args = [self.ev(a, env, cur_cls, depth) for a in node.args]
            if f.id in ("int", "bool", "str", "bytes", "tuple", "list", "float") or f.id[:1].isupper():
                if len(args) == 1 and (_is_arg(args[0]) or args[0][0] in ("field", "elem", "ba", "bd")):
                    return args[0]                                      # a conversion
                if len(args) == 1 and args[0][0] == "const":
                    return ("const", src)
            if f.id in ("isinstance", "len", "hasattr"):
                return ("derived", src, [])
            rd = []
            for x in args:
                rd += [l for l in _locs(x) if l not in rd]
            return ("derived", src, rd)
        if isinstance(f, ast.Attribute):
            base = self.ev(f.value, env, cur_cls, depth)
            if base[0] == "blocks" and f.attr in ("get_data", "get") and node.args:
                key = _tagname(node.args[0])
                if key is None:
                    return ("unknown", src)
                first = ("bd", (key,)) if f.attr == "get_data" else ("blk", (key,))
                if len(node.args) > 1:
                    d = self.ev(node.args[1], env, cur_cls, depth)
                    if d[0] == first[0]:
                        return (first[0], (key,) + tuple(d[1]))         # the default is another block: one selector
                    if d[0] == "const":
                        return first
                    return ("prio", [first, d])
                return first
            if _is_arg(base):
                return base                                             # value.encode("ascii")
            if base[0] == "self":
                return ("derived", src, [])
            return ("derived", src, _locs(base))
        return ("unknown", src)

    # -- getters ---------------------------------------------------------------------------------------
    def getter_value(self, cls, name, depth=0):
        fn = self.api.methods[(cls, name, "getter")]
        env = {fn.args.args[0].arg: ("self",)}
        rets = []
        self._getter_block(fn.body, env, cls, depth, rets)
        rets = [r for r in rets if not (r[0] == "const" and r[1] == "None")]
        if not rets:
            return ("const", "None")
        if len(rets) == 1:
            return rets[0]
        if all(r[0] == "bd" for r in rets):
            keys = []
            for r in rets:
                keys += [k for k in r[1] if k not in keys]
            return ("bd", tuple(keys))
        return ("prio", rets)

    def _getter_block(self, stmts, env, cls, depth, rets):
        for st in stmts:
            if isinstance(st, ast.Expr) and isinstance(st.value, ast.Constant):
                continue
            if isinstance(st, ast.Return):
                rets.append(self.ev(st.value, env, cls, depth) if st.value is not None else ("const", "None"))
            elif isinstance(st, (ast.Assign, ast.AnnAssign)) and st.value is not None:
                targets = st.targets if isinstance(st, ast.Assign) else [st.target]
                if len(targets) == 1 and isinstance(targets[0], ast.Name):
                    env[targets[0].id] = self.ev(st.value, env, cls, depth)
                # assignments to memo attributes of self (`self._bbox = ...`) are read back as derived
            elif isinstance(st, ast.If):
                self._getter_block(st.body, dict(env), cls, depth, rets)
                self._getter_block(st.orelse, dict(env), cls, depth, rets)
            elif isinstance(st, (ast.For, ast.While, ast.With, ast.Try)):
                for part in ("body", "orelse", "finalbody"):
                    self._getter_block(getattr(st, part, []) or [], dict(env), cls, depth, rets)
            # assert / raise / pass / import: nothing is returned

    def reads(self, name):
        pc = self.is_property(name)
        if pc is None:
            return None
        return self.getter_value(pc, name)

    # -- guards ----------------------------------------------------------------------------------------
    def guard(self, test, env, cls, row_reads, neg=False):
        """-> list of (text, kind, neg) for a conjunction; a test that cannot be split is one opaque guard"""
        if isinstance(test, ast.UnaryOp) and isinstance(test.op, ast.Not):
            inner = self.guard(test.operand, env, cls, row_reads, not neg)
            if len(inner) == 1:
                return inner
            return [(ast.unparse(test), "opaque", neg)]
        if isinstance(test, ast.BoolOp) and isinstance(test.op, ast.And) and not neg:
            out = []
            for v in test.values:
                out += self.guard(v, env, cls, row_reads, False)
            return out
        if isinstance(test, ast.Compare) and len(test.ops) == 1:
            a = self.ev(test.left, env, cls)
            b = self.ev(test.comparators[0], env, cls)
            op = test.ops[0]
            if isinstance(op, (ast.Is, ast.IsNot)) and b == ("const", "None") and a[0] in ("bd", "blk"):
                return [(ast.unparse(test), "present:" + "|".join(a[1]), neg != isinstance(op, ast.Is))]
            if isinstance(op, (ast.Eq, ast.NotEq)):
                for x, y in ((a, b), (b, a)):
                    ly = _locs(y)
                    if _is_arg(x) and ly and all(l in row_reads for l in ly):
                        return [(ast.unparse(test), "stored", neg != isinstance(op, ast.NotEq))]
        if isinstance(test, (ast.Name, ast.Attribute, ast.Call)):
            a = self.ev(test, env, cls)
            if a[0] in ("bd", "blk"):
                return [(ast.unparse(test), "present:" + "|".join(a[1]), neg)]
        return [(ast.unparse(test), "opaque", neg)]

    # -- setters / methods -----------------------------------------------------------------------------
    def run(self, cls, fn, env, gs, via, depth, row_reads, out):
        self.block(fn.body, env, cls, gs, via, depth, row_reads, out, in_loop=False)

    def emit_write(self, out, loc, v, gs, via, in_loop):
        if in_loop:
            out.append(("other", "assignment to %s inside a loop" % (loc,)))
            return
        out.append(("write", loc, "arg" if _is_arg(v) and v[1] in (None, self.argc) else "derived", list(gs), list(via)))

    def block(self, stmts, env, cls, gs, via, depth, row_reads, out, in_loop):
        for st in stmts:
            if isinstance(st, ast.Expr) and isinstance(st.value, ast.Constant):
                continue
            if isinstance(st, (ast.Pass, ast.Import, ast.ImportFrom, ast.Global, ast.Nonlocal, ast.FunctionDef)):
                continue
            if isinstance(st, ast.Assert):
                g = self.guard(st.test, env, cls, row_reads, neg=True)
                out.append(("refuse", "AssertionError", list(gs) + g))
                continue
            if isinstance(st, ast.Raise):
                exc = ast.unparse(st.exc.func) if isinstance(st.exc, ast.Call) else (ast.unparse(st.exc) if st.exc else "re-raise")
                out.append(("refuse", exc, list(gs)))
                return
            if isinstance(st, ast.Return):
                out.append(("ret", list(gs)))
                return
            if isinstance(st, ast.If):
                test = st.test
                if isinstance(test, ast.BoolOp) and isinstance(test.op, ast.Or) and not st.orelse:
                    # `if A or B: body` == `if A: body` then `if B: body` when body ends the call
                    if st.body and isinstance(st.body[-1], (ast.Return, ast.Raise)):
                        for v in test.values:
                            self.block(st.body, dict(env), cls, gs + self.guard(v, env, cls, row_reads), via, depth, row_reads, out, in_loop)
                        continue
                g = self.guard(test, env, cls, row_reads)
                gn = self.guard(test, env, cls, row_reads, neg=True)
                if len(gn) != 1:
                    gn = [(ast.unparse(test), "opaque", True)]
                self.block(st.body, dict(env), cls, gs + g, via, depth, row_reads, out, in_loop)
                self.block(st.orelse, dict(env), cls, gs + gn, via, depth, row_reads, out, in_loop)
                continue
            if isinstance(st, ast.Try):
                self.gid += 1
                ok = ("try%d: no exception in `%s`" % (self.gid, ast.unparse(st.body[0])[:60]), "opaque", False)
                self.block(st.body, env, cls, gs + [ok], via, depth, row_reads, out, in_loop)
                for h in st.handlers:
                    self.block(h.body, dict(env), cls, gs + [(ok[0], "opaque", True)], via, depth, row_reads, out, in_loop)
                self.block(st.orelse, env, cls, gs + [ok], via, depth, row_reads, out, in_loop)
                self.block(st.finalbody, env, cls, gs, via, depth, row_reads, out, in_loop)
                continue
            if isinstance(st, (ast.For, ast.While)):
                self.gid += 1
                it = ast.unparse(st.iter if isinstance(st, ast.For) else st.test)
                e2 = dict(env)
                if isinstance(st, ast.For) and isinstance(st.target, ast.Name):
                    e2[st.target.id] = ("unknown", st.target.id)
                self.block(st.body, e2, cls, gs + [("loop%d over %s" % (self.gid, it[:60]), "opaque", False)], via, depth, row_reads, out, True)
                continue
            if isinstance(st, ast.With):
                self.block(st.body, env, cls, gs, via, depth, row_reads, out, in_loop)
                continue
            if isinstance(st, (ast.Assign, ast.AnnAssign, ast.AugAssign)):
                if st.value is None:
                    continue
                self.calls_in(st.value, env, cls, gs, via, depth, row_reads, out, in_loop)
                val = self.ev(st.value, env, cls) if not isinstance(st, ast.AugAssign) else ("derived", ast.unparse(st), [])
                targets = st.targets if isinstance(st, ast.Assign) else [st.target]
                for t in targets:
                    self.assign(t, val, env, cls, gs, via, depth, row_reads, out, in_loop, ast.unparse(st))
                continue
            if isinstance(st, ast.Expr):
                self.calls_in(st.value, env, cls, gs, via, depth, row_reads, out, in_loop)
                continue
            if isinstance(st, ast.Delete):
                out.append(("other", ast.unparse(st)))
                continue
            if isinstance(st, (ast.Break, ast.Continue)):
                continue
            out.append(("other", "statement " + type(st).__name__))

    def assign(self, t, val, env, cls, gs, via, depth, row_reads, out, in_loop, src):
        if isinstance(t, (ast.Tuple, ast.List)):
            for j, e in enumerate(t.elts):
                if val[0] == "tuple" and j < len(val[1]):
                    v = val[1][j]
                elif _is_arg(val) and val[1] is None:
                    v = ("arg", j)
                else:
                    v = ("derived", src, [])
                self.assign(e, v, env, cls, gs, via, depth, row_reads, out, in_loop, src)
            return
        if isinstance(t, ast.Name):
            env[t.id] = val
            return
        if isinstance(t, ast.Subscript):
            base = self.ev(t.value, env, cls)
            if base[0] in ("self", "psd", "derived", "const", "arg", "unknown") and "_record" not in src and "tagged_blocks" not in src:
                out.append(("call", src[:80], list(gs)))
            else:
                out.append(("other", src[:120]))
            return
        if not isinstance(t, ast.Attribute):
            out.append(("other", src[:120]))
            return
        base = self.ev(t.value, env, cls)
        k = base[0]
        if k == "self":
            pc = self.is_property(t.attr)
            if pc is None:
                if t.attr in ("_record",):
                    out.append(("other", src[:120]))
                else:
                    out.append(("call", "self.%s = ..." % t.attr, list(gs)))       # memo / pointer on the layer object
                return
            sc = self.resolve(t.attr, "setter")
            if sc is None:
                out.append(("refuse", "AttributeError: property %s.%s has no setter" % (pc, t.attr), list(gs)))
                return
            if depth >= self.MAXD:
                out.append(("other", "setter nesting too deep at " + src[:80]))
                return
            fn = self.api.methods[(sc, t.attr, "setter")]
            params = [a.arg for a in fn.args.args]
            e2 = {params[0]: ("self",)}
            if len(params) > 1:
                e2[params[1]] = val if (_is_arg(val) or val[0] in ("const", "tuple")) else ("derived", src, [])
            self.block(fn.body, e2, sc, gs, via + ["%s.%s.setter" % (sc, t.attr)], depth + 1, row_reads, out, in_loop)
            return
        if k == "rec":
            self.emit_write(out, ("field", t.attr), val, gs, via, in_loop)
        elif k == "field":
            self.emit_write(out, ("elem", base[1], t.attr), val, gs, via, in_loop)
        elif k == "bd":
            self.emit_write(out, ("block", "|".join(base[1]), t.attr), val, gs, via, in_loop)
        elif k == "blk":
            if t.attr == "data":
                out.append(("invalidate", "|".join(base[1]), list(gs)))           # `data` re-assigned: a cache keyed on it is dropped
                out.append(("other", "the data element of block %s is replaced by assignment: %s" % ("|".join(base[1]), src[:80])))
            elif t.attr in self.cache_attrs:
                out.append(("invalidate", "|".join(base[1]), list(gs)))
            else:
                out.append(("other", src[:120]))
        elif "_record" in src or "tagged_blocks" in src:
            out.append(("other", src[:120]))
        else:
            out.append(("call", src[:80], list(gs)))                              # attribute of some other object (`node._bbox = None`)

    def calls_in(self, node, env, cls, gs, via, depth, row_reads, out, in_loop):
        calls = [n for n in ast.walk(node) if isinstance(n, ast.Call)]
        calls.sort(key=lambda n: (getattr(n, "end_lineno", 0), getattr(n, "end_col_offset", 0)))
        for c in calls:
            self.call_stmt(c, env, cls, gs, via, depth, row_reads, out, in_loop)

    def call_stmt(self, c, env, cls, gs, via, depth, row_reads, out, in_loop):
        f = c.func
        src = ast.unparse(c)
        if not isinstance(f, ast.Attribute):
            return
        is_super = isinstance(f.value, ast.Call) and isinstance(f.value.func, ast.Name) and f.value.func.id == "super"
        base = ("self",) if is_super else self.ev(f.value, env, cls)
        k = base[0]
        if k == "blocks":
            if f.attr == "set_data" and c.args:
                key = _tagname(c.args[0])
                if key is None:
                    out.append(("other", src[:120]))
                    return
                v = self.ev(c.args[1], env, cls) if len(c.args) == 2 and not c.keywords else ("derived", src, [])
                if in_loop:
                    out.append(("other", "set_data inside a loop: " + src[:80]))
                else:
                    out.append(("replace", key, _value_attr((key,)),
                                "arg" if _is_arg(v) and v[1] in (None, self.argc) else "derived", list(gs), list(via)))
            elif f.attr in ("get", "get_data", "keys", "items", "values", "__contains__"):
                pass
            else:
                out.append(("other", src[:120]))
            return
        if k == "bd":
            # a method of the element object: interpret it with self = the data element
            kls = _elem_class(base[1])
            m = getattr(kls, f.attr, None) if kls is not None else None
            try:
                mfn = ast.parse(textwrap.dedent(inspect.getsource(m))).body[0]
            except Exception:  # noqa
                out.append(("other", "method %s of the element of block %s" % (f.attr, "|".join(base[1]))))
                return
            params = [a.arg for a in mfn.args.args]
            e2 = {params[0]: base}
            for p, a in zip(params[1:], c.args):
                e2[p] = self.ev(a, env, cls)
            self.elem_block(mfn.body, e2, base, gs, via + ["%s.%s" % (kls.__name__, f.attr)], out, in_loop)
            return
        if k == "self":
            mc = self.resolve(f.attr, "method", after=cls if is_super else None)
            if mc is None:
                return
            if depth >= self.MAXD:
                out.append(("other", "call nesting too deep at " + src[:80]))
                return
            fn = self.api.methods[(mc, f.attr, "method")]
            if not self.may_write(fn):
                out.append(("call", "self.%s()" % f.attr, list(gs)))
                return
            params = [a.arg for a in fn.args.args]
            e2 = {params[0]: ("self",)}
            for p, a in zip(params[1:], c.args):
                v = self.ev(a, env, cls)
                e2[p] = ("arg", None) if (v[0] == "const" and self.argless) else v
            for p, d in zip(params[len(params) - len(fn.args.defaults):], fn.args.defaults):
                e2.setdefault(p, self.ev(d, {}, mc))
            self.block(fn.body, e2, mc, gs, via + ["%s.%s" % (mc, f.attr)], depth + 1, row_reads, out, in_loop)
            return
        if k in ("rec", "field", "elem", "blk", "ba"):
            out.append(("other", src[:120]))
            return
        if k == "psd" or (k == "derived" and "_psd" in src):
            out.append(("call", src[:80], list(gs)))
            return
        # methods of the argument, of locals, of other layers: no attribute storage of this layer
        if "_record" in src or "tagged_blocks" in src:
            out.append(("other", src[:120]))

    def elem_block(self, stmts, env, bd, gs, via, out, in_loop):
        for st in stmts:
            if isinstance(st, ast.Expr) and isinstance(st.value, ast.Constant):
                continue
            if isinstance(st, ast.Assign) and len(st.targets) == 1 and isinstance(st.targets[0], ast.Attribute) \
                    and self.ev(st.targets[0].value, env, None) == bd:
                self.emit_write(out, ("block", "|".join(bd[1]), st.targets[0].attr), self.ev(st.value, env, None), gs, via, in_loop)
            elif isinstance(st, ast.Return) and st.value is None:
                out.append(("ret", list(gs)))
            else:
                out.append(("other", "in a method of the element of block %s: %s" % ("|".join(bd[1]), ast.unparse(st)[:80])))

    @staticmethod
    def may_write(fn):
        for n in ast.walk(fn):
            if isinstance(n, ast.Attribute) and isinstance(n.ctx, ast.Store) and not n.attr.startswith("_"):
                return True
            if isinstance(n, ast.Attribute) and n.attr in ("_record", "tagged_blocks", "set_data", "locks", "_setting"):
                return True
            if isinstance(n, (ast.Raise, ast.Assert)):
                return True
        return False

    def setter_effs(self, name, row_reads, argc, cache_attrs):
        """effects of `self.<name> = value` on an object of the row class"""
        self.argc, self.argless, self.cache_attrs = argc, False, cache_attrs
        out = []
        pc = self.is_property(name)
        sc = self.resolve(name, "setter")
        if sc is None:
            return [("refuse", "AttributeError: property %s.%s has no setter" % (pc, name), [])]
        fn = self.api.methods[(sc, name, "setter")]
        params = [a.arg for a in fn.args.args]
        env = {params[0]: ("self",)}
        if len(params) > 1:
            env[params[1]] = ("arg", None)
        self.run(sc, fn, env, [], [], 0, row_reads, out)
        return _trim(out)

    def method_effs(self, name, row_reads, cache_attrs):
        self.argc, self.cache_attrs = None, cache_attrs
        mc = self.resolve(name, "method")
        fn = self.api.methods[(mc, name, "method")]
        params = [a.arg for a in fn.args.args]
        self.argless = len(params) == 1
        env = {params[0]: ("self",)}
        if len(params) > 1:
            env[params[1]] = ("arg", None)
        out = []
        self.run(mc, fn, env, [], [], 0, row_reads, out)
        return _trim(out)


def _trim(effs):
    while effs and effs[-1][0] == "ret":
        effs = effs[:-1]
    return effs


# ---- the writers -------------------------------------------------------------------------------------
def _writer_state():
    """-> (caches [(owner, attr, dropOnReplace)], other [str], consulted {class: [attrs]})"""
    import attr
    from psd_tools.constants import Tag
    from psd_tools.psd import layer_and_mask as LM, tagged_blocks as TB
    classes = [TB.TaggedBlock, TB.TaggedBlocks, LM.LayerRecord, LM.LayerFlags]
    for key in ("UNICODE_LAYER_NAME", "SECTION_DIVIDER_SETTING", "NESTED_SECTION_DIVIDER_SETTING", "PROTECTED_SETTING"):
        kls = TB.TYPES.get(getattr(Tag, key))
        if kls is not None and kls not in classes:
            classes.append(kls)
    caches, other, consulted = [], [], {}
    for kls in classes:
        todo, seen, reads, stores = ["write"], set(), set(), set()
        while todo:
            m = todo.pop()
            if m in seen:
                continue
            seen.add(m)
            f = None
            for c in kls.__mro__:
                if m in c.__dict__:
                    f = c.__dict__[m]
                    break
            f = getattr(f, "__func__", f)
            if isinstance(f, property):
                f = f.fget
            if f is None or not callable(f):
                continue
            try:
                fn = ast.parse(textwrap.dedent(inspect.getsource(f))).body[0]
            except Exception as e:  # noqa
                other.append("%s.%s: source not readable (%s)" % (kls.__name__, m, type(e).__name__))
                continue
            for d in getattr(fn, "decorator_list", []):
                if re.search(r"cache|memo", ast.unparse(d)):
                    other.append("%s.%s is decorated with %s" % (kls.__name__, m, ast.unparse(d)))
            selfname = fn.args.args[0].arg if fn.args.args else "self"
            for n in ast.walk(fn):
                if isinstance(n, ast.Attribute) and isinstance(n.value, ast.Name) and n.value.id == selfname:
                    (stores if isinstance(n.ctx, ast.Store) else reads).add(n.attr)
                    if callable(getattr(kls, n.attr, None)) or isinstance(getattr(kls, n.attr, None), property):
                        todo.append(n.attr)
        fields = {f.name.lstrip("_"): f for f in attr.fields(kls)} if attr.has(kls) else {}
        fields.update({f.name: f for f in attr.fields(kls)} if attr.has(kls) else {})
        consulted[kls.__name__] = sorted(reads | stores)
        for a in sorted(reads | stores):
            f = fields.get(a)
            is_code = a not in fields and hasattr(kls, a) and not a.startswith("__") and (
                callable(getattr(kls, a)) or isinstance(getattr(kls, a), (property, set, frozenset, tuple, dict, bytes, str, int)))
            if a in stores or (f is not None and not f.init) or (f is None and not is_code):
                drop = False
                if attr.has(kls):
                    for g in attr.fields(kls):
                        hook = g.on_setattr
                        hooks = hook if isinstance(hook, (list, tuple)) else [hook] if hook else []
                        for h in hooks:
                            try:
                                if g.name == "data" and re.search(r"\b%s\s*=\s*None" % re.escape(a), inspect.getsource(h)):
                                    drop = True
                            except Exception:  # noqa
                                pass
                caches.append((kls.__name__, a, drop))
    return caches, other, consulted


# ---- the table ---------------------------------------------------------------------------------------
def _layer_classes():
    import psd_tools.api.layers as L
    try:
        import psd_tools.api.adjustments  # noqa: F401  (subclasses register themselves)
    except Exception:  # noqa
        pass
    out, todo = [], [L.Layer]
    while todo:
        c = todo.pop(0)
        if c in out:
            continue
        out.append(c)
        todo += c.__subclasses__()
    return out


def read_table():
    api = _Api()
    classes = [c for c in _layer_classes() if c.__name__ in api.classes]
    live = {c.__name__: c for c in classes}
    caches, wother, consulted = _writer_state()
    cache_attrs = {a for _, a, _ in caches}
    # attributes: properties with a setter in some layer class; methods assigning attribute storage
    attrs, methods = [], []
    for c in classes:
        for name, obj in vars(c).items():
            if name.startswith("_"):
                continue
            if isinstance(obj, property) and obj.fset is not None and name not in attrs:
                attrs.append(name)
    per_class = {}
    for c in classes:
        acc = _Acc(api, live, c.__name__)
        rows = []
        for name in attrs:
            if acc.is_property(name) is None:
                continue
            val = acc.reads(name)
            comps = val[1] if val[0] == "tuple" else [val]
            foot = _locs(val) or [("other", "getter of %s returns no stored value" % name)]
            for j, comp in enumerate(comps):
                rd = _locs(comp) or [("other", "getter of %s returns no stored value" % name)]
                label = name if len(comps) == 1 else "%s.%d" % (name, j)
                rows.append((label, rd, acc.setter_effs(name, rd, None if len(comps) == 1 else j, cache_attrs), foot))
        # methods: public, not a structural mutator, whose flattened body assigns attribute storage (`lock`, `unlock`)
        for mc in acc.mro:
            for (k, name, kind), fn in sorted(api.methods.items(), key=lambda kv: kv[1].lineno):
                if k != mc or kind != "method" or name.startswith("_") or any(r[0] == name for r in rows):
                    continue
                if acc.resolve(name, "method") != mc or len(fn.args.args) > 2 or fn.args.vararg or fn.args.kwarg or fn.args.kwonlyargs:
                    continue
                srcf = ast.unparse(fn)
                if re.search(r"_layers|_parent|_channels|yield", srcf):
                    continue
                if any(ast.unparse(d) in ("classmethod", "staticmethod") for d in fn.decorator_list):
                    continue
                try:
                    effs = acc.method_effs(name, [], cache_attrs)
                except Exception:  # noqa
                    continue
                if not any(e[0] in ("write", "replace") for e in effs):
                    continue
                # its getter: the property of the class that reads what the method assigns the argument to
                target = [(e[1] if e[0] == "write" else ("block", e[1], e[2])) for e in effs
                          if (e[0] == "write" and e[2] == "arg") or (e[0] == "replace" and e[3] == "arg")]
                rd = None
                for (k2, pname, kind2) in sorted(api.methods):
                    if kind2 == "getter" and k2 in acc.mro and not pname.startswith("_") and acc.is_property(pname) == k2:
                        try:
                            cand = _locs(acc.reads(pname))
                        except Exception:  # noqa
                            continue
                        if cand and cand[0] in target:
                            rd = cand
                            break
                if rd is None:
                    rd = [("other", "no property of the class reads what %s() assigns" % name)]
                rows.append((name, rd, acc.method_effs(name, rd, cache_attrs), rd))
        per_class[c.__name__] = rows
    # classes with identical rows share one representative (the first in reflection order)
    reps, class_map = [], []
    for c in classes:
        key = repr(per_class[c.__name__])
        for r in reps:
            if repr(per_class[r]) == key:
                class_map.append((c.__name__, r))
                break
        else:
            reps.append(c.__name__)
            class_map.append((c.__name__, c.__name__))
    rows = [(a, r, rd, effs, foot) for r in reps for a, rd, effs, foot in per_class[r]]
    return {"rows": rows, "classes": class_map, "caches": caches, "writer_other": wother, "consulted": consulted}


def _lean_loc(l):
    if l[0] == "field":
        return "(.field %s)" % _lstr(l[1])
    if l[0] == "elem":
        return "(.elem %s %s)" % (_lstr(l[1]), _lstr(l[2]))
    if l[0] == "block":
        return "(.block %s %s)" % (_lstr(l[1]), _lstr(l[2]))
    if l[0] == "derived":
        return "(.derived %s)" % _lstr(l[1])
    return "(.other %s)" % _lstr(str(l[1]))


def _lean_guard(g):
    text, kind, neg = g
    k = ".free" if kind == "opaque" else ".stored" if kind == "stored" else "(.present %s)" % _lstr(kind.split(":", 1)[1])
    return "⟨%s, %s, %s⟩" % (_lstr(text), k, "true" if neg else "false")


def _lean_eff(e):
    gs = lambda xs: "[" + ", ".join(_lean_guard(g) for g in xs) + "]"
    ss = lambda xs: "[" + ", ".join(_lstr(x) for x in xs) + "]"
    if e[0] == "refuse":
        return ".refuse %s %s" % (_lstr(e[1]), gs(e[2]))
    if e[0] == "ret":
        return ".ret %s" % gs(e[1])
    if e[0] == "write":
        return ".write %s .%s %s %s" % (_lean_loc(e[1]), e[2], gs(e[3]), ss(e[4]))
    if e[0] == "replace":
        return ".replace %s %s .%s %s %s" % (_lstr(e[1]), _lstr(e[2]), e[3], gs(e[4]), ss(e[5]))
    if e[0] == "invalidate":
        return ".invalidate %s %s" % (_lstr(e[1]), gs(e[2]))
    if e[0] == "call":
        return ".call %s %s" % (_lstr(e[1]), gs(e[2]))
    return ".other %s" % _lstr(str(e[1]))


def gen_attr_table(ctx):
    try:
        info = read_table()
    except Exception as e:  # noqa: a source the reader cannot digest is a broken tie, never an infrastructure error
        info = {"rows": [("<extractor>", "<extractor>", [("other", "unread")],
                          [("other", "extract_c16.read_table failed: %s: %s" % (type(e).__name__, e))], [("other", "unread")])],
                "classes": [], "caches": [], "writer_other": ["extract_c16.read_table failed"], "consulted": {}}
        ctx.notes.append("extract_c16.read_table could not read the current source (%s: %s): sentinel table written"
                         % (type(e).__name__, str(e)[:200]))
    rows = ",\n".join("    ⟨%s, %s, [%s], [%s],\n      [%s]⟩" % (
        _lstr(a), _lstr(c), ", ".join(_lean_loc(l) for l in rd), ", ".join(_lean_loc(l) for l in foot),
        ",\n       ".join(_lean_eff(e) for e in effs))
        for a, c, rd, effs, foot in info["rows"])
    caches = ", ".join("⟨%s, %s, %s⟩" % (_lstr(o), _lstr(a), "true" if d else "false") for o, a, d in info["caches"])
    src = f"""import PsdVerif.Model.AttrTable
namespace PsdVerif.Generated.AttrTable
open PsdVerif.AttrTable

/-- Every public attribute of every layer class (see harness/extract_c16.py, part 2): the getter's read path and the
    setter's effects, delegated setters resolved through the MRO of the row's class and inlined; what the writers
    consult besides the current field values. -/
def table : Table :=
  {{ rows := [
{rows}],
    caches := [{caches}],
    writerOther := [{", ".join(_lstr(x) for x in info["writer_other"])}] }}

/-- every layer class of the API and the class whose rows stand for it (identical rows are emitted once) -/
def classes : List (String × String) := [{", ".join("(%s, %s)" % (_lstr(a), _lstr(b)) for a, b in info["classes"])}]

/-- attributes of self read or assigned in the write path of each writer class -/
def writerConsults : List (String × List String) := [{", ".join("(%s, [%s])" % (_lstr(k), ", ".join(_lstr(x) for x in v)) for k, v in info["consulted"].items())}]

end PsdVerif.Generated.AttrTable
"""
    ctx.write_generated("AttrTable", src)
    return {"rows": len(info["rows"]), "classes": len(info["classes"]),
            "representatives": sorted({b for _, b in info["classes"]}),
            "caches": info["caches"], "writer_other": info["writer_other"]}
