"""C16: tables of the source the attribute model depends on -> Generated/Attr.lean.

Read from the live modules of the working tree on every run: the `BlendMode` enum
(the blend-mode theorems quantify over this list), the tagged-block keys and enum
values the model names, and the upper half of Python's MacRoman codec (the `name`
setter's test `value.encode("macroman")`).
"""
from __future__ import annotations

from core import Infra


def _bytes(b: bytes) -> str:
    return "[" + ", ".join(str(x) for x in b) + "]"


def tables():
    from psd_tools.constants import BlendMode, Tag, Clipping, SectionDivider, ProtectedFlags
    blend = [(m.name, bytes(m.value)) for m in BlendMode]
    if not all(len(v) == 4 for _, v in blend):
        raise Infra("BlendMode: a key is not 4 bytes long")
    high = [ord(c) for c in bytes(range(128, 256)).decode("macroman")]
    low_ok = bytes(range(128)).decode("macroman") == "".join(map(chr, range(128)))
    if not low_ok:
        raise Infra("macroman: the lower half is not ASCII")
    return {
        "blend": blend,
        "macHigh": high,
        "tags": {k: bytes(getattr(Tag, k).value) for k in
                 ("UNICODE_LAYER_NAME", "SECTION_DIVIDER_SETTING", "NESTED_SECTION_DIVIDER_SETTING", "PROTECTED_SETTING")},
        "clipping": {m.name: int(m.value) for m in Clipping},
        "divider": {m.name: int(m.value) for m in SectionDivider},
        "protected": {m.name: int(m.value) for m in ProtectedFlags},
    }


def record_defaults():
    """How every attrs field of the classes in psd/layer_and_mask.py gets its default: `factory` (a new object per
    instance), `immutable` (a value that cannot be mutated), `required`, or `shared` (ONE mutable object, created with
    the class, for every instance built without that argument). The cross-layer frame theorem needs: no `shared`."""
    import enum
    import inspect
    import attr
    import psd_tools.psd.layer_and_mask as M
    out = []
    for cname, cls in sorted(vars(M).items()):
        if not (inspect.isclass(cls) and attr.has(cls) and cls.__module__ == M.__name__):
            continue
        for f in attr.fields(cls):
            d = f.default
            if d is attr.NOTHING:
                how = "required"
            elif isinstance(d, attr.Factory):
                how = "factory"
            elif d is None or isinstance(d, (bool, int, float, str, bytes, tuple, frozenset, enum.Enum)):
                how = "immutable"
            else:
                how = "shared"
            out.append((f"{cname}.{f.name}", how))
    return out


def gen_attr(ctx):
    t = tables()
    try:
        t["defaults"] = record_defaults()
        if not any(n == "LayerRecord.flags" for n, _ in t["defaults"]):
            ctx.notes.append("extract_c16: LayerRecord.flags not found among the attrs fields of psd/layer_and_mask.py")
            t["defaults"].append(("LayerRecord.flags", "missing"))
    except Exception as e:  # noqa - a change of the source: the tying theorem fails, the run goes on
        ctx.notes.append(f"extract_c16: attrs fields of psd/layer_and_mask.py cannot be read ({type(e).__name__}: {e})")
        t["defaults"] = [("LayerRecord.flags", "missing")]
    L = ["namespace PsdVerif.Generated.Attr", ""]
    L.append("/-- `constants.BlendMode`: (member name, 4-byte key) in definition order -/")
    L.append("def blendModes : List (String × List UInt8) := [")
    L.append(",\n".join(f'  ("{n}", {_bytes(v)})' for n, v in t["blend"]))
    L.append("]")
    L.append("def blendKeys : List (List UInt8) := blendModes.map (·.2)")
    L.append("")
    L.append("/-- code points of the bytes 0x80..0xFF in Python's `mac_roman` codec -/")
    L.append("def macRomanHigh : List Nat := [" + ", ".join(map(str, t["macHigh"])) + "]")
    L.append("")
    names = {"UNICODE_LAYER_NAME": "tagLuni", "SECTION_DIVIDER_SETTING": "tagLsct",
             "NESTED_SECTION_DIVIDER_SETTING": "tagLsdk", "PROTECTED_SETTING": "tagLspf"}
    for k, nm in names.items():
        L.append(f"/-- `Tag.{k}` -/\ndef {nm} : List UInt8 := {_bytes(t['tags'][k])}")
    L.append(f"def clippingBase : Nat := {t['clipping']['BASE']}")
    L.append(f"def clippingNonBase : Nat := {t['clipping']['NON_BASE']}")
    L.append("def clippingValues : List Nat := [" + ", ".join(str(v) for v in t["clipping"].values()) + "]")
    L.append(f"def dividerOpen : Nat := {t['divider']['OPEN_FOLDER']}")
    L.append(f"def dividerClosed : Nat := {t['divider']['CLOSED_FOLDER']}")
    L.append("def dividerValues : List Nat := [" + ", ".join(str(v) for v in t["divider"].values()) + "]")
    L.append("/-- `ProtectedFlags` -/")
    L.append("def protectedFlags : List (String × Nat) := ["
             + ", ".join(f'("{n}", {v})' for n, v in t["protected"].items()) + "]")
    L.append("")
    L.append("/-- attrs fields of psd/layer_and_mask.py: where the default value comes from -/")
    L.append("def recordDefaults : List (String × String) := [")
    L.append(",\n".join(f'  ("{n}", "{h}")' for n, h in t["defaults"]))
    L.append("]")
    L.append("")
    L.append("end PsdVerif.Generated.Attr")
    ctx.write_generated("Attr", "\n".join(L) + "\n")
    return {"blend_modes": len(t["blend"]), "protected_flags": t["protected"],
            "record_defaults": {h: sum(1 for _, x in t["defaults"] if x == h) for h in sorted({x for _, x in t["defaults"]})}}
