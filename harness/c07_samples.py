"""C07, the sample arithmetic: correspondence of the concrete model (Model/PixelSamples.lean, run through the
driver commands `pxs.*`) with the real functions and the real pipeline, exact, and the search matrix over source
modes x document modes x depths x PSD/PSB x compression with an oracle that does not use the model.

Called from props/C07.py (`run_samples(ctx, helpers)`); `replay_case` re-runs one failing input.
"""
from __future__ import annotations

import io
import warnings

import numpy as np
from PIL import Image, ImageChops

import core
import pixels_common as pc
from core import err_class

warnings.filterwarnings("ignore", message="Palette images with Transparency", category=UserWarning)

DEPTHS = [8, 16, 32]
CORE_MODES = ["L", "LA", "RGB", "RGBA", "CMYK", "1"]
DOC_MODES = ["L", "LA", "RGB", "RGBA", "CMYK", "CMYKA"]
DOC_CH = {"L": 1, "LA": 2, "RGB": 3, "RGBA": 4, "CMYK": 4, "CMYKA": 5}
CMODE_OF = {"L": "GRAYSCALE", "LA": "GRAYSCALE", "RGB": "RGB", "RGBA": "RGB", "CMYK": "CMYK", "CMYKA": "CMYK"}
NCOL = {"L": 1, "LA": 1, "RGB": 3, "RGBA": 3, "CMYK": 4}
# every kind of source the search imports: the six modes of the model, palette images (without / with the two forms
# of palette transparency / with an alpha band), the other 8-bit colour spaces PIL has, key-colour transparency on L and
# RGB, the integer / float modes, the premultiplied modes
SOURCE_KINDS = CORE_MODES + ["P", "P+tbytes", "P+tindex", "PA", "LAB", "YCbCr", "HSV", "RGBX", "L+t", "RGB+t",
                             "I", "F", "I;16", "La", "RGBa"]
KNOWN_CMYK_LAYER = "C07/pil-numpy/layer/CMYK/numpy-not-inverted"
KNOWN_CMYK_DOC = "C07/pil-numpy/doc/CMYK/numpy-not-inverted"


def _call(f, *a, **k):
    try:
        return ("ok", f(*a, **k))
    except Exception as e:  # noqa
        return ("err", err_class(e), str(e)[:120])


def bits_of(a: np.ndarray) -> np.ndarray:
    return np.ascontiguousarray(a, dtype="<f4").view("<u4")


# ---------------------------------------------------------------------------------------------
# images holding every sample value
def perms_for(rng, n):
    """n (multiplier, offset) pairs: band k is v -> (v * m + c) % 256, a permutation of 0..255 (m odd)"""
    return [(rng.randrange(256) | 1, rng.randrange(256)) for _ in range(n)]


def perm_band(m, c):
    return ((np.arange(256, dtype=np.int64) * m + c) % 256).astype(np.uint8).reshape(16, 16)


def make_source(kind: str, perms) -> Image.Image:
    """a 16 x 16 image of the given kind; every band holds all 256 values (bitmaps: both), bands permuted differently so
    that every colour value meets many alpha values"""
    b = [perm_band(m, c) for m, c in perms]
    L = lambda k: Image.fromarray(b[k], "L")  # noqa: E731
    if kind == "1":
        return Image.fromarray(np.where(b[0] > 127, 255, 0).astype(np.uint8), "L").convert("1")
    if kind == "L":
        return L(0)
    if kind in ("LA", "RGB", "RGBA", "CMYK", "LAB", "YCbCr", "HSV", "RGBX"):
        return Image.merge(kind, [L(k) for k in range(len(kind) if kind not in ("YCbCr",) else 3)])
    if kind.startswith("P"):
        im = Image.fromarray(b[0], "P")
        pal = np.stack([b[1].reshape(-1), b[2].reshape(-1), b[3].reshape(-1)], axis=1).reshape(-1)
        im.putpalette([int(x) for x in pal])
        if kind == "P+tbytes":
            im.info["transparency"] = bytes(int(x) for x in perm_band(*perms[3]).reshape(-1))
        elif kind == "P+tindex":
            im.info["transparency"] = int(perms[3][1])
        elif kind == "PA":
            im = Image.merge("PA", [im, L(3)]) if hasattr(Image, "merge") else im
        return im
    if kind == "L+t":
        im = L(0)
        im.info["transparency"] = int(perms[1][1])
        return im
    if kind == "RGB+t":
        im = Image.merge("RGB", [L(0), L(1), L(2)])
        px = im.getpixel((int(perms[3][1]) % 16, int(perms[3][0]) % 16))
        im.info["transparency"] = tuple(px)
        return im
    if kind in ("I", "F", "I;16"):
        return L(0).convert(kind)
    if kind == "La":
        return Image.merge("LA", [L(0), L(1)]).convert("La")
    if kind == "RGBa":
        return Image.merge("RGBA", [L(0), L(1), L(2), L(3)]).convert("RGBa")
    raise ValueError(kind)


def model_bands(img: Image.Image):
    """the bands of a six-mode image as the model takes them (bitmap: 0 / 1 samples)"""
    if img.mode == "1":
        return [(np.asarray(img.convert("L")) // 255).astype(np.uint8)]
    return [np.asarray(x, dtype=np.uint8) for x in img.split()]


def hexbands(bs):
    return ";".join(bytes(np.ascontiguousarray(x, dtype=np.uint8).reshape(-1)).hex() or "-" for x in bs)


def unhexbands(s):
    return [np.frombuffer(bytes.fromhex(x), np.uint8) for x in s.split(";")] if s not in ("", "-") else []


def new_doc(mode, size, depth):
    from psd_tools import PSDImage
    return PSDImage.new(mode, size, depth=depth)


# ---------------------------------------------------------------------------------------------
# 1. the functions, code by code
def check_functions(ctx):
    from psd_tools.api import numpy_io, pil_io
    drv = ctx.driver()
    rng = ctx.rng
    create = getattr(pil_io, "_create_image", None)
    parse = getattr(numpy_io, "_parse_array", None)
    if create is None or parse is None:
        ctx.disagree("pil_io._create_image / numpy_io._parse_array no longer exist: the sample model has nothing to correspond to",
                     {"create_image": create is not None, "parse_array": parse is not None})
        return
    # the codes: every byte, every 16-bit code, the codes of the 256 imported samples and seeded binary32 patterns
    tables = {d: a for d, a in zip(DEPTHS, drv.batch([("pxs.table", d) for d in DEPTHS]))}
    for d in DEPTHS:
        if tables[d][0] != "ok":
            raise core.Infra(f"driver: pxs.table {d} answers {tables[d]}")
    stored32 = [int(x) for x in tables[32][1].split(",")]
    special = [0, 1, 0x80000000, 0x3F800000, 0x3F7FFFFF, 0x3F800001, 0x437F0000, 0x3B800000, 0x3B7FFFFF, 0x3B808081,
               0x7F800000, 0xFF800000, 0x7FC00000, 0xFFFFFFFF, 0x7F7FFFFF, 0x00800000, 0x007FFFFF, 0xBF800000]
    n32 = 2048 if ctx.quick else 60000
    rnd32 = [rng.getrandbits(32) for _ in range(n32 // 2)] + \
            [0x3B000000 + rng.getrandbits(26) % (0x3F900000 - 0x3B000000) for _ in range(n32 // 2)]   # around [1/512, 1.1]
    codes = {8: list(range(256)), 16: list(range(65536)), 32: stored32 + special + rnd32}
    pad = {8: (16, 16), 16: (256, 256)}
    for d in DEPTHS:
        cs = codes[d]
        if d == 32:
            w = 64
            cs = cs + [0] * ((-len(cs)) % w)
            size = (w, len(cs) // w)
        else:
            size = pad[d]
        data = np.array(cs, dtype={8: ">u1", 16: ">u2", 32: ">u4"}[d]).tobytes()
        got_pil = _call(lambda: np.asarray(create(size, data, d)).reshape(-1))
        got_np = _call(lambda: bits_of(parse(data, d)).reshape(-1))
        arg = ",".join(map(str, cs))
        m_pil, m_np = drv.batch([("pxs.pil", d, arg), ("pxs.np", d, arg)])
        ctx.corr_cases += 2
        ctx.count(("samples-fn", "pil", d), n=1)
        ctx.count(("samples-fn", "numpy", d), n=1)
        ctx.hist("sample_codes", f"depth{d}", len(cs))
        if got_pil[0] != "ok" or m_pil[0] != "ok":
            ctx.disagree(f"samples: _create_image at depth {d} fails or the model does", {"depth": d, "impl": got_pil[1:], "model": m_pil[:1]})
        else:
            mp = m_pil[1].split(",")
            bad = [i for i, (g, m) in enumerate(zip(got_pil[1], mp)) if m == "x" or int(m) != int(g)]
            if bad:
                i = bad[0]
                ctx.disagree(f"samples: _create_image differs from pilLoad at depth {d} on {len(bad)} codes",
                             {"depth": d, "code": cs[i], "impl": int(got_pil[1][i]), "model": mp[i]})
        if got_np[0] != "ok" or m_np[0] != "ok":
            ctx.disagree(f"samples: _parse_array at depth {d} fails or the model does", {"depth": d, "impl": got_np[1:], "model": m_np[:1]})
        else:
            mn = m_np[1].split(",")
            nan = lambda x: (x & 0x7F800000) == 0x7F800000 and (x & 0x7FFFFF) != 0  # noqa: E731
            bad = [i for i, (g, m) in enumerate(zip(got_np[1], mn)) if m == "x" or (int(m) != int(g) and not (nan(int(m)) and nan(int(g))))]
            if bad:
                i = bad[0]
                ctx.disagree(f"samples: _parse_array differs from npLoad at depth {d} on {len(bad)} codes (float32 bits)",
                             {"depth": d, "code": cs[i], "impl": int(got_np[1][i]), "model": mn[i]})
    # ImageChops.invert
    v = np.arange(256, dtype=np.uint8).reshape(16, 16)
    inv = np.asarray(ImageChops.invert(Image.fromarray(v, "L"))).reshape(-1)
    m_inv = drv.batch([("pxs.inv",)])[0]
    ctx.corr_cases += 1
    if m_inv[0] != "ok" or [int(x) for x in m_inv[1].split(",")] != inv.tolist():
        ctx.disagree("samples: ImageChops.invert differs from inv8", {})
    # _remove_white_background on every (x, a)
    um = getattr(pil_io, "_remove_white_background", None)
    m_um = drv.batch([("pxs.unmatte",)])[0]
    ctx.corr_cases += 1
    if um is None:
        ctx.disagree("pil_io._remove_white_background no longer exists", {})
    elif m_um[0] != "ok":
        raise core.Infra("driver: pxs.unmatte fails")
    else:
        xs, as_ = np.divmod(np.arange(65536), 256)
        x8 = xs.astype(np.uint8).reshape(256, 256)
        a8 = as_.astype(np.uint8).reshape(256, 256)
        rgba = Image.merge("RGBA", [Image.fromarray(x8, "L")] * 3 + [Image.fromarray(a8, "L")])
        got = _call(lambda: np.asarray(um(rgba))[:, :, 0].reshape(-1))
        t_float = np.frombuffer(bytes.fromhex(m_um[1]), np.uint8)
        t_int = np.frombuffer(bytes.fromhex(m_um[2]), np.uint8)
        if not np.array_equal(t_float, t_int):
            i = int(np.nonzero(t_float != t_int)[0][0])
            ctx.disagree("samples: the float32 model of the matte removal (unmattePil) differs from its integer form (unmatte8)",
                         {"x": i // 256, "a": i % 256, "float": int(t_float[i]), "int": int(t_int[i])})
        if got[0] != "ok" or not np.array_equal(got[1], t_int):
            i = int(np.nonzero(got[1] != t_int)[0][0]) if got[0] == "ok" else -1
            ctx.disagree("samples: _remove_white_background differs from unmatte8",
                         {"x": i // 256, "a": i % 256, "impl": int(got[1][i]) if got[0] == "ok" else got[1:], "model": int(t_int[i]) if i >= 0 else None})
        ctx.hist("sample_codes", "unmatte pairs", 65536)
    # Image.convert, pixel by pixel
    reqs, cases = [], []
    for s in CORE_MODES:
        for t in ["L", "LA", "RGB", "RGBA", "CMYK"]:
            seed = rng.randrange(1 << 30)
            g = np.random.default_rng(seed)
            w, h = 48, 32
            if s == "1":
                im = Image.fromarray((g.integers(0, 2, (h, w)) * 255).astype(np.uint8), "L").convert("1")
            else:
                a = g.integers(0, 256, (h, w, pc.NBANDS[s]), dtype=np.uint8)
                flat = a.reshape(-1, pc.NBANDS[s])
                flat[:8] = np.array([0, 255, 1, 254, 128, 127, 0, 255], np.uint8)[:, None]
                flat[8:16] = np.array([0, 255, 1, 254, 128, 127, 0, 255], np.uint8)[:, None] * np.array(
                    [1, 0, 1, 0][:pc.NBANDS[s]], np.uint8)[None, :]
                im = Image.fromarray(a if pc.NBANDS[s] > 1 else a[:, :, 0], s)
            reqs.append(("pxs.conv", s, t, w, h, hexbands(model_bands(im))))
            cases.append((s, t, im, seed))
    for (s, t, im, seed), a in zip(cases, drv.batch(reqs)):
        ctx.corr_cases += 1
        ctx.count(("samples-conv", s, t))
        want = _call(lambda: hexbands(model_bands(im.convert(t))))
        if a[0] != "ok" or want[0] != "ok" or a[1] != want[1]:
            ctx.disagree(f"samples: Image.convert {s} -> {t} differs from convPixel", {"src": s, "dst": t, "seed": seed})
    # palette images: the colour of `convert(dst)` and the alpha of `convert("RGBA")` for every palette index
    reqs, cases = [], []
    for tr_kind in ("-", "i", "t", "tshort"):
        for t in ["L", "RGB", "RGBA", "CMYK"]:
            pal = bytes(rng.randrange(256) for _ in range(768))
            im = Image.fromarray(np.arange(256, dtype=np.uint8).reshape(16, 16), "P")
            im.putpalette(list(pal))
            if tr_kind == "i":
                k = rng.randrange(256)
                im.info["transparency"] = k
                tr = f"i{k}"
            elif tr_kind in ("t", "tshort"):
                tb = bytes(rng.randrange(256) for _ in range(256 if tr_kind == "t" else rng.randrange(1, 200)))
                im.info["transparency"] = tb
                tr = "t" + tb.hex()
            else:
                tr = "-"
            reqs.append(("pxs.pconv", t, pal.hex(), tr))
            cases.append((t, tr_kind, im))
    for (t, tr_kind, im), a in zip(cases, drv.batch(reqs)):
        ctx.corr_cases += 1
        ctx.count(("samples-palette", t, tr_kind))
        conv = _call(lambda: np.asarray(im.convert(t)).reshape(256, -1)[:, :NCOL[t]])
        alpha = _call(lambda: np.asarray(im.convert("RGBA").getchannel("A")).reshape(-1) if im.has_transparency_data
                      else np.full(256, 255, np.uint8))
        if a[0] != "ok" or conv[0] != "ok" or alpha[0] != "ok":
            ctx.disagree("samples: palette conversion fails or the model does", {"dst": t, "transparency": tr_kind})
            continue
        mpx = [bytes.fromhex(x)[:NCOL[t]] if x != "x" else None for x in a[1].split(";")]
        if any(m is None or bytes(int(v) for v in c) != m for m, c in zip(mpx, conv[1])):
            ctx.disagree(f"samples: P -> {t} differs from convPalettePixel", {"dst": t, "transparency": tr_kind})
        if bytes.fromhex(a[2]) != bytes(alpha[1].tolist()):
            ctx.disagree("samples: the alpha of a palette image differs from pAlpha", {"dst": t, "transparency": tr_kind})
    return tables


# ---------------------------------------------------------------------------------------------
# 2. the pipeline on images holding every sample value: the concrete model run vs the real run, exact
def run_layer(img, docmode, depth, comp, top, left, canvas=None, **_k):
    """the real pipeline; returns the reopened document, its layer, the canvas size"""
    from psd_tools.api.layers import PixelLayer
    w, h = img.size
    W, H = canvas or (w + 4, h + 4)
    psd = new_doc(docmode, (W, H), depth)
    psd.append(PixelLayer.frompil(img, psd, "imported", top, left, comp))
    return psd


def check_concrete(ctx):
    from psd_tools import PSDImage
    from psd_tools.constants import ChannelID, Compression
    drv = ctx.driver()
    rng = ctx.rng
    comps = list(Compression)
    # ---- layers: source mode x document mode x depth
    reqs, cases = [], []
    for s in CORE_MODES:
        for dm in DOC_MODES:
            for d in DEPTHS:
                perms = perms_for(rng, 4)
                comp = rng.choice(comps)
                top, left = rng.choice([(1, 2), (0, 0), (-3, 5), (2, -7)])
                img = make_source(s, perms)
                case = {"kind": "sample-layer", "src": s, "doc": dm, "depth": d, "perms": perms, "compression": int(comp),
                        "top": top, "left": left}
                reqs.append(("pxs.layer", s, CMODE_OF[dm], DOC_CH[dm], d, top, left, 16, 16, hexbands(model_bands(img))))
                cases.append((case, img, comp))
    answers = drv.batch(reqs)
    for (case, img, comp), m in zip(cases, answers):
        ctx.corr_cases += 1
        ctx.count(("samples-layer", case["src"], case["doc"], case["depth"]))
        ctx.hist("samples_layer", f"{case['doc']}/{case['depth']}")
        _guard(ctx, case, compare_layer, ctx, case, img, comp, m)
    ctx.sample({"samples_layer": cases[0][0], "model": [x[:60] for x in answers[0]]})
    # ---- documents: source mode (frompil always makes an 8-bit document)
    reqs, cases = [], []
    for s in CORE_MODES:
        for comp in (comps if not ctx.quick else [rng.choice(comps)]):
            perms = perms_for(rng, 4)
            img = make_source(s, perms)
            cases.append(({"kind": "sample-doc", "src": s, "perms": perms, "compression": int(comp)}, img, comp))
            reqs.append(("pxs.doc", s, 16, 16, hexbands(model_bands(img))))
    # every (colour, alpha) pair of an RGBA document: the matte removal of both exports on all 65536 pairs
    xs, as_ = np.divmod(np.arange(65536), 256)
    x8, a8 = xs.astype(np.uint8).reshape(256, 256), as_.astype(np.uint8).reshape(256, 256)
    allpairs = Image.merge("RGBA", [Image.fromarray(x8, "L"), Image.fromarray(x8[::-1].copy(), "L"),
                                    Image.fromarray(np.ascontiguousarray(x8.T), "L"), Image.fromarray(a8, "L")])
    cases.append(({"kind": "sample-doc", "src": "RGBA", "perms": "all-pairs", "compression": 0}, allpairs, Compression.RAW))
    reqs.append(("pxs.doc", "RGBA", 256, 256, hexbands(model_bands(allpairs))))
    answers = drv.batch(reqs)
    for (case, img, comp), m in zip(cases, answers):
        ctx.corr_cases += 1
        ctx.count(("samples-doc", case["src"], int(comp), str(case["perms"])[:20]))
        ctx.hist("samples_doc", case["src"])
        _guard(ctx, case, compare_doc, ctx, case, img, comp, m)


def check_doc_depths(ctx, tables, meta_of):
    """the exports of DOCUMENTS at every depth (frompil only makes 8-bit documents): a document made with PSDImage.new at
    depth 8 / 16 / 32 receives, as its merged image, the planes the import arithmetic makes of bands holding every sample
    value (the model's `storeBytes`), is saved, reopened and exported; model: the routes of the metadata applied with the
    concrete arithmetic (`pxs.docexport`)."""
    from psd_tools.constants import Compression
    rng = ctx.rng
    drv = ctx.driver()
    enc = {}
    for d in DEPTHS:
        raw = bytes.fromhex(tables[d][2])
        n = len(raw) // 256
        enc[d] = [raw[i * n:(i + 1) * n] for i in range(256)]
    reqs, cases = [], []
    for dm in DOC_MODES:
        for d in DEPTHS:
            perms = perms_for(rng, DOC_CH[dm])
            comp = rng.choice(list(Compression))
            planes = [b"".join(enc[d][int(v)] for v in perm_band(m, c).reshape(-1)) for m, c in perms]
            case = {"kind": "sample-docdepth", "doc": dm, "depth": d, "perms": perms, "compression": int(comp)}

            def build(dm=dm, d=d, planes=planes, comp=comp):
                psd = new_doc(dm, (16, 16), d)
                psd._record.image_data.compression = comp
                psd._record.image_data.set_data(planes, psd._record.header)
                return pc.save_reopen(psd)[0]
            r = _call(build)
            if r[0] == "err":
                ctx.disagree(f"samples/docdepth: building a {dm} document at depth {d} raises {r[1]}", {**case, "error": r[1:]})
                continue
            psd = r[1]
            mt, ids, lc, vi = meta_of(psd)
            reqs.append(("pxs.docexport", CMODE_OF[dm], psd.channels, d, 16, 16, "1" if mt else "0", ",".join(map(str, ids)) or "-", lc, vi,
                         ";".join(p.hex() for p in planes)))
            cases.append((case, psd))
    for (case, psd), m in zip(cases, drv.batch(reqs)):
        ctx.corr_cases += 1
        ctx.count(("samples-docdepth", case["doc"], case["depth"]))
        ctx.hist("samples_docdepth", f"{case['doc']}/{case['depth']}")
        _guard(ctx, case, compare_exports, ctx, case, psd, m, "samples/docdepth")


def compare_exports(ctx, case, psd, m, label):
    if m[0] != "ok":
        ctx.disagree(f"{label}: model answers " + "/".join(m)[:80], case)
        return
    m_pil, m_np = m[1:3]
    out = _call(lambda: psd.topil(apply_icc=False))
    if out[0] != "ok" or out[1] is None or ":" not in m_pil:
        if not (out[0] == "err" and m_pil.startswith("!")) and not (out[0] == "ok" and out[1] is None and m_pil == "none"):
            ctx.disagree(f"{label}: topil() fails or the model does", {**case, "impl": out[1:] if out[0] == "err" else None, "model": m_pil[:20]})
    else:
        mm, mb = m_pil.split(":")
        g = hexbands(pc.bands_u8(out[1]))
        if out[1].mode != mm or g != mb:
            ctx.disagree(f"{label}: topil() differs from the model (exact)", {**case, "impl_mode": out[1].mode, "model_mode": mm,
                                                                              "where": first_diff(g, mb, 1)})
    arr = _call(lambda: psd.numpy())
    if arr[0] != "ok" or m_np.startswith("!"):
        ctx.disagree(f"{label}: numpy() fails or the model does", {**case, "impl": arr[1:] if arr[0] == "err" else None})
        return
    a = arr[1]
    exp = [np.array([int(x) for x in ch.split(",")], dtype=np.uint32) for ch in m_np.split(";")]
    if a.shape[2] != len(exp):
        ctx.disagree(f"{label}: numpy() channel count differs", {**case, "impl": a.shape[2], "model": len(exp)})
        return
    for k, e in enumerate(exp):
        gb = bits_of(a[:, :, k]).reshape(-1)
        if not np.array_equal(gb, e):
            i = int(np.nonzero(gb != e)[0][0])
            ctx.disagree(f"{label}: numpy() differs from the model (float32 bits)",
                         {**case, "channel": k, "index": i, "impl_bits": int(gb[i]), "model_bits": int(e[i])})
            break


def compare_layer(ctx, case, img, comp, m):
    from psd_tools.constants import ChannelID
    d = case["depth"]
    r = _call(lambda: pc.save_reopen(run_layer(img, case["doc"], d, comp, case["top"], case["left"]))[0])
    if r[0] == "err":
        if m[0] == "ok":
            ctx.disagree(f"samples/layer: the model imports, the implementation raises {r[1]}", {**case, "error": r[1:]})
        return
    psd2 = r[1]
    if m[0] != "ok":
        ctx.disagree("samples/layer: model answers " + "/".join(m)[:80], case)
        return
    if len(psd2) != 1:
        ctx.disagree("samples/layer: the reopened document does not have the one layer", case)
        return
    lay = psd2[0]
    m_pilmode, m_ids, m_box, m_planes, m_pil, m_alpha, m_np = m[1:8]
    if psd2.pil_mode != m_pilmode:
        ctx.disagree("samples/layer: pil_mode differs", {**case, "impl": psd2.pil_mode, "model": m_pilmode})
    ids = ",".join(str(int(ci.id)) for ci in lay._record.channel_info)
    box = ",".join(map(str, (lay.top, lay.left, lay.bottom, lay.right)))
    if ids != m_ids or box != m_box:
        ctx.disagree("samples/layer: channel ids / box differ", {**case, "impl": [ids, box], "model": [m_ids, m_box]})
        return
    got = _call(lambda: ";".join(bytes(c.get_data(16, 16, d, psd2.version)).hex() for c in lay._channels))
    if got[0] != "ok" or got[1] != m_planes:
        which = first_diff(got[1], m_planes, d // 8) if got[0] == "ok" else None
        ctx.disagree("samples/layer: stored bytes differ from the model (plane())", {**case, "where": which, "error": got[1:] if got[0] != "ok" else None})
    out = _call(lambda: lay.topil(apply_icc=False))
    if out[0] != "ok" or out[1] is None or m_pil.startswith("!"):
        if not (out[0] == "err" and m_pil.startswith("!")):
            ctx.disagree("samples/layer: topil() fails or the model does", {**case, "impl": out[1:] if out[0] == "err" else None, "model": m_pil[:20]})
    else:
        mm, mb = m_pil.split(":")
        g = hexbands(pc.bands_u8(out[1]))
        if out[1].mode != mm or g != mb:
            ctx.disagree("samples/layer: topil() differs from the model (exact)", {**case, "impl_mode": out[1].mode, "model_mode": mm,
                                                                                  "where": first_diff(g, mb, 1)})
    al = _call(lambda: lay.topil(ChannelID.TRANSPARENCY_MASK))
    if al[0] == "ok" and al[1] is not None and m_alpha not in ("none",) and not m_alpha.startswith("!"):
        if bytes(np.asarray(al[1]).reshape(-1)).hex() != m_alpha:
            ctx.disagree("samples/layer: topil(TRANSPARENCY_MASK) differs from the model", case)
    else:
        ctx.disagree("samples/layer: transparency export fails or the model does", {**case, "model": m_alpha[:20]})
    arr = _call(lambda: lay.numpy())
    if arr[0] != "ok" or arr[1] is None or m_np.startswith("!"):
        ctx.disagree("samples/layer: numpy() fails or the model does", {**case, "impl": arr[1:] if arr[0] == "err" else None})
    else:
        a = arr[1]
        exp = [np.array([int(x) for x in ch.split(",")], dtype=np.uint32) for ch in m_np.split(";")]
        if a.shape[2] != len(exp):
            ctx.disagree("samples/layer: numpy() channel count differs", {**case, "impl": a.shape[2], "model": len(exp)})
        else:
            for k, e in enumerate(exp):
                gb = bits_of(a[:, :, k]).reshape(-1)
                if not np.array_equal(gb, e):
                    i = int(np.nonzero(gb != e)[0][0])
                    ctx.disagree("samples/layer: numpy() differs from the model (float32 bits)",
                                 {**case, "channel": k, "index": i, "impl_bits": int(gb[i]), "model_bits": int(e[i])})
                    break


def first_diff(a: str, b: str, size: int):
    pa, pb = a.split(";"), b.split(";")
    if len(pa) != len(pb):
        return {"planes": [len(pa), len(pb)]}
    for k, (x, y) in enumerate(zip(pa, pb)):
        if x != y:
            n = 2 * size
            for i in range(0, max(len(x), len(y)), n):
                if x[i:i + n] != y[i:i + n]:
                    return {"plane": k, "sample": i // n, "impl": x[i:i + n], "model": y[i:i + n]}
    return None


def compare_doc(ctx, case, img, comp, m):
    from psd_tools import PSDImage
    r = _call(lambda: pc.save_reopen(PSDImage.frompil(img, compression=comp))[0])
    if r[0] == "err":
        if m[0] == "ok":
            ctx.disagree(f"samples/doc: the model imports, the implementation raises {r[1]}", {**case, "error": r[1:]})
        return
    psd = r[1]
    if m[0] != "ok":
        ctx.disagree("samples/doc: model answers " + "/".join(m)[:80], case)
        return
    m_cmode, m_ch, m_depth, m_planes, m_pil, m_np = m[1:7]
    hdr = psd._record.header
    if hdr.color_mode.name != m_cmode or hdr.channels != int(m_ch) or hdr.depth != int(m_depth):
        ctx.disagree("samples/doc: header differs", {**case, "impl": [hdr.color_mode.name, hdr.channels, hdr.depth],
                                                     "model": [m_cmode, m_ch, m_depth]})
        return
    planes = _call(lambda: ";".join(bytes(p).hex() for p in psd._record.image_data.get_data(hdr)))
    if planes[0] != "ok" or planes[1] != m_planes:
        ctx.disagree("samples/doc: stored bytes differ from the model", {**case, "where": first_diff(planes[1], m_planes, 1) if planes[0] == "ok" else planes[1:]})
    out = _call(lambda: psd.topil(apply_icc=False))
    if out[0] != "ok" or out[1] is None or ":" not in m_pil:
        ctx.disagree("samples/doc: topil() fails or the model does", {**case, "impl": out[1:] if out[0] == "err" else None, "model": m_pil[:20]})
    else:
        mm, mb = m_pil.split(":")
        g = hexbands(pc.bands_u8(out[1]))
        if out[1].mode != mm or g != mb:
            ctx.disagree("samples/doc: topil() differs from the model (exact)", {**case, "impl_mode": out[1].mode, "model_mode": mm,
                                                                                "where": first_diff(g, mb, 1)})
    arr = _call(lambda: psd.numpy())
    if arr[0] != "ok" or m_np.startswith("!"):
        ctx.disagree("samples/doc: numpy() fails or the model does", {**case, "impl": arr[1:] if arr[0] == "err" else None})
    else:
        a = arr[1]
        exp = [np.array([int(x) for x in ch.split(",")], dtype=np.uint32) for ch in m_np.split(";")]
        if a.shape[2] != len(exp):
            ctx.disagree("samples/doc: numpy() channel count differs", {**case, "impl": a.shape[2], "model": len(exp)})
        else:
            for k, e in enumerate(exp):
                gb = bits_of(a[:, :, k]).reshape(-1)
                if not np.array_equal(gb, e):
                    i = int(np.nonzero(gb != e)[0][0])
                    ctx.disagree("samples/doc: numpy() differs from the model (float32 bits)",
                                 {**case, "channel": k, "index": i, "impl_bits": int(gb[i]), "model_bits": int(e[i])})
                    break


# ---------------------------------------------------------------------------------------------
# 3. search: the property on the real pipeline, oracle independent of the model
def search_matrix(ctx, classify_doc):
    from psd_tools.constants import Compression
    rng = ctx.rng
    comps = list(Compression)
    quick = ctx.quick
    matrix = {}
    # ---- layers: every source kind x document mode x depth (PSD), seeded compression / offset
    cases = []
    for s in SOURCE_KINDS:
        for dm in DOC_MODES:
            for d in DEPTHS:
                for comp in (comps if not quick else [rng.choice(comps)]):
                    cases.append(dict(kind="search-layer", src=s, doc=dm, depth=d, perms=perms_for(rng, 4), compression=int(comp),
                                      top=rng.choice([1, 0, -5]), left=rng.choice([2, 0, 9]), psb=False))
    # ---- PSB (a canvas wider than 30000): every document mode x depth x compression, seeded source kind with alpha
    for dm in DOC_MODES:
        for d in DEPTHS:
            for comp in comps:
                for s in ([rng.choice(["RGBA", "LA", "P+tbytes", "L", "CMYK"])] if quick else ["RGBA", "LA", "P+tbytes", "L", "CMYK", "1"]):
                    cases.append(dict(kind="search-layer", src=s, doc=dm, depth=d, perms=perms_for(rng, 4), compression=int(comp),
                                      top=1, left=rng.choice([2, 29990]), psb=True))
    for case in cases:
        ctx.count(("search-layer", case["src"], case["doc"], case["depth"], case["compression"], case["psb"]))
        ctx.hist("search_layer_src", case["src"])
        ctx.hist("search_container", "PSB" if case["psb"] else "PSD")
        res = _guard(ctx, case, search_layer, ctx, case)
        matrix.setdefault(f"{case['src']}->{case['doc']}/{case['depth']}", set()).add(res)
    # ---- documents: every source kind x compression
    for s in SOURCE_KINDS:
        for comp in comps:
            case = dict(kind="search-doc", src=s, perms=perms_for(rng, 4), compression=int(comp))
            ctx.count(("search-doc", s, int(comp)))
            res = _guard(ctx, case, search_doc, ctx, case, classify_doc)
            matrix.setdefault(f"doc {s}", set()).add(res)
    ctx.extra["samples_matrix"] = {k: sorted(v) for k, v in matrix.items() if v != {"exact"}}
    ctx.extra["samples_matrix_exact"] = sum(1 for v in matrix.values() if v == {"exact"})


def _guard(ctx, case, f, *a):
    """an exception while evaluating one case is reported with the case (the source may have changed under the oracle's
    feet); it is never an infrastructure error"""
    try:
        return f(*a)
    except core.Infra:
        raise
    except Exception as e:  # noqa
        ctx.disagree(f"search: evaluating the case raised {type(e).__name__}: {str(e)[:160]}", case)
        return "case raised " + type(e).__name__


def _source_alpha(norm):
    if norm.has_transparency_data:
        return np.asarray(norm.convert("RGBA").getchannel("A"))
    return np.full((norm.height, norm.width), 255, np.uint8)


def search_layer(ctx, case):
    from psd_tools.constants import ChannelID, Compression
    s, dm, d = case["src"], case["doc"], case["depth"]
    tag = f"{s}-into-{dm}/depth{d}" + ("/psb" if case["psb"] else "")
    img = _call(make_source, s, case["perms"])
    if img[0] == "err":
        ctx.hist("search_refused", f"PIL cannot build a {s} image")
        return "not buildable"
    img = img[1]
    comp = Compression(case["compression"])
    canvas = (30001, 20) if case["psb"] else None
    r = _call(lambda: run_layer(img, dm, d, comp, case["top"], case["left"], canvas))
    if r[0] == "err":
        if s in CORE_MODES:
            ctx.fail(f"C07/samples/layer-import/{tag}/import-raises-{r[1]}", f"PixelLayer.frompil raises {r[1]}: {r[2]}", case, r[1:], "a layer")
            return "import raises " + r[1]
        ctx.hist("search_refused", f"{s} into {dm}: {r[1]}")
        return "refused " + r[1]
    psd = r[1]
    pil_mode = psd.pil_mode
    r = _call(lambda: pc.save_reopen(psd)[0])
    if r[0] == "err":
        ctx.fail(f"C07/samples/layer-import/{tag}/save-raises-{r[1]}", f"save()/open() after the import raises {r[1]}: {r[2]}", case, r[1:], "a file")
        return "save raises " + r[1]
    psd2 = r[1]
    if case["psb"] and psd2.version != 2:
        ctx.disagree("search: a canvas wider than 30000 did not make a PSB document", case)
    if len(psd2) != 1:
        ctx.fail(f"C07/samples/layer-import/{tag}/layer-lost", "the reopened document does not have the imported layer", case, len(psd2), 1)
        return "layer lost"
    lay = psd2[0]
    norm = img.convert("L") if img.mode == "1" else img
    oracle = _call(lambda: (norm.convert(pil_mode), _source_alpha(norm)))
    if oracle[0] == "err":
        # PIL itself cannot say what the converted image / its alpha is (e.g. "La" has no conversion to "L"): no expectation
        ctx.hist("search_refused", f"{s} into {dm}: imported, but PIL cannot convert the source ({oracle[1]})")
        return "no oracle"
    want, want_alpha = oracle[1]
    ncol = NCOL[pil_mode]
    want_col = pc.bands_u8(want)[:ncol]
    partial = bool(((want_alpha > 0) & (want_alpha < 255)).any())
    ctx.hist("search_alpha", "partial" if partial else ("binary" if (want_alpha < 255).any() else "opaque"))
    result = "exact"
    w, h = img.size
    if tuple(lay.bbox) != (case["left"], case["top"], case["left"] + w, case["top"] + h):
        ctx.fail(f"C07/samples/layer-import/{tag}/offset-moved", "the layer does not come back at its offset", case, tuple(lay.bbox), None)
        result = "offset moved"
    out = _call(lambda: lay.topil(apply_icc=False))
    al = _call(lambda: lay.topil(ChannelID.TRANSPARENCY_MASK))
    arr = _call(lambda: lay.numpy())
    if out[0] == "err" or out[1] is None:
        ctx.fail(f"C07/samples/layer-export/{tag}/topil-raises-{out[1] if out[0] == 'err' else 'None'}", "layer.topil() fails", case, out[1:], "an image")
        return "export fails"
    gotb = pc.bands_u8(out[1])
    # (a) PIL: colour bands unchanged under every alpha value, alpha unchanged
    if len(gotb) < ncol or any(not np.array_equal(gotb[k], want_col[k]) for k in range(ncol)):
        k = next((k for k in range(min(ncol, len(gotb))) if not np.array_equal(gotb[k], want_col[k])), 0)
        where = np.argwhere(gotb[k] != want_col[k])[0] if len(gotb) > k else (0, 0)
        y, x = int(where[0]), int(where[1])
        only_partial = len(gotb) >= ncol and all(
            np.array_equal(gotb[j][(want_alpha == 0) | (want_alpha == 255)], want_col[j][(want_alpha == 0) | (want_alpha == 255)]) for j in range(ncol))
        kind = "colour-differs-where-alpha-partial" if (partial and only_partial) else "colour-differs"
        ctx.fail(f"C07/samples/layer-import/{tag}/{kind}",
                 f"colour band {k} of layer.topil() is not that of img.convert({pil_mode}) ({kind})", case,
                 {"pixel": (x, y), "got": int(gotb[k][y, x]) if len(gotb) > k else None, "alpha": int(want_alpha[y, x])},
                 {"want": int(want_col[k][y, x])})
        result = kind
    got_alpha = np.asarray(al[1]) if al[0] == "ok" and al[1] is not None else None
    if got_alpha is None or not np.array_equal(got_alpha, want_alpha):
        kind = "alpha-dropped" if got_alpha is not None and (got_alpha == 255).all() else "alpha-differs"
        ctx.fail(f"C07/samples/layer-import/{tag}/{kind}", "the transparency of the exported layer is not the source alpha / opaque", case,
                 None if got_alpha is None else got_alpha.reshape(-1)[:6].tolist(), want_alpha.reshape(-1)[:6].tolist())
        result = kind
    if pil_mode in ("L", "LA", "RGB", "RGBA") and (not out[1].mode.endswith("A") or not np.array_equal(gotb[-1], want_alpha)):
        ctx.fail(f"C07/samples/layer-import/{tag}/alpha-band-missing", "layer.topil() has no / a wrong transparency band", case, out[1].mode, None)
        result = "alpha band wrong"
    # (b) NumPy: every sample is v / 255 within 1e-6 (CMYK documents: in the storage convention, see (c)); opaque is exactly 1.0
    if arr[0] == "err" or arr[1] is None:
        ctx.fail(f"C07/samples/layer-export/{tag}/numpy-raises-{arr[1] if arr[0] == 'err' else 'None'}", "layer.numpy() fails", case, arr[1:], "an array")
        return "numpy fails"
    a = arr[1]
    cmyk = pil_mode == "CMYK"
    if a.shape[2] != ncol + 1:
        ctx.fail(f"C07/samples/layer-export/{tag}/numpy-channels", "layer.numpy() does not have colour + shape channels", case, a.shape, ncol + 1)
        return "numpy channels"
    for k in range(ncol):
        v = want_col[k].astype(np.float64)
        e = ((255.0 - v) if cmyk else v) / 255.0
        badmask = ~(np.abs(a[:, :, k].astype(np.float64) - e) <= 1e-6)
        if badmask.any():
            dlt = float(np.nanmax(np.abs(a[:, :, k].astype(np.float64) - e)))
            y, x = [int(t) for t in np.argwhere(badmask)[0]]
            ctx.fail(f"C07/samples/layer-numpy/{tag}/colour-not-v-over-255",
                     f"layer.numpy() channel {k} is not v/255 (max diff {dlt:.6f})", case,
                     {"pixel": (x, y), "got": float(a[y, x, k]), "v": int(want_col[k][y, x])}, {"want": float(e[y, x])})
            result = "numpy colour"
            break
    e = want_alpha.astype(np.float64) / 255.0
    sh = a[:, :, ncol].astype(np.float64)
    badmask = ~(np.abs(sh - e) <= 1e-6) | ((want_alpha == 255) & (sh != 1.0)) | ((want_alpha == 0) & (sh != 0.0))   # NaN counts as bad
    if badmask.any():
        dlt = float(np.nanmax(np.abs(sh - e))) if not np.isnan(sh).all() else float("nan")
        y, x = [int(t) for t in np.argwhere(badmask)[0]]
        ctx.fail(f"C07/samples/layer-numpy/{tag}/shape-not-alpha-over-255",
                 f"the shape channel of layer.numpy() is not alpha/255 (max diff {dlt:.6f}; opaque must be exactly 1.0)", case,
                 {"pixel": (x, y), "got": float(a[y, x, ncol]), "alpha": int(want_alpha[y, x])}, {"want": float(e[y, x])})
        result = "numpy shape"
    # (c) PIL vs NumPy: round(numpy * 255) is the PIL value
    rn = np.round(a.astype(np.float64) * 255.0)
    agree = all(np.array_equal(rn[:, :, k], gotb[k].astype(np.float64)) for k in range(ncol))
    if not agree:
        if cmyk and all(np.array_equal(np.round((1.0 - a[:, :, k].astype(np.float64)) * 255.0), gotb[k].astype(np.float64)) for k in range(ncol)):
            ctx.fail(KNOWN_CMYK_LAYER, "layer.topil() and layer.numpy() disagree in a CMYK document (numpy-not-inverted)", case, None, "equal")
        else:
            k = next(k for k in range(ncol) if not np.array_equal(rn[:, :, k], gotb[k].astype(np.float64)))
            y, x = [int(t) for t in np.argwhere(rn[:, :, k] != gotb[k])[0]]
            ctx.fail(f"C07/samples/pil-numpy/layer/{tag}/values-differ",
                     "round(layer.numpy() * 255) is not layer.topil()", case,
                     {"pixel": (x, y), "numpy": float(a[y, x, k]), "pil": int(gotb[k][y, x])}, "equal")
            result = "pil-numpy"
    if got_alpha is not None and not np.array_equal(rn[:, :, ncol], got_alpha.astype(np.float64)):
        ctx.fail(f"C07/samples/pil-numpy/layer/{tag}/shape-differs", "round(numpy shape * 255) is not topil(TRANSPARENCY_MASK)", case, None, "equal")
        result = "pil-numpy shape"
    return result


def search_doc(ctx, case, classify_doc):
    from psd_tools import PSDImage
    from psd_tools.constants import Compression
    s = case["src"]
    img = _call(make_source, s, case["perms"])
    if img[0] == "err":
        ctx.hist("search_refused", f"PIL cannot build a {s} image")
        return "not buildable"
    img = img[1]
    comp = Compression(case["compression"])
    r = _call(lambda: PSDImage.frompil(img, compression=comp))
    if r[0] == "err":
        if s in CORE_MODES:
            ctx.fail(f"C07/doc-import/{s}/raises-{r[1]}", f"PSDImage.frompil of a mode {s} image raises {r[1]}", case, r[1:], "a document")
            return "raises"
        ctx.hist("search_refused", f"doc {s}: {r[1]}")
        return "refused " + r[1]
    r = _call(lambda: pc.save_reopen(r[1])[0])
    if r[0] == "err":
        ctx.fail(f"C07/samples/doc-import/{s}/save-raises-{r[1]}", f"save()/open() of an imported {s} document raises {r[1]}: {r[2]}", case, r[1:], "a file")
        return "save raises"
    psd = r[1]
    # the documented normalisations of the source: bitmaps become grayscale, premultiplied alpha becomes straight
    want = img.convert({"1": "L", "La": "LA", "RGBa": "RGBA"}[img.mode]) if img.mode in ("1", "La", "RGBa") else img
    out = _call(lambda: psd.topil(apply_icc=False))
    arr = _call(lambda: psd.numpy())
    if out[0] == "err" or out[1] is None:
        ctx.fail(f"C07/samples/doc-export/{s}/topil-raises-{out[1] if out[0] == 'err' else 'None'}", "topil() of an imported document fails", case, out[1:], "the image")
        return "topil fails"
    o = out[1]
    result = "exact"
    if o.mode != want.mode or o.size != want.size or o.tobytes() != want.tobytes():
        result = classify_doc(o, want) if o.mode in ("L", "LA", "RGB", "RGBA", "CMYK") and want.mode in ("L", "LA", "RGB", "RGBA", "CMYK") else (
            f"mode-{o.mode}" if o.mode != want.mode else "wrong-pixels")
        ctx.fail(f"C07/doc-import/{want.mode if img.mode in ('La', 'RGBa') else img.mode}/{result}",
                 f"a mode {img.mode} image imported with PSDImage.frompil is exported differently ({result})", case,
                 {"mode": o.mode, "first_pixel": o.getpixel((0, 0))}, {"mode": want.mode, "first_pixel": want.getpixel((0, 0))})
    if arr[0] == "err":
        ctx.fail(f"C07/samples/doc-export/{s}/numpy-raises-{arr[1]}", "numpy() of an imported document fails", case, arr[1:], "an array")
        return "numpy fails"
    a = arr[1]
    wb = pc.bands_u8(want)
    if a.shape[2] != len(wb):
        ctx.fail(f"C07/samples/doc-export/{s}/numpy-channels", "numpy() does not have one channel per band", case, a.shape, len(wb))
        return "numpy channels"
    if want.mode != "RGBA":     # RGBA: the known matte removal, reported above with its own signature
        cmyk = want.mode == "CMYK"
        for k, b in enumerate(wb):
            v = b.astype(np.float64)
            e = ((255.0 - v) if cmyk else v) / 255.0
            dlt = float(np.nanmax(np.abs(a[:, :, k].astype(np.float64) - e)))
            if not (np.abs(a[:, :, k].astype(np.float64) - e) <= 1e-6).all():
                ctx.fail(f"C07/samples/doc-numpy/{s}/not-v-over-255", f"numpy() channel {k} of an imported document is not v/255 (max diff {dlt:.6f})",
                         case, float(a[0, 0, k]), float(e[0, 0]))
                result = "numpy"
                break
        rn = np.round(a.astype(np.float64) * 255.0)
        ob = pc.bands_u8(o)
        if len(ob) == len(wb) and not all(np.array_equal(rn[:, :, k], ob[k].astype(np.float64)) for k in range(len(ob))):
            if cmyk and all(np.array_equal(np.round((1.0 - a[:, :, k].astype(np.float64)) * 255.0), ob[k].astype(np.float64)) for k in range(4)):
                ctx.fail(KNOWN_CMYK_DOC, "topil() and numpy() of an imported CMYK document disagree (numpy-not-inverted)", case, None, "equal")
            else:
                ctx.fail(f"C07/samples/pil-numpy/doc/{s}/values-differ", "round(numpy() * 255) is not topil()", case, None, "equal")
                result = "pil-numpy"
    return result


# ---------------------------------------------------------------------------------------------
def replay_case(ctx, inp, classify_doc):
    from psd_tools.constants import Compression
    kind = inp.get("kind")
    perms = [tuple(p) for p in inp["perms"]] if isinstance(inp.get("perms"), list) else inp.get("perms")
    inp = {**inp, "perms": perms}
    if kind == "search-layer":
        print("result:", search_layer(ctx, inp))
    elif kind == "search-doc":
        print("result:", search_doc(ctx, inp, classify_doc))
    elif kind == "sample-layer":
        img = make_source(inp["src"], perms)
        m = ctx.driver().batch([("pxs.layer", inp["src"], CMODE_OF[inp["doc"]], DOC_CH[inp["doc"]], inp["depth"], inp["top"], inp["left"],
                                 16, 16, hexbands(model_bands(img)))])[0]
        compare_layer(ctx, inp, img, Compression(inp["compression"]), m)
    elif kind == "sample-doc" and perms != "all-pairs":
        img = make_source(inp["src"], perms)
        m = ctx.driver().batch([("pxs.doc", inp["src"], 16, 16, hexbands(model_bands(img)))])[0]
        compare_doc(ctx, inp, img, Compression(inp["compression"]), m)
    else:
        return False
    for dd in ctx.disagreements if hasattr(ctx, "disagreements") else []:
        print("disagreement:", dd)
    return True
