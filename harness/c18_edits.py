"""C18 - engine data after IN-PLACE EDITS, for every way the library hands engine data out.

The property "every tree serialises to text that parses back to an equal tree" is about the tree the caller holds at
the moment of writing, however it was obtained and whatever was done to it since.  `write` must be a function of the
tree alone: no memory of the text the tree was parsed from, of earlier writes, or of the object identity of subtrees.

origins (how the live tree is obtained)
  blob:<fixture .dat>:<class>           EngineData / EngineData2 .frombytes on a fixture blob
  built:<n>:<class>                     a tree built in memory (random), then edited
  tysh:<file>:<i>                       TypeToolObjectSetting.frombytes(raw block of the i-th descendant of the file)
  psd:<file>:<i>:<accessor>             PSDImage.open(file), i-th descendant (a TypeLayer), reached through the public
                                        accessor engine_dict | resource_dict | document_resources | block (the tagged
                                        block's EngineData itself)
  txt2:<file>                           the document-level TEXT_ENGINE_DATA block (EngineData2)
edits (applied to the live objects in place AND, independently, to the canonical tuple form)
  set        replace the value at a path (leaf, string, whole subtree)
  value      assign `.value` of the leaf object at a path (the object stays, its content changes)
  append     append to the list at a path          linsert   insert at the front of the list at a path
  newkey     insert a new key into the dict at a path
  del        delete the key / list item at a path
oracles (none looks at the model)
  written -> parsed == the edited canonical tree; write(tree) == write(a freshly built equal tree) (same class); writing
  twice gives the same bytes; for tysh / psd / txt2 the enclosing block / the saved and reopened document shows the
  edited tree, and the other type layers of the document are unchanged.
"""
from __future__ import annotations

import io
import json
from pathlib import Path

import core
from core import hx, unhx

KINDS = ("set", "value", "append", "linsert", "newkey", "del")
ACC_ORDER = ["engine_dict", "resource_dict", "document_resources", "block"]
ACCESSORS = {"engine_dict": b"EngineDict", "resource_dict": b"ResourceDict", "document_resources": b"DocumentResources"}


def _C18():
    import importlib
    return importlib.import_module("props.C18")


# --------------------------------------------------------------------------------------- canonical side
def nodes(c, path=()):
    yield path, c
    if c[0] == "D":
        for k, v in c[1]:
            yield from nodes(v, path + (k,))
    elif c[0] == "L":
        for i, v in enumerate(c[1]):
            yield from nodes(v, path + (i,))


def get(c, path):
    for p in path:
        if c[0] == "D":
            c = dict(c[1])[p]
        else:
            c = c[1][p]
    return c


def _rebuild(c, path, fn):
    """canonical tree with the node at `path` replaced by fn(node)"""
    if not path:
        return fn(c)
    p = path[0]
    if c[0] == "D":
        return ("D", [(k, _rebuild(v, path[1:], fn) if k == p else v) for k, v in c[1]])
    return ("L", [(_rebuild(v, path[1:], fn) if i == p else v) for i, v in enumerate(c[1])])


def apply_canon(c, edit):
    kind, path, payload = edit
    if kind in ("set", "value"):
        return _rebuild(c, path, lambda n: payload)
    if kind == "append":
        return _rebuild(c, path, lambda n: ("L", list(n[1]) + [payload]))
    if kind == "linsert":
        return _rebuild(c, path, lambda n: ("L", [payload] + list(n[1])))
    if kind == "newkey":
        return _rebuild(c, path, lambda n: ("D", [(k, v) for k, v in n[1] if k != payload[0]] + [tuple(payload)]))
    if kind == "del":
        last = path[-1]

        def drop(n):
            if n[0] == "D":
                return ("D", [(k, v) for k, v in n[1] if k != last])
            return ("L", [v for i, v in enumerate(n[1]) if i != last])
        return _rebuild(c, path[:-1], drop)
    raise core.Infra("unknown edit kind " + kind)


# --------------------------------------------------------------------------------------- live side
def _key(p):
    return p.decode("macroman") if isinstance(p, bytes) else p


def walk_live(root, path):
    for p in path:
        root = root[_key(p)]
    return root


def apply_live(root, edit):
    """the same edit on psd_tools objects, in place, with the public container protocol only"""
    build_py = _C18().build_py
    kind, path, payload = edit
    if kind == "set":
        walk_live(root, path[:-1])[_key(path[-1])] = build_py(payload)
    elif kind == "value":
        leaf = walk_live(root, path)
        leaf.value = build_py(payload).value
    elif kind == "append":
        walk_live(root, path).append(build_py(payload))
    elif kind == "linsert":
        walk_live(root, path).insert(0, build_py(payload))
    elif kind == "newkey":
        walk_live(root, path)[_key(payload[0])] = build_py(payload[1])
    elif kind == "del":
        del walk_live(root, path[:-1])[_key(path[-1])]


def clone(v):
    """an equal tree made of new objects (same classes, same values): what `write` may depend on"""
    from psd_tools.psd import engine_data as e
    if isinstance(v, e.Dict):
        d = type(v)()
        for k in v:
            d[e.Property(k.value)] = clone(v[k])
        return d
    if isinstance(v, e.List):
        return e.List([clone(x) for x in v])
    return type(v)(v.value)


# --------------------------------------------------------------------------------------- choosing edits
def _other_leaf(n):
    t = n[0]
    if t == "I":
        return ("I", n[1] + 1 if n[1] < 2 ** 62 else n[1] - 1)
    if t == "B":
        return ("B", not n[1])
    if t == "F":
        return ("F", not n[1], 12345 if n[2] != 12345 else 54321, 3)
    if t == "S":
        return ("S", tuple(n[1]) + (0x65, 0x28, 0x5C, 0x29, 0x0D, 0x5C5C))
    return None


def edits_for(c, rng, prefix=(), per_kind=2, kinds=KINDS):
    """For every edit kind: the shallowest site strictly below `prefix`+1, the deepest site, and random ones.
    Sites are restricted to the subtree at `prefix` (the part the accessor hands out)."""
    sub = [(p, n) for p, n in nodes(c) if p[:len(prefix)] == tuple(prefix)]
    by_kind = {k: [] for k in KINDS}
    for p, n in sub:
        d = len(p) - len(prefix)
        if n[0] in "IBFS" and d >= 1:
            alt = _other_leaf(n)
            by_kind["set"].append((p, alt))
            by_kind["value"].append((p, alt))
        if n[0] == "D":
            if d >= 1:
                by_kind["set"].append((p, ("D", [(b"Fresh", ("I", 7)), (b"Txt", ("S", (0x29, 0x5C)))])))
            by_kind["newkey"].append((p, (b"zzAdded9", ("L", [("I", 1), ("F", False, 25, 1)]))))
        if n[0] == "L":
            item = n[1][0] if n[1] else ("I", 3)
            if any(v[0] == "D" for v in n[1]) and item[0] != "D":
                item = next(v for v in n[1] if v[0] == "D")
            by_kind["append"].append((p, item))
            by_kind["linsert"].append((p, item))
        if d >= 1:
            by_kind["del"].append((p, None))
    out = []
    for k in kinds:
        cands = by_kind[k]
        if not cands:
            continue
        below = [x for x in cands if len(x[0]) - len(prefix) >= 2] or cands
        chosen = [min(below, key=lambda x: (len(x[0]), repr(x[0]))), max(cands, key=lambda x: (len(x[0]), repr(x[0])))]
        top = [x for x in cands if len(x[0]) - len(prefix) <= 1]
        if top and rng.random() < 0.35:
            chosen.append(top[rng.randrange(len(top))])
        for _ in range(per_kind):
            chosen.append(cands[rng.randrange(len(cands))])
        seen = set()
        for p, payload in chosen[: 2 + per_kind]:
            if (p, repr(payload)) in seen:
                continue
            seen.add((p, repr(payload)))
            out.append((k, p, payload))
    return out


# --------------------------------------------------------------------------------------- (de)serialising an edit
def edit_json(edit):
    C = _C18()
    kind, path, payload = edit
    pj = [hx(p) if isinstance(p, bytes) else p for p in path]
    if payload is None:
        pl = None
    elif kind == "newkey":
        pl = [hx(payload[0]), C.jsonable(payload[1])]
    else:
        pl = C.jsonable(payload)
    return [kind, pj, pl]


def edit_unjson(j):
    C = _C18()
    kind, pj, pl = j
    path = tuple(unhx(p) if isinstance(p, str) else p for p in pj)
    if pl is None:
        payload = None
    elif kind == "newkey":
        payload = (unhx(pl[0]), C.unjson(pl[1]))
    else:
        payload = C.unjson(pl)
    return (kind, path, payload)


# --------------------------------------------------------------------------------------- origins
class Origin:
    """obtain(): -> (live root EngineData object, subtree root the edits start from, prefix path of that subtree,
    class of the root, reopen() -> canonical tree of the root after the enclosing write + read or an error string)"""

    def __init__(self, name):
        self.name = name
        self.parts = name.split(":")

    def obtain(self):
        import logging
        logging.disable(logging.CRITICAL)
        from psd_tools.psd import engine_data as e
        C = _C18()
        kind = self.parts[0]
        if kind == "blob":
            cls = getattr(e, self.parts[2])
            data = (core.REPO / "tests" / "engine_data" / self.parts[1]).read_bytes()
            root = cls.frombytes(data)
            return root, root, (), cls, None
        if kind == "built":
            cls = getattr(e, self.parts[2])
            root = C.build_py(self.tree, cls)
            return root, root, (), cls, None
        from psd_tools import PSDImage
        from psd_tools.constants import Tag
        f = core.REPO / "tests" / "psd_files" / self.parts[1]
        if kind == "tysh":
            from psd_tools.psd.tagged_blocks import TypeToolObjectSetting
            psd = PSDImage.open(f)
            layer = list(psd.descendants())[int(self.parts[2])]
            obj = TypeToolObjectSetting.frombytes(layer._data.tobytes())
            root = obj.text_data[b"EngineData"].value

            def reopen():
                back = TypeToolObjectSetting.frombytes(obj.tobytes())
                return C.canon_py(back.text_data[b"EngineData"].value)
            return root, root, (), e.EngineData, reopen
        if kind == "psd":
            psd = PSDImage.open(f)
            idx = int(self.parts[2])
            layer = list(psd.descendants())[idx]
            root = layer._data.text_data[b"EngineData"].value
            acc = self.parts[3]
            if acc == "block":
                sub, prefix = layer.tagged_blocks.get_data(Tag.TYPE_TOOL_OBJECT_SETTING).text_data[b"EngineData"].value, ()
            else:
                sub, prefix = getattr(layer, acc), (ACCESSORS[acc],)

            def reopen():
                b = io.BytesIO()
                psd.save(b)
                again = PSDImage.open(io.BytesIO(b.getvalue()))
                layers = list(again.descendants())
                others = []
                for j, (l0, l1) in enumerate(zip(psd.descendants(), layers)):
                    if j != idx and l0.kind == "type":
                        others.append(C.canon_py(l0._data.text_data[b"EngineData"].value) ==
                                      C.canon_py(l1._data.text_data[b"EngineData"].value))
                if not all(others):
                    return "another type layer changed"
                return C.canon_py(layers[idx]._data.text_data[b"EngineData"].value)
            return root, sub, prefix, e.EngineData, reopen
        if kind == "txt2":
            psd = PSDImage.open(f)
            root = psd.tagged_blocks.get_data(Tag.TEXT_ENGINE_DATA)

            def reopen():
                b = io.BytesIO()
                psd.save(b)
                again = PSDImage.open(io.BytesIO(b.getvalue()))
                return C.canon_py(again.tagged_blocks.get_data(Tag.TEXT_ENGINE_DATA))
            return root, root, (), e.EngineData2, reopen
        raise core.Infra("unknown origin " + self.name)


def evaluate(origin: Origin, edit, canon0=None):
    """Run one (origin, edit) on the real code. -> None when every oracle holds, else (mechanism, observed, expected).
    edit None = the unedited tree (write must still be a function of the tree)."""
    C = _C18()
    try:
        root, sub, prefix, cls, reopen = origin.obtain()
    except core.Infra:
        raise
    except Exception as ex:  # noqa
        return ("obtain-raises", type(ex).__name__, "the parsed tree")
    c0 = C.canon_py(root)
    if canon0 is not None and c0 != canon0:
        return ("not-reproducible", "the tree obtained differs between two reads", "equal trees")
    if origin.parts[0] in ("tysh", "psd", "txt2"):
        # a first write BEFORE the edit: the writer may not remember what it wrote
        r0 = C.call(lambda: root.tobytes())
        if r0[0] != "ok":
            return ("write-raises-before-edit", r0[1], "bytes")
    expected = c0
    if edit is not None:
        rel = (edit[0], edit[1][len(prefix):], edit[2])
        try:
            apply_live(sub, rel)
        except Exception as ex:  # noqa
            return ("edit-raises", type(ex).__name__ + ": " + str(ex)[:80], "the container protocol of dict / list")
        expected = apply_canon(c0, edit)
        live = C.call(lambda: C.canon_py(root))
        if live != ("ok", expected):
            return ("edit-not-visible-in-the-live-tree", _brief(live, expected), "the edited tree")
    w1 = C.call(lambda: root.tobytes())
    if w1[0] != "ok":
        return ("write-raises", w1[1], "bytes")
    w2 = C.call(lambda: root.tobytes())
    if w2 != w1:
        return ("second-write-differs", "two consecutive writes of the same tree give different bytes", "equal bytes")
    back = C.call(lambda: C.canon_py(cls.frombytes(w1[1])))
    if back != ("ok", expected):
        return ("written-text-parses-to-another-tree", _brief(back, expected), "the edited tree")
    fresh = C.call(lambda: clone(root).tobytes())
    if fresh != w1:
        return ("write-depends-on-more-than-the-tree",
                "the tree writes %d bytes, an equal tree built afresh writes %s" % (
                    len(w1[1]), len(fresh[1]) if fresh[0] == "ok" else fresh[1]), "identical bytes")
    if reopen is not None:
        re = C.call(reopen)
        if re != ("ok", expected):
            return ("enclosing-write-read-shows-another-tree", _brief(re, expected), "the edited tree")
    return None


def _brief(got, expected):
    if got[0] != "ok":
        return "raises " + str(got[1])
    if isinstance(got[1], str):
        return got[1]
    a = {p: n for p, n in nodes(got[1]) if n[0] not in "DL"}
    b = {p: n for p, n in nodes(expected) if n[0] not in "DL"}
    diffs = [p for p in list(b) + [q for q in a if q not in b] if a.get(p) != b.get(p)]
    p = diffs[0] if diffs else ()
    return {"first_difference_at": [_key(x) for x in p], "read_back": str(a.get(p))[:80], "edited_tree_has": str(b.get(p))[:80],
            "differing_leaves": len(diffs)}


# --------------------------------------------------------------------------------------- the stage
def origins_available(ctx, quick, rng):
    import logging
    logging.disable(logging.CRITICAL)
    from psd_tools import PSDImage
    from psd_tools.api.layers import TypeLayer
    from psd_tools.constants import Tag
    from psd_tools.psd import engine_data as e
    out = []
    for f in sorted((core.REPO / "tests" / "engine_data").glob("*.dat")):
        out.append(Origin("blob:%s:EngineData" % f.name))
        if f.name in ("TySh_1.dat", "Txt2_1.dat") or not quick:
            out.append(Origin("blob:%s:EngineData2" % f.name))
    C = _C18()
    for n in range(6 if quick else 40):
        for clsname in ("EngineData", "EngineData2"):
            o = Origin("built:%d:%s" % (n, clsname))
            o.tree = C.rand_dict(rng, rng.choice([3, 4, 5]), extras=False)
            out.append(o)
    root = core.REPO / "tests" / "psd_files"
    n_layers = 0
    for f in sorted(root.rglob("*.ps[db]")):
        rel = str(f.relative_to(root))
        raw = f.read_bytes()
        if b"TySh" not in raw and b"Txt2" not in raw:
            continue
        try:
            psd = PSDImage.open(f)
        except Exception:  # noqa
            continue
        idxs = [i for i, l in enumerate(psd.descendants()) if isinstance(l, TypeLayer)]
        if psd.tagged_blocks is not None and Tag.TEXT_ENGINE_DATA in psd.tagged_blocks and \
                isinstance(psd.tagged_blocks.get_data(Tag.TEXT_ENGINE_DATA), e.Dict):
            out.append(Origin("txt2:" + rel))
        if not idxs:
            continue
        n_layers += len(idxs)
        pick = idxs if not quick else [idxs[rng.randrange(len(idxs))]]
        for k, i in enumerate(pick):
            accs = ["engine_dict", "resource_dict", "document_resources", "block"]
            for acc in accs:
                out.append(Origin("psd:%s:%d:%s" % (rel, i, acc)))
            if k == 0:
                out.append(Origin("tysh:%s:%d" % (rel, i)))
    return out, n_layers


def run_stage(ctx, quick):
    C = _C18()
    rng = ctx.rng
    origins, n_layers = origins_available(ctx, quick, rng)
    n_cases = 0
    by_origin = {}
    reported = set()
    seq = {}
    c0_cache = {}
    for o in origins:
        kind0 = o.parts[0]
        ck = tuple(o.parts[1:3]) if kind0 in ("psd", "tysh") else None
        prefix = (ACCESSORS[o.parts[3]],) if kind0 == "psd" and o.parts[3] != "block" else ()
        if ck is not None and ck in c0_cache:
            c0 = c0_cache[ck]
        else:
            try:
                root, sub, prefix, cls, _ = o.obtain()
            except Exception as ex:  # noqa
                ctx.fail("C18/edited/%s/obtain-raises" % kind0, "engine data cannot be obtained", {"origin": o.name},
                         type(ex).__name__, "a tree")
                continue
            c0 = C.canon_py(root)
            if ck is not None:
                c0_cache[ck] = c0
        how0 = kind0 if kind0 != "psd" else "psd:" + o.parts[3]
        n_o = seq[how0] = seq.get(how0, -1) + 1          # n-th origin of its kind: rotates the edit kinds
        unedited = True
        if kind0 in ("psd", "tysh", "txt2") and quick:
            # documents are expensive (open + save + reopen per case): one or two edits per origin, the kinds and the
            # site classes (shallowest below the top / deepest) rotating over the origins of the same kind
            k = 1 if kind0 != "tysh" else 2
            kinds = tuple(KINDS[(n_o * k + j + (ACC_ORDER.index(o.parts[3]) if kind0 == "psd" else 0)) % len(KINDS)]
                          for j in range(k))
            edits = []
            for kd in kinds:
                es = edits_for(c0, rng, prefix, per_kind=1, kinds=(kd,))
                if es:
                    edits.append(es[(n_o // len(KINDS)) % len(es)] if rng.random() < 0.5 else es[0])
            unedited = kind0 != "psd" or o.parts[3] == "block"
            if kind0 == "txt2":
                unedited = n_o % 5 == 0
        elif kind0 == "blob" and quick:
            edits = edits_for(c0, rng, prefix, per_kind=0)
            edits = [e_ for j, e_ in enumerate(edits) if j % 2 == n_o % 2]
        else:
            edits = edits_for(c0, rng, prefix, per_kind=1 if quick else 3)
        for edit in ([None] if unedited else []) + edits:
            n_cases += 1
            ctx.count(("edit", o.name, repr(edit)), nontrivial=edit is not None)
            ctx.hist("edit_origin", kind0 if kind0 != "psd" else "psd:" + o.parts[3])
            ctx.hist("edit_kind", edit[0] if edit else "none")
            if edit is not None:
                ctx.hist("edit_depth", len(edit[1]))
            bad = evaluate(o, edit, c0)
            if bad is None:
                continue
            mech, observed, expected = bad
            how = kind0 if kind0 != "psd" else "psd-" + o.parts[3]
            sig = "C18/edited/%s/%s" % (how, mech if edit else "unedited-" + mech)
            if sig in reported:
                ctx.hist("edit_failures_not_repeated", sig)
                continue
            reported.add(sig)
            inp = {"origin": o.name, "edit": edit_json(edit) if edit else None}
            if kind0 == "built":
                inp["tree"] = C.jsonable(o.tree)
            ctx.fail(sig,
                     "engine data obtained as `%s` and edited in place (%s) is not what write -> read returns"
                     % (o.name, "%s at depth %d" % (edit[0], len(edit[1])) if edit else "no edit"),
                     inp, observed, expected)
    ctx.extra["edits"] = {"origins": len(origins), "cases": n_cases, "type_layers_in_fixtures": n_layers}
    return n_cases


def replay(inp):
    C = _C18()
    o = Origin(inp["origin"])
    if "tree" in inp:
        o.tree = C.unjson(inp["tree"])
    edit = edit_unjson(inp["edit"]) if inp.get("edit") else None
    print("origin:", o.name, "| edit:", json.dumps(inp.get("edit"))[:300])
    print("->", evaluate(o, edit) or "every oracle holds")
