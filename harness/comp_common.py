"""Shared machinery of the compositing checks C11 and C13.

* recipes (pixdoc) <-> JSON, the document generator, recipe transformations (no-op insertion, wrapping, ...)
* `spec_composite`: NumPy float64 implementation of the PUBLISHED compositing model (Porter-Duff / PDF 1.7
  11.3-11.4 + Photoshop's factors and clipping groups), written from the formulas - the search oracle.
  It is not a transcription of the Lean model nor of the Python Compositor: it recurses over the RECIPE,
  works on whole images in premultiplied form, never divides except to un-premultiply, never clips.
* `XDoc`: the per-pixel layer tree of a real document, extracted with the public getters the compositor
  itself uses, rendered as `comp.pixel` requests for the Lean model - the correspondence side.
* comparison with the tolerances of the property, shrinking and classification of failing recipes.
"""
from __future__ import annotations

import copy
import io
from fractions import Fraction

import numpy as np

import core  # noqa: F401
import pixdoc
from props.C12 import spec_sep, spec_ns, SEP, NONSEP

TOL_ALPHA = 2e-4      # shape and alpha, absolute
TOL_COLOR = 1e-3      # premultiplied colour, absolute
ALPHA_MIN = 1e-4      # colour is compared only where the result alpha exceeds this
DELTA_STAB = 2e-5     # perturbation used to detect blend evaluations next to a jump / steep slope
STAB_LIMIT = 5e-4     # a blend evaluation moving more than this under DELTA_STAB marks the pixel unstable

MODE_CH = {"L": 1, "RGB": 3, "CMYK": 4}
CONTINUOUS = ["NORMAL", "MULTIPLY", "SCREEN", "OVERLAY", "DARKEN", "LIGHTEN", "LINEAR_DODGE", "LINEAR_BURN",
              "DIFFERENCE", "EXCLUSION", "SUBTRACT", "HARD_LIGHT", "SOFT_LIGHT", "PIN_LIGHT", "LINEAR_LIGHT",
              "COLOR_DODGE", "COLOR_BURN", "VIVID_LIGHT", "DIVIDE"]
JUMPY = ["HARD_MIX", "HUE", "SATURATION", "COLOR", "LUMINOSITY", "DARKER_COLOR", "LIGHTER_COLOR"]
NONSEP_UP = [m.upper() for m in NONSEP]


# ------------------------------------------------------------------------------------------
# recipes <-> JSON
# ------------------------------------------------------------------------------------------
def recipe_to_json(nodes):
    out = []
    for n in nodes:
        m = {k: v for k, v in n.items() if k not in ("color", "alpha", "mask", "children")}
        mk = n.get("mask")
        if n["t"] == "group":
            m["children"] = recipe_to_json(n["children"])
            if mk:
                m["mask"] = dict(mk, data=np.asarray(mk["data"]).tolist())
        else:
            m["color"] = np.asarray(n["color"]).tolist()
            m["alpha"] = None if n.get("alpha") is None else np.asarray(n["alpha"]).tolist()
            m["mask"] = None if not mk else dict(mk, data=np.asarray(mk["data"]).tolist())
        out.append(m)
    return out


def recipe_from_json(nodes):
    out = []
    for n in nodes:
        m = dict(n)
        if n["t"] == "group":
            m["children"] = recipe_from_json(n["children"])
        else:
            l, t, r, b = n["rect"]
            m["color"] = np.asarray(n["color"], dtype=np.uint8).reshape(b - t, r - l, -1)
            m["alpha"] = None if n.get("alpha") is None else np.asarray(n["alpha"], dtype=np.uint8).reshape(b - t, r - l)
        mk = n.get("mask")
        if mk:
            ml, mt, mr, mb = mk["rect"]
            m["mask"] = dict(mk, data=np.asarray(mk["data"], dtype=np.uint8).reshape(mb - mt, mr - ml))
        out.append(m)
    return out


def walk(nodes):
    for n in nodes:
        yield n
        if n["t"] == "group":
            yield from walk(n["children"])


def count_layers(nodes):
    return sum(1 for _ in walk(nodes))


def depth_of(nodes):
    return 0 if not nodes else max(1 + (depth_of(n["children"]) if n["t"] == "group" else 0) for n in nodes)


# ------------------------------------------------------------------------------------------
# generator
# ------------------------------------------------------------------------------------------
def _rect(rng, W, H):
    k = rng.random()
    if k < 0.45:      # inside / straddling
        l = rng.randrange(-2, W - 1); t = rng.randrange(-2, H - 1)
        r = rng.randrange(l + 1, W + 3); b = rng.randrange(t + 1, H + 3)
    elif k < 0.75:    # full canvas
        l, t, r, b = 0, 0, W, H
    elif k < 0.88:    # strictly inside
        l = rng.randrange(0, W); t = rng.randrange(0, H)
        r = rng.randrange(l + 1, W + 1); b = rng.randrange(t + 1, H + 1)
    else:             # maybe wholly outside
        l = rng.randrange(-6, W + 4); t = rng.randrange(-6, H + 4)
        r = l + rng.randrange(1, 4); b = t + rng.randrange(1, 4)
    return [l, t, r, b]


def gen_pixel(rng, nprng, size, channels, blends, p_clip=0.0, p_knock=0.04):
    W, H = size
    l, t, r, b = _rect(rng, W, H)
    w, h = r - l, b - t
    color = nprng.randint(0, 256, size=(h, w, channels)).astype(np.uint8)
    if rng.random() < 0.25:      # extreme values: exact 0 / 255 channels
        color = nprng.choice([0, 255, 128, 64], size=(h, w, channels)).astype(np.uint8)
    am = rng.random()
    if am < 0.15:
        alpha = None
    elif am < 0.40:
        alpha = np.full((h, w), 255, np.uint8)
    elif am < 0.47:
        alpha = np.zeros((h, w), np.uint8)
    else:
        alpha = nprng.choice([0, 0, 1, 64, 128, 200, 254, 255], size=(h, w)).astype(np.uint8)
    n = {"t": "pixel", "rect": [l, t, r, b], "color": color, "alpha": alpha,
         "opacity": rng.choice([255, 255, 255, 128, 30, 1, 0]), "fill": rng.choice([None, None, None, 255, 100, 0]),
         "blend": rng.choice(["NORMAL"] * 3 + blends) if rng.random() < 0.75 else "NORMAL",
         "visible": rng.random() > 0.1, "clip": rng.random() < p_clip, "knockout": rng.random() < p_knock, "mask": None}
    if rng.random() < 0.25:
        ml = l + rng.randrange(-1, 2); mt = t + rng.randrange(-1, 2)
        mr = max(ml + 1, r + rng.randrange(-1, 2)); mb = max(mt + 1, b + rng.randrange(-1, 2))
        n["mask"] = {"rect": [ml, mt, mr, mb], "bg": rng.choice([0, 255]),
                     "data": nprng.choice([0, 90, 255, 255], size=(mb - mt, mr - ml)).astype(np.uint8),
                     "disabled": rng.random() < 0.15, "density": rng.choice([None, None, 255, 128, 0])}
    return n


def gen_list(rng, nprng, size, channels, blends, budget, depth, max_depth=3):
    """`budget` = [layers left]; a list of at least one node, bottom first"""
    nodes = []
    want = rng.randrange(1, 5) if depth else rng.randrange(1, 9)
    while budget[0] > 0 and len(nodes) < want:
        budget[0] -= 1
        prev_is_base = bool(nodes)
        p_clip = 0.35 if prev_is_base else 0.05          # a clip layer above something, or (odd) at the bottom
        if depth + 1 < max_depth and budget[0] > 0 and rng.random() < 0.28:
            g = {"t": "group", "blend": rng.choice(["PASS_THROUGH", "PASS_THROUGH", "NORMAL", "MULTIPLY", "NORMAL"]),
                 "opacity": rng.choice([255, 255, 255, 150, 0]), "fill": rng.choice([None, None, None, 100]),
                 "visible": rng.random() > 0.1, "clip": rng.random() < (0.1 if prev_is_base else 0.02),
                 "knockout": rng.random() < 0.03,
                 "children": gen_list(rng, nprng, size, channels, blends, budget, depth + 1, max_depth)}
            if g["blend"] not in ("PASS_THROUGH", "NORMAL") and rng.random() < 0.5:
                g["blend"] = rng.choice(blends)
            nodes.append(g)
        else:
            nodes.append(gen_pixel(rng, nprng, size, channels, blends, p_clip=p_clip))
    return nodes


def gen_doc(rng, nprng, jumpy=False, mode=None):
    mode = mode or rng.choice(["RGB", "RGB", "RGB", "L", "CMYK"])
    if jumpy and mode == "L":
        mode = "RGB"
    size = (rng.randrange(1, 9), rng.randrange(1, 9))
    blends = (["HARD_MIX"] + NONSEP_UP) if jumpy else CONTINUOUS
    budget = [rng.randrange(1, 9)]
    recipe = gen_list(rng, nprng, size, MODE_CH[mode], blends, budget, 0)
    return {"recipe": recipe, "size": list(size), "mode": mode}


def gen_backdrop(rng, nprng, V, channels):
    h, w = V[3] - V[1], V[2] - V[0]
    color = (nprng.randint(0, 256, size=(h, w, channels)) / 255.0).astype(np.float32)
    alpha = (nprng.choice([0, 0, 77, 128, 255, 255], size=(h, w, 1)) / 255.0).astype(np.float32)
    return color, alpha


# ------------------------------------------------------------------------------------------
# the published model, float64, whole images
# ------------------------------------------------------------------------------------------
def _union(b, s):
    return b + s - b * s


def _unpremul(P, a):
    """straight colour where a > 0 (anything - here 0 - elsewhere: its weight is a = 0)"""
    out = np.zeros_like(P)
    np.divide(P, a[..., None], out=out, where=(a[..., None] > 0))
    return out


def _place(V, rect, arr, background):
    """array over the domain V whose pixels inside `rect` are `arr` (h, w[, C]) and `background` elsewhere"""
    H, W = V[3] - V[1], V[2] - V[0]
    shape = (H, W) + tuple(arr.shape[2:])
    out = np.full(shape, float(background), dtype=np.float64)
    l, t, r, b = max(V[0], rect[0]), max(V[1], rect[1]), min(V[2], rect[2]), min(V[3], rect[3])
    if l < r and t < b:
        out[t - V[1]:b - V[1], l - V[0]:r - V[0]] = arr[t - rect[1]:b - rect[1], l - rect[0]:r - rect[0]]
    return out


def blend_spec(name, cb, cs, mode):
    """B(cb, cs) of the published definition for the BlendMode called `name` (arrays (H, W, C))"""
    fn = name.lower()
    if fn in ("pass_through", "dissolve") or fn not in SEP + NONSEP:
        fn = "normal"
    with np.errstate(all="ignore"):
        if fn in NONSEP:
            if mode == "CMYK":
                raise NotImplementedError("non-separable on CMYK: see the known findings of C12")
            out = spec_ns(fn, cb[..., :3], cs[..., :3])
        else:
            out = spec_sep(fn, cb, cs)
    return np.nan_to_num(out, nan=0.0, posinf=1.0, neginf=0.0)


EFFECT_BLEND_NAMES = {"Nrml": "NORMAL", "Mltp": "MULTIPLY", "Scrn": "SCREEN", "Ovrl": "OVERLAY", "Drkn": "DARKEN", "Lghn": "LIGHTEN",
                      "Dfrn": "DIFFERENCE", "HrdL": "HARD_LIGHT"}


def stored_color(values, mode):
    """the colour a descriptor built by pixdoc._color_desc denotes, one float per channel (storage convention)"""
    if mode == "RGB":
        return [float(v) / 255.0 for v in values]
    return [(100.0 - (100.0 - float(v) * 100.0 / 255.0)) / 100.0 for v in values]


class Spec:
    """One evaluation of the published model on a recipe over the pixel domain V.

    Beyond pixel layers and groups it knows what needs no drawing: solid-colour fill layers without an enabled vector mask
    (an object of that colour over the layer's box), colour overlay effects (one more element of the group, painted with the
    layer's shape and alpha after masks and layer opacity - not fill opacity - times the effect's opacity) and adjustment
    layers (nothing).  Gradient / pattern overlays, stroke effects and vector masks need the library's rasteriser:
    NotImplementedError (no independent oracle for such a document)."""

    def __init__(self, V, mode, visible=None, size=None, force=False):
        self.V = tuple(V)
        self.size = size
        self.force = force
        self.mode = mode
        self.C = MODE_CH[mode]
        self.H, self.W = V[3] - V[1], V[2] - V[0]
        self.visible = visible or (lambda n: bool(n.get("visible", True)))
        self.unstable = np.zeros((self.H, self.W), dtype=bool)

    # -- blend with a stability probe -------------------------------------------------------
    def B(self, name, cb, cs, weight):
        out = blend_spec(name, cb, cs, self.mode)
        if name not in ("NORMAL", "PASS_THROUGH", "DISSOLVE"):
            d = DELTA_STAB
            worst = np.zeros((self.H, self.W))
            for sb in (-d, d):
                for ss in (-d, d):
                    o2 = blend_spec(name, np.clip(cb + sb, 0, 1), np.clip(cs + ss, 0, 1), self.mode)
                    worst = np.maximum(worst, np.abs(o2 - out).max(axis=-1))
            self.unstable |= (worst > STAB_LIMIT) & (weight > 1e-6)
        return out

    # -- sources ----------------------------------------------------------------------------
    def factors(self, n):
        """(fm, qm, fk, qk): mask shape, mask opacity, constant shape, constant opacity (PDF 1.7 11.4.4)"""
        fm, qm = 1.0, 1.0
        mk = n.get("mask")
        if mk and not mk.get("disabled"):
            fm = _place(self.V, mk["rect"], np.asarray(mk["data"], dtype=np.float64) / 255.0, mk.get("bg", 0) / 255.0)
            if mk.get("density") is not None:
                qm = mk["density"] / 255.0
        fk = 1.0 if n.get("fill") is None else n["fill"] / 255.0
        qk = n.get("opacity", 255) / 255.0
        return fm, qm, fk, qk

    def source(self, n, P_b, a_b, P_0, a_0):
        """object colour (straight), object shape, object alpha of node `n` over the backdrop given"""
        if n["t"] == "pixel":
            color = np.asarray(n["color"], dtype=np.float64) / 255.0
            Cs = _place(self.V, n["rect"], color, 1.0)
            al = np.ones(color.shape[:2]) if n.get("alpha") is None else np.asarray(n["alpha"], dtype=np.float64) / 255.0
            fj = _place(self.V, n["rect"], al, 0.0)
            return Cs, fj, fj.copy()
        if n["t"] == "fill":
            vm = n.get("vmask")
            if vm and (not vm.get("disabled") or vm.get("shape")):
                raise NotImplementedError("vector mask: needs the rasteriser")
            if self.size is None:
                raise NotImplementedError("fill layer without the canvas size")
            px = n.get("pixels")
            if px is not None and not self.force:
                color = np.asarray(px["color"], dtype=np.float64) / 255.0
                Cs = _place(self.V, n["rect"], color, 1.0)
                al = np.ones(color.shape[:2]) if px.get("alpha") is None else np.asarray(px["alpha"], dtype=np.float64) / 255.0
                fj = _place(self.V, n["rect"], al, 0.0)
                return Cs, fj, fj.copy()
            l, t, r, b = n.get("rect") or [0, 0, 0, 0]
            box = [l, t, r if r else self.size[0], b if b else self.size[1]]     # FillLayer.right / .bottom
            w, h = max(box[2] - box[0], 0), max(box[3] - box[1], 0)
            col = np.empty((h, w, self.C))
            col[...] = stored_color(n["fillcolor"], self.mode)
            Cs = _place(self.V, box, col, 1.0)
            fj = _place(self.V, box, np.ones((h, w)), 0.0)
            return Cs, fj, fj.copy()
        # a group: a stack over the current backdrop (non-isolated) or over nothing (isolated);
        # an element with the knockout flag sees the initial backdrop of the stack it is in
        Pb, ab = (P_0, a_0) if n.get("knockout") else (P_b, a_b)
        if n.get("blend", "PASS_THROUGH") != "PASS_THROUGH":
            Pb, ab = np.zeros_like(P_b), np.zeros_like(a_b)
        P, a, fg, ag = self.stack(n["children"], Pb, ab)
        Pg = P - (1.0 - ag)[..., None] * Pb          # group colour with the backdrop's contribution removed (11.4.8)
        return _unpremul(Pg, ag), fg, ag

    # -- a stack ----------------------------------------------------------------------------
    def runs(self, nodes):
        """[(base, [clip layers])]: a clipping layer belongs to the nearest non-clipping layer below it in the
        same list; clipping layers with nothing below them are ordinary layers"""
        out = []
        for n in nodes:
            if n.get("clip") and out and out[-1][2]:
                out[-1][1].append(n)
            else:
                out.append((n, [], not n.get("clip")))
        return [(b, c) for b, c, _ in out]

    def overlays(self, n):
        """[(colour per channel, opacity, blend name)] of the enabled colour overlays of a node"""
        fx = n.get("effects")
        if not fx or not fx.get("master", True):
            return []
        out = []
        for e in fx.get("items", []):
            if not e.get("enabled", True):
                continue
            if e["kind"] != "color":
                raise NotImplementedError(e["kind"] + " effect: needs the library's drawing")
            out.append((stored_color(e["color"], self.mode), float(e.get("opacity", 100)) / 100.0,
                        EFFECT_BLEND_NAMES[e.get("blend", "Nrml")]))
        # the compositor paints colour overlays first (then pattern, then gradient): one kind here, in list order
        return out

    def paint_overlays(self, n, P, a, fg, ag, P_0, a_0, fj, aj):
        fm, qm, _, qk = self.factors(n)
        for col, op, blend in self.overlays(n):
            Ce = np.empty((self.H, self.W, self.C))
            Ce[...] = col
            P, a, fg, ag = self.step({"blend": blend, "knockout": False}, P, a, fg, ag, P_0, a_0, Ce, fj * fm, aj * (fm * qm) * qk * op)
        return P, a, fg, ag

    def stack(self, nodes, P_0, a_0):
        P, a = P_0.copy(), a_0.copy()
        fg = np.zeros((self.H, self.W))
        ag = np.zeros((self.H, self.W))
        for base, clips in self.runs(nodes):
            if not self.visible(base) or base["t"] == "adjustment":
                continue
            Cs, fj, aj = self.source(base, P, a, P_0, a_0)
            clips = [c for c in clips if self.visible(c)]
            if clips:
                # clipping group: the run painted over the base colour, inside the base's alpha
                Pc, ac, _, _ = self.stack_plain(clips, aj[..., None] * Cs, aj)
                Cs = _unpremul(Pc, ac)
            fm, qm, fk, qk = self.factors(base)
            fs = fj * fm * fk
            as_ = aj * (fm * qm) * (fk * qk)
            P, a, fg, ag = self.step(base, P, a, fg, ag, P_0, a_0, Cs, fs, as_)
            P, a, fg, ag = self.paint_overlays(base, P, a, fg, ag, P_0, a_0, fj, aj)
        return P, a, fg, ag

    def stack_plain(self, nodes, P_0, a_0):
        """the layers of a clip run, each an ordinary element (their own clip flag is what put them here)"""
        P, a = P_0.copy(), a_0.copy()
        fg = np.zeros((self.H, self.W))
        ag = np.zeros((self.H, self.W))
        for n in nodes:
            if n["t"] == "adjustment":
                continue
            Cs, fj, aj = self.source(n, P, a, P_0, a_0)
            fm, qm, fk, qk = self.factors(n)
            P, a, fg, ag = self.step(n, P, a, fg, ag, P_0, a_0, Cs, fj * fm * fk, aj * (fm * qm) * (fk * qk))
            P, a, fg, ag = self.paint_overlays(n, P, a, fg, ag, P_0, a_0, fj, aj)
        return P, a, fg, ag

    def step(self, n, P, a, fg, ag, P_0, a_0, Cs, fs, as_):
        name = n.get("blend", "NORMAL")
        e = lambda v: v[..., None]
        if n.get("knockout"):
            C0 = _unpremul(P_0, a_0)
            X = e(1 - a_0) * Cs + e(a_0) * self.B(name, C0, Cs, as_ * a_0)
            P = e(1 - fs) * P + e(fs - as_) * P_0 + e(as_) * X
            ag = (1 - fs) * ag + (fs - as_) * a_0 + as_
        else:
            Cb = _unpremul(P, a)
            X = e(1 - a) * Cs + e(a) * self.B(name, Cb, Cs, as_ * a)
            P = e(1 - as_) * P + e(as_) * X
            ag = _union(ag, as_)
        fg = _union(fg, fs)
        return P, _union(a_0, ag), fg, ag


def spec_composite(recipe, V, mode, color=None, alpha=None, visible=None, size=None, force=False):
    """(colour straight, shape, alpha, unstable) of the published model over the domain V = (l, t, r, b)"""
    sp = Spec(V, mode, visible, size, force)
    C0 = np.ones((sp.H, sp.W, sp.C)) if color is None else np.asarray(color, dtype=np.float64).reshape(sp.H, sp.W, -1)
    if C0.shape[2] == 1 and sp.C > 1:
        C0 = np.repeat(C0, sp.C, axis=2)
    a0 = np.zeros((sp.H, sp.W)) if alpha is None else np.asarray(alpha, dtype=np.float64).reshape(sp.H, sp.W)
    P0 = a0[..., None] * C0
    P, a, fg, ag = sp.stack(recipe, P0, a0)
    Pg = P - (1.0 - ag)[..., None] * P0
    return _unpremul(Pg, ag), fg, ag, sp.unstable


# ------------------------------------------------------------------------------------------
# the real compositor
# ------------------------------------------------------------------------------------------
def name_filter(hidden_ok=(), drop=()):
    """layer_filter: the layer's own visibility flag, except that layers named in `hidden_ok` count as visible
    and layers named in `drop` are left out (the compositor asks it top-down, so a layer inside a filtered-out
    group or above a filtered-out clipping base is never asked)"""
    hidden_ok, drop = set(hidden_ok), set(drop)

    def flt(layer):
        return layer.name not in drop and (layer.name in hidden_ok or bool(layer.visible))
    return flt


def recipe_visible(recipe, hidden_ok=(), drop=()):
    """the same filter on recipe nodes (a node inside a filtered-out group is never reached)"""
    hidden_ok, drop = set(hidden_ok), set(drop)
    return lambda n: n.get("name") not in drop and (n.get("name") in hidden_ok or bool(n.get("visible", True)))


def real_composite(psd, viewport=None, color=None, alpha=None, layer_filter=None):
    from psd_tools.composite import composite
    kw = {}
    if color is not None:
        kw["color"] = np.array(color, dtype=np.float32, copy=True)
        kw["alpha"] = np.array(alpha, dtype=np.float32, copy=True)
    if viewport is not None:
        kw["viewport"] = tuple(viewport)
    if layer_filter is not None:
        kw["layer_filter"] = layer_filter
    with np.errstate(all="ignore"):
        c, s, a = composite(psd, **kw)
    return np.asarray(c), np.asarray(s), np.asarray(a)


def build(doc, compression=None, reopen=True):
    from psd_tools.constants import Compression
    comp = Compression.RAW if compression is None else compression
    return pixdoc.build(doc["recipe"], tuple(doc["size"]), doc["mode"], depth=8, compression=comp, reopen=reopen)


# ------------------------------------------------------------------------------------------
# comparison
# ------------------------------------------------------------------------------------------
def compare(real, other, unstable=None, channels=None):
    """real = (c, s, a) of the compositor; other = (c, s, a) of a model.  Returns None or a dict describing
    the worst offending pixel.  Colour is compared premultiplied, only where both alphas exceed ALPHA_MIN."""
    rc, rs, ra = [np.asarray(v, dtype=np.float64) for v in real]
    oc, os_, oa = [np.asarray(v, dtype=np.float64) for v in other]
    rs, ra = rs.reshape(rs.shape[:2]), ra.reshape(ra.shape[:2])
    os_, oa = os_.reshape(os_.shape[:2]), oa.reshape(oa.shape[:2])
    if rc.shape[:2] != oc.shape[:2]:
        return {"what": "size", "real": list(rc.shape), "expected": list(oc.shape)}
    if rc.size == 0:
        return None
    if rc.shape[2] != oc.shape[2]:
        if rc.shape[2] == 1:
            rc = np.repeat(rc, oc.shape[2], axis=2)
        else:
            return {"what": "channels", "real": list(rc.shape), "expected": list(oc.shape)}
    if not (np.isfinite(rc).all() and np.isfinite(rs).all() and np.isfinite(ra).all()):
        return {"what": "non-finite"}
    ok = np.ones(ra.shape, dtype=bool) if unstable is None else ~unstable
    for what, r, o in (("shape", rs, os_), ("alpha", ra, oa)):
        d = np.where(ok, np.abs(r - o), 0.0)
        if d.max() > TOL_ALPHA:
            y, x = np.unravel_index(int(np.argmax(d)), d.shape)
            return {"what": what, "pixel": [int(x), int(y)], "real": float(r[y, x]), "expected": float(o[y, x]), "diff": float(d.max())}
    vis = ok & (ra > ALPHA_MIN) & (oa > ALPHA_MIN)
    d = np.abs(rc * ra[..., None] - oc * oa[..., None]).max(axis=2)
    d = np.where(vis, d, 0.0)
    if d.max() > TOL_COLOR:
        y, x = np.unravel_index(int(np.argmax(d)), d.shape)
        return {"what": "color", "pixel": [int(x), int(y)], "real": rc[y, x].tolist(), "expected": oc[y, x].tolist(),
                "alpha": float(ra[y, x]), "diff": float(d.max())}
    return None


def max_diffs(real, other, unstable=None):
    rc, rs, ra = [np.asarray(v, dtype=np.float64) for v in real]
    oc, os_, oa = [np.asarray(v, dtype=np.float64) for v in other]
    if rc.size == 0 or rc.shape[:2] != oc.shape[:2]:
        return 0.0, 0.0
    ra, oa = ra.reshape(ra.shape[:2]), oa.reshape(oa.shape[:2])
    ok = np.ones(ra.shape, dtype=bool) if unstable is None else ~unstable
    da = float(np.where(ok, np.abs(ra - oa), 0).max())
    vis = ok & (ra > ALPHA_MIN) & (oa > ALPHA_MIN)
    dc = float(np.where(vis, np.abs(rc * ra[..., None] - oc * oa[..., None]).max(axis=2), 0).max())
    return da, dc


def in_unit_interval(real):
    """the `finite and within [0,1]` clause"""
    for nm, v in zip(("color", "shape", "alpha"), real):
        v = np.asarray(v, dtype=np.float64)
        if v.size and not np.isfinite(v).all():
            return {"what": "non-finite", "which": nm}
        if v.size and (v.min() < -1e-6 or v.max() > 1 + 1e-6):
            return {"what": "out-of-range", "which": nm, "min": float(v.min()), "max": float(v.max())}
    return None


# ------------------------------------------------------------------------------------------
# extraction of the per-pixel tree from a real document (public getters only)
# ------------------------------------------------------------------------------------------
BIG = 1 << 20
_S255 = [f"{k}/255" for k in range(256)]


def _rat(v, depth):
    v = float(v)
    if depth == 8:
        k = int(round(v * 255))
        if abs(v - np.float32(k / 255.0)) < 1e-7:
            return _S255[k] if 0 <= k <= 255 else f"{k}/255"
    elif depth == 16:
        k = int(round(v * 65535))
        if abs(v - np.float32(k / 65535.0)) < 1e-9:
            return f"{k}/65535"
    f = Fraction(v)
    return f"{f.numerator}/{f.denominator}"


class OutOfScope(Exception):
    pass


def has_fill(layer):
    """`psd_tools.composite.has_fill`, or the same test when the source no longer exports it"""
    import psd_tools.composite as pc
    f = getattr(pc, "has_fill", None)
    if f is not None:
        return f(layer)
    from psd_tools.constants import Tag
    tags = (Tag.SOLID_COLOR_SHEET_SETTING, Tag.PATTERN_FILL_SETTING, Tag.GRADIENT_FILL_SETTING, Tag.VECTOR_STROKE_CONTENT_DATA)
    return any(t in layer.tagged_blocks for t in tags)


def blend_fn_name(layer):
    from psd_tools.composite.blend import BLEND_FUNC, normal
    return getattr(BLEND_FUNC.get(layer.blend_mode, normal), "__name__", "normal")


class XNode:
    __slots__ = ("kind", "pre", "post", "bbox", "color", "shape", "has_pixels", "mask", "mask_bbox", "children",
                 "clips", "passthrough", "name", "nch")


class XDoc:
    """The layer tree of a document as the compositor reads it, through the getters it uses."""

    def __init__(self, psd, layer_filter=None, check_scope=False):
        from psd_tools.api.layers import Layer
        self.psd = psd
        self.depth = psd.depth
        self.flt = layer_filter or Layer.is_visible
        self.custom_filter = layer_filter is not None and layer_filter is not Layer.is_visible
        self.check_scope = check_scope
        from psd_tools.api.numpy_io import EXPECTED_CHANNELS
        self.nch = EXPECTED_CHANNELS[psd.color_mode]
        self.mode = {1: "L", 3: "RGB", 4: "CMYK"}.get(self.nch, "RGB")
        self.modes_used = set()
        self.layers = [self.node(l) for l in psd]

    def scope(self, layer):
        from psd_tools.api.layers import AdjustmentLayer
        if isinstance(layer, AdjustmentLayer):
            raise OutOfScope(f"adjustment layer {layer.kind}")
        if layer.kind not in ("pixel", "group", "type", "smartobject"):
            raise OutOfScope(f"layer kind {layer.kind}")
        if layer.has_vector_mask():
            raise OutOfScope("vector mask")
        if layer.has_effects():
            raise OutOfScope("effects")
        if has_fill(layer):
            raise OutOfScope("fill")
        if layer.has_stroke():
            raise OutOfScope("stroke")
        if layer.mask is not None and layer.mask._has_real():
            raise OutOfScope("real (combined) mask")

    def node(self, layer):
        from psd_tools.api.layers import GroupMixin
        from psd_tools.constants import BlendMode, Tag
        if self.check_scope:
            self.scope(layer)
        n = XNode()
        n.name = layer.name
        n.bbox = tuple(int(v) for v in layer.bbox)
        d = self.depth
        opacity = f"{int(layer.opacity)}/255"
        fill = f"{int(layer.tagged_blocks.get_data(Tag.BLEND_FILL_OPACITY, 255))}/255"
        n.mask, n.mask_bbox = None, (0, 0, 0, 0)
        has_mask, mbg, mden = False, "0", "1"
        m = layer.mask
        if m is not None and not m.disabled:
            has_mask = True
            arr = layer.numpy("mask", real_mask=True)
            if arr is not None:
                n.mask = arr
                n.mask_bbox = tuple(int(v) for v in m.bbox)
            else:
                n.mask_bbox = (-BIG, -BIG, BIG, BIG)       # no mask pixels: the shape factor stays 1.0
            mbg = f"{int(m.background_color)}/255"
            if m.parameters:
                den = m.parameters.user_mask_density
                if den is None:
                    den = m.parameters.vector_mask_density
                if den is None:
                    den = 255
                mden = f"{int(den)}/255"
        fn = blend_fn_name(layer)
        self.modes_used.add(fn)
        knockout = bool(layer.tagged_blocks.get_data(Tag.KNOCKOUT_SETTING, 0))
        b = lambda v: "1" if v else "0"
        n.pre = [b(self.flt(layer)), *map(str, n.bbox), opacity, fill, b(has_mask), *map(str, n.mask_bbox)]
        n.post = [mbg, mden, fn, b(knockout), b(layer.clipping_layer), b(layer._has_clip_target)]
        n.clips = [self.node(c) for c in layer.clip_layers]
        if isinstance(layer, GroupMixin):
            n.kind = "G"
            n.passthrough = layer.blend_mode == BlendMode.PASS_THROUGH
            n.children = [self.node(c) for c in layer]
            if self.custom_filter and layer.kind != "artboard":
                # with a filter of its own the compositor lets a group span the children that filter accepts
                # (the cached Group.bbox spans the visible ones)
                boxes = [c.bbox for c in n.children if c.pre[0] == "1" and c.bbox != (0, 0, 0, 0)]
                n.bbox = (min(b[0] for b in boxes), min(b[1] for b in boxes), max(b[2] for b in boxes),
                          max(b[3] for b in boxes)) if boxes else (0, 0, 0, 0)
                n.pre[1:5] = map(str, n.bbox)
        else:
            n.kind = "L"
            n.color = layer.numpy("color")
            n.shape = layer.numpy("shape")
            n.has_pixels = n.color is not None
            if n.color is None and n.shape is not None:
                raise OutOfScope("shape without colour")
            n.nch = 0 if n.color is None else n.color.shape[2]
        return n

    def tokens(self, n, x, y, out):
        out.append(n.kind)
        out += n.pre
        mv = "1"
        if n.mask is not None:
            l, t, r, b = n.mask_bbox
            if l <= x < r and t <= y < b:
                mv = _rat(n.mask[y - t, x - l, 0], 8)
        out.append(mv)
        out += n.post
        if n.kind == "L":
            l, t, r, b = n.bbox
            inside = n.has_pixels and l <= x < r and t <= y < b and (y - t) < n.color.shape[0] and (x - l) < n.color.shape[1]
            out.append("1" if n.has_pixels else "0")
            if inside:
                px = n.color[y - t, x - l]
                out.append(str(len(px)))
                out += [_rat(v, self.depth) for v in px]
                # a layer without a transparency channel is opaque inside its box
                out.append("1" if n.shape is None else _rat(n.shape[y - t, x - l, 0], self.depth))
            else:
                out += ["1", "1", "0"]
        else:
            out.append("1" if n.passthrough else "0")
            out.append(str(len(n.children)))
            for c in n.children:
                self.tokens(c, x, y, out)
        out.append(str(len(n.clips)))
        for c in n.clips:
            self.tokens(c, x, y, out)

    def request(self, V, x, y, color_px=None, alpha_px=None):
        """the `comp.pixel` field for pixel (x, y) of viewport V"""
        out = [self.mode, *map(str, V), str(x), str(y), str(self.nch)]
        if color_px is None:
            out += ["1"] * self.nch
            out.append("0")
        else:
            cp = list(color_px)
            if len(cp) == 1:
                cp = cp * self.nch
            out += [_rat(v, 0) for v in cp]
            out.append(_rat(alpha_px, 0))
        out.append(str(len(self.layers)))
        for n in self.layers:
            self.tokens(n, x, y, out)
        return " ".join(out)

    def requests(self, V, color=None, alpha=None, pixels=None):
        V = tuple(int(v) for v in V)
        if pixels is None:
            pixels = [(x, y) for y in range(V[1], V[3]) for x in range(V[0], V[2])]
        reqs = []
        for x, y in pixels:
            if color is None:
                reqs.append(("comp.pixel", self.request(V, x, y)))
            else:
                reqs.append(("comp.pixel", self.request(V, x, y, color[y - V[1], x - V[0]], alpha[y - V[1], x - V[0], 0])))
        return pixels, reqs


def parse_answers(answers, pixels, V, nch):
    """model answers -> (c, s, a) float64 arrays over V (NaN where no pixel was asked), or an error string"""
    H, W = V[3] - V[1], V[2] - V[0]
    c = np.full((H, W, nch), np.nan)
    s = np.full((H, W), np.nan)
    a = np.full((H, W), np.nan)
    for (x, y), ans in zip(pixels, answers):
        if ans[0] != "ok":
            return "\t".join(ans)
        cs, sh, al = ans[1].split(" ")
        c[y - V[1], x - V[0]] = [_f(t) for t in cs.split(",")]
        s[y - V[1], x - V[0]] = _f(sh)
        a[y - V[1], x - V[0]] = _f(al)
    return c, s, a


def _f(s):
    n, _, d = s.partition("/")
    return int(n) / int(d) if d else float(int(n))


def compare_sampled(real, model, pixels, V, unstable=None):
    """compare only at the pixels the model was asked for"""
    mask = np.zeros(model[1].shape, dtype=bool)
    for x, y in pixels:
        mask[y - V[1], x - V[0]] = True
    mc, ms, ma = model
    uns = ~mask if unstable is None else (unstable | ~mask)
    return compare(real, (np.nan_to_num(mc), np.nan_to_num(ms), np.nan_to_num(ma)), uns)


# ------------------------------------------------------------------------------------------
# document -> recipe (for fixtures in scope)
# ------------------------------------------------------------------------------------------
def psd_to_recipe(psd):
    """recipe of a real document whose layers are all inside the modelled scope (8-bit)"""
    from psd_tools.constants import BlendMode, Tag
    from psd_tools.api.layers import GroupMixin

    def u8(a):
        return np.clip(np.rint(np.asarray(a, dtype=np.float64) * 255.0), 0, 255).astype(np.uint8)

    def conv(layers):
        out = []
        for l in layers:
            n = {"t": "group" if isinstance(l, GroupMixin) else "pixel", "name": l.name,
                 "opacity": int(l.opacity), "fill": int(l.tagged_blocks.get_data(Tag.BLEND_FILL_OPACITY, 255)),
                 "visible": bool(l.visible), "clip": bool(l.clipping_layer),
                 "knockout": bool(l.tagged_blocks.get_data(Tag.KNOCKOUT_SETTING, 0)), "blend": l.blend_mode.name}
            if n["t"] == "group":
                n["children"] = conv(l)
                out.append(n)
                continue
            color, shape = l.numpy("color"), l.numpy("shape")
            if color is None:
                continue          # a layer without pixels contributes nothing
            n["rect"] = list(l.bbox)
            n["color"] = u8(color)
            n["alpha"] = None if shape is None else u8(shape[:, :, 0])
            n["mask"] = None
            m = l.mask
            if m is not None:
                arr = l.numpy("mask", real_mask=True)
                den = None
                if m.parameters:
                    den = m.parameters.user_mask_density
                    if den is None:
                        den = m.parameters.vector_mask_density
                if arr is not None:
                    n["mask"] = {"rect": list(m.bbox), "bg": int(m.background_color), "data": u8(arr[:, :, 0]),
                                 "disabled": bool(m.disabled), "density": den}
            out.append(n)
        return out
    return conv(psd)


# ------------------------------------------------------------------------------------------
# features, shrinking, classification
# ------------------------------------------------------------------------------------------
def features(doc):
    """the features of a recipe that select code paths of the compositor"""
    W, H = doc["size"]
    f = set()

    def rec(nodes, inside_group):
        seen_base = False
        for n in nodes:
            if n.get("clip"):
                f.add("clip-run" if seen_base else "clip-orphan")
            else:
                seen_base = True
            if n.get("knockout"):
                f.add("knockout")
            if n.get("opacity", 255) != 255:
                f.add("opacity")
            if n.get("fill") not in (None, 255):
                f.add("fill")
            if not n.get("visible", True):
                f.add("hidden")
            b = n.get("blend", "NORMAL")
            mk = n.get("mask")
            if mk and not mk.get("disabled"):
                f.add("mask")
            if n["t"] == "group":
                f.add("group-passthrough" if b == "PASS_THROUGH" else "group-isolated")
                if b not in ("PASS_THROUGH", "NORMAL"):
                    f.add("blend")
                rec(n["children"], True)
            else:
                if b != "NORMAL":
                    f.add("blend")
                if n.get("alpha") is None:
                    f.add("no-alpha-channel")
                elif (np.asarray(n["alpha"]) < 255).any():
                    f.add("partial-alpha")
                l, t, r, b2 = n["rect"]
                if l >= W or t >= H or r <= 0 or b2 <= 0:
                    f.add("outside")
                elif [l, t, r, b2] != [0, 0, W, H]:
                    f.add("offset")
    rec(doc["recipe"], False)
    return f


FEATURE_ORDER = ["clip-run", "clip-orphan", "knockout", "mask", "group-isolated", "group-passthrough", "no-alpha-channel",
                 "blend", "fill", "opacity", "partial-alpha", "offset", "outside", "hidden"]


def feature_sig(doc, extra=()):
    f = features(doc) | set(extra)
    return "+".join(k for k in FEATURE_ORDER + sorted(set(extra) - set(FEATURE_ORDER)) if k in f) or "plain"


def blend_modes(doc):
    return sorted({n.get("blend", "NORMAL") for n in walk(doc["recipe"]) if n.get("blend", "NORMAL") not in ("NORMAL", "PASS_THROUGH")})


def _paths(nodes, prefix=()):
    for i, n in enumerate(nodes):
        yield prefix + (i,)
        if n["t"] == "group":
            yield from _paths(n["children"], prefix + (i,))


def _get_list(recipe, path):
    lst = recipe
    for i in path[:-1]:
        lst = lst[i]["children"]
    return lst


def shrink_doc(doc, fails, budget=250):
    """greedy structural shrinking: drop nodes, flatten groups, neutralise attributes, while `fails(doc)`"""
    doc = copy.deepcopy(doc)
    calls = [0]

    def test(d):
        if calls[0] >= budget or not d["recipe"]:
            return False
        calls[0] += 1
        try:
            return bool(fails(d))
        except Exception:
            return False

    changed = True
    while changed and calls[0] < budget:
        changed = False
        # 1. drop a node / flatten a group
        for path in sorted(_paths(doc["recipe"]), key=lambda p: (-len(p), p)):
            for op in ("drop", "flatten"):
                d2 = copy.deepcopy(doc)
                lst = _get_list(d2["recipe"], path)
                i = path[-1]
                if i >= len(lst):
                    continue
                if op == "drop":
                    del lst[i]
                elif lst[i]["t"] == "group":
                    lst[i:i + 1] = lst[i]["children"]
                else:
                    continue
                if test(d2):
                    doc, changed = d2, True
                    break
            if changed:
                break
        if changed:
            continue
        # 2. neutralise attributes
        for path in list(_paths(doc["recipe"])):
            n0 = _get_list(doc["recipe"], path)[path[-1]]
            cands = []
            if n0.get("opacity", 255) != 255: cands.append(("opacity", 255))
            if n0.get("fill") is not None: cands.append(("fill", None))
            if n0.get("knockout"): cands.append(("knockout", False))
            if n0.get("clip"): cands.append(("clip", False))
            if n0.get("blend") not in ("NORMAL", "PASS_THROUGH", None): cands.append(("blend", "NORMAL"))
            if n0["t"] == "group" and n0.get("blend") == "NORMAL": cands.append(("blend", "PASS_THROUGH"))
            if n0.get("mask"): cands.append(("mask", None))
            fx0 = n0.get("effects")
            if fx0:
                cands.append(("effects", None))
                for k in range(len(fx0.get("items", []))):
                    if len(fx0["items"]) > 1:
                        cands.append(("effects", dict(fx0, items=fx0["items"][:k] + fx0["items"][k + 1:])))
                for k, e in enumerate(fx0.get("items", [])):
                    if e.get("blend", "Nrml") != "Nrml":
                        cands.append(("effects", dict(fx0, items=fx0["items"][:k] + [dict(e, blend="Nrml")] + fx0["items"][k + 1:])))
            if n0["t"] == "fill":
                if n0.get("vmask"): cands.append(("vmask", None))
                if n0.get("pixels") is not None: cands.append(("pixels", None))
            if n0["t"] == "pixel":
                if n0.get("alpha") is not None and (np.asarray(n0["alpha"]) < 255).any():
                    cands.append(("alpha", np.full(np.asarray(n0["alpha"]).shape, 255, np.uint8)))
                W, H = doc["size"]
                if n0["rect"] != [0, 0, W, H]: cands.append(("rect", [0, 0, W, H]))
            for k, v in cands:
                d2 = copy.deepcopy(doc)
                n = _get_list(d2["recipe"], path)[path[-1]]
                if k == "rect":
                    W, H = doc["size"]
                    ch = np.asarray(n0["color"]).shape[2]
                    n["rect"] = v
                    n["color"] = np.empty((H, W, ch), np.uint8)
                    n["color"][...] = np.asarray(n0["color"]).reshape(-1, ch)[0]
                    n["alpha"] = None if n0.get("alpha") is None else np.full((H, W), int(np.asarray(n0["alpha"]).max()), np.uint8)
                    n["mask"] = None
                else:
                    n[k] = v
                if test(d2):
                    doc, changed = d2, True
                    break
            if changed:
                break
    return doc


def save_reopen(psd):
    from psd_tools import PSDImage
    buf = io.BytesIO()
    psd.save(buf)
    buf.seek(0)
    return PSDImage.open(buf)


# ------------------------------------------------------------------------------------------
# one case = one call of the real compositor (+ oracle + model requests); runs in a pool worker
# ------------------------------------------------------------------------------------------
def name_nodes(recipe, prefix="n"):
    """unique names (the filters and the reports address layers by name)"""
    for k, n in enumerate(walk(recipe)):
        n["name"] = f"{prefix}{k}"
    return recipe


def eval_case(case):
    """case: {doc, viewport?, backdrop?: (color, alpha), filter?: {hidden_ok, drop}, compression?, want_model, want_spec}
    -> {real, V, spec: (mismatch|None, unstable, (da, dc)), reqs, pixels, error}"""
    from psd_tools.constants import Compression
    doc = case["doc"]
    out = {"error": None, "real": None, "spec": None, "reqs": None, "pixels": None}
    W, H = doc["size"]
    V = tuple(case.get("viewport") or (0, 0, W, H))
    out["V"] = V
    bd = case.get("backdrop")
    flt = case.get("filter")
    try:
        comp = case.get("compression")
        psd = build(doc, compression=None if comp is None else Compression[comp])
        lf = name_filter(**flt) if flt else None
        real = real_composite(psd, viewport=case.get("viewport"), color=None if bd is None else bd[0],
                              alpha=None if bd is None else bd[1], layer_filter=lf)
        out["real"] = real
    except Exception as e:  # the implementation raised (or no longer has the entry point): a failing input by itself
        import traceback
        tb = traceback.extract_tb(e.__traceback__)
        inrepo = [f for f in tb if str(core.REPO) in f.filename]
        where = f"{inrepo[-1].filename.split('/src/')[-1]}:{inrepo[-1].name}" if inrepo else "call of psd_tools.composite.composite"
        out["error"] = {"type": type(e).__name__, "msg": str(e)[:200], "where": where, "in_repo": True}
        return out
    if case.get("want_spec", True):
        try:
            sc, ss, sa, uns = spec_composite(doc["recipe"], V, doc["mode"], None if bd is None else bd[0],
                                             None if bd is None else bd[1][..., 0],
                                             recipe_visible(doc["recipe"], **flt) if flt else None)
            out["spec"] = (compare(real, (sc, ss, sa), uns), uns, max_diffs(real, (sc, ss, sa), uns))
        except NotImplementedError:
            out["spec"] = None
    if case.get("want_model", True):
        try:
            xd = XDoc(psd, lf)
            pixels, reqs = xd.requests(V, None if bd is None else bd[0], None if bd is None else bd[1])
            out["pixels"], out["reqs"], out["nch"] = pixels, reqs, xd.nch
        except Exception as e:  # a getter the compositor uses raised / returned something unexpected
            out["error"] = {"type": type(e).__name__, "msg": str(e)[:200], "where": "extraction", "in_repo": True}
    return out


def run_cases(cases, workers=12):
    if len(cases) < 8 or workers <= 1:
        return [eval_case(c) for c in cases]
    import multiprocessing as mp
    with mp.get_context("fork").Pool(workers) as pool:
        return pool.map(eval_case, cases, chunksize=max(1, len(cases) // (workers * 8)))


# ------------------------------------------------------------------------------------------
# (added) the non-separable modes where ClipColor is active: designed colour pairs through the real compositor
# ------------------------------------------------------------------------------------------
# saturated primaries / secondaries, a dark and a bright tinted colour, two mid colours: SetLum of a saturated colour to a
# much darker luminosity leaves the cube below 0, to a much brighter one above 1 (never both: the range of a colour is <= 1)
CLIP_PALETTE = [(255, 0, 0), (0, 255, 0), (0, 0, 255), (255, 255, 0), (255, 0, 255), (24, 12, 6), (250, 240, 222), (200, 60, 90)]
CLIP_MODES = ["HUE", "SATURATION", "COLOR", "LUMINOSITY", "DARKER_COLOR", "LIGHTER_COLOR"]
CLIP_VARIANTS = ["opaque", "translucent", "in-isolated-group", "in-passthrough-group", "clip-layer", "group-blend"]


def _px_node(rect, color, alpha=None, **kw):
    l, t, r, b = rect
    n = {"t": "pixel", "rect": list(rect), "color": np.ascontiguousarray(color, dtype=np.uint8),
         "alpha": None if alpha is None else np.ascontiguousarray(alpha, dtype=np.uint8),
         "opacity": 255, "fill": None, "blend": "NORMAL", "visible": True, "clip": False, "knockout": False, "mask": None}
    n.update(kw)
    return n


def _group_node(children, blend="PASS_THROUGH", **kw):
    n = {"t": "group", "blend": blend, "opacity": 255, "fill": None, "visible": True, "clip": False, "knockout": False,
         "mask": None, "children": children}
    n.update(kw)
    return n


def pair_grid(palette):
    """(backdrop colours, source colours) as (n, n, 3) uint8 arrays: pixel (x, y) pairs backdrop palette[y] with source palette[x]"""
    p = np.asarray(palette, dtype=np.uint8)
    n = len(p)
    return np.repeat(p[:, None, :], n, axis=1), np.repeat(p[None, :, :], n, axis=0)


def nonsep_doc(mode_name, variant, palette=None):
    """an RGB document whose top element blends every ordered pair of `palette` with the non-separable mode `mode_name`"""
    cb, cs = pair_grid(palette or CLIP_PALETTE)
    n = cb.shape[0]
    R = [0, 0, n, n]
    full = np.full((n, n), 255, np.uint8)
    if variant == "opaque":
        recipe = [_px_node(R, cb, full), _px_node(R, cs, None, blend=mode_name)]
    elif variant == "translucent":
        a = np.full((n, n), 160, np.uint8)
        a[::2, 1::2] = 255
        recipe = [_px_node(R, cb, np.full((n, n), 200, np.uint8)), _px_node(R, cs, a, blend=mode_name, opacity=200)]
    elif variant == "in-isolated-group":
        recipe = [_px_node(R, cb, full), _group_node([_px_node(R, cb, full), _px_node(R, cs, full, blend=mode_name)], "NORMAL")]
    elif variant == "in-passthrough-group":
        recipe = [_px_node(R, cb, full), _group_node([_px_node(R, cs, full, blend=mode_name, opacity=230)], "PASS_THROUGH")]
    elif variant == "clip-layer":
        recipe = [_px_node(R, cb, full), _px_node(R, cs, full, blend=mode_name, clip=True)]
    elif variant == "group-blend":
        recipe = [_px_node(R, cb, full), _group_node([_px_node(R, cs, full)], mode_name)]
    else:
        raise KeyError(variant)
    doc = {"recipe": recipe, "size": [n, n], "mode": "RGB", "family": "nonsep/%s/%s" % (mode_name, variant)}
    name_nodes(doc["recipe"])
    return doc


def nonsep_docs(rng=None, extra=0):
    """the deterministic documents (every non-separable mode x every variant over CLIP_PALETTE) and `extra` seeded ones
    whose palette is drawn from `rng` (saturated colours with jitter, dark / bright tinted colours)"""
    docs = [nonsep_doc(m, v) for m in CLIP_MODES for v in CLIP_VARIANTS]
    for k in range(extra):
        pal = []
        for _ in range(6):
            hi, lo = rng.randrange(215, 256), rng.randrange(0, 41)
            c = [lo, lo, lo]
            for i in rng.sample(range(3), rng.choice([1, 1, 2])):
                c[i] = hi
            c[rng.randrange(3)] = max(0, min(255, c[rng.randrange(3)] + rng.randrange(-30, 31)))
            pal.append(tuple(c))
        d = rng.randrange(2, 40)
        pal.append((d + rng.randrange(0, 12), d, max(0, d - rng.randrange(0, 12))))
        b = rng.randrange(215, 250)
        pal.append((min(255, b + rng.randrange(0, 6)), b, b - rng.randrange(4, 30)))
        docs.append(nonsep_doc(CLIP_MODES[k % 4], CLIP_VARIANTS[(k // 4 + k) % len(CLIP_VARIANTS)], pal))
    return docs


def clip_classes(mode_name, cb, cs):
    """per colour pair (float arrays (..., 3) in [0,1]): 'below' / 'above' / 'inside' - where SetLum's intermediate colour lies
    relative to the unit cube BEFORE ClipColor (the published procedure, float64); None for the two selecting modes"""
    from props.C12 import s_lum, s_sat, s_setsat
    fn = mode_name.lower()
    cb, cs = np.asarray(cb, dtype=np.float64), np.asarray(cs, dtype=np.float64)
    with np.errstate(all="ignore"):
        if fn == "hue":
            c, l = s_setsat(cs, s_sat(cb)), s_lum(cb)
        elif fn == "saturation":
            c, l = s_setsat(cb, s_sat(cs)), s_lum(cb)
        elif fn == "color":
            c, l = cs, s_lum(cb)
        elif fn == "luminosity":
            c, l = cb, s_lum(cs)
        else:
            return None
        c = np.nan_to_num(c)
        c2 = c + (l - s_lum(c))[..., None]
    out = np.full(c2.shape[:-1], "inside", dtype=object)
    out[c2.min(-1) < -1e-3] = "below"
    out[c2.max(-1) > 1 + 1e-3] = "above"
    return out


# ------------------------------------------------------------------------------------------
# (added) repeated composites of ONE object: same answer every time, same as a freshly opened twin, results not aliased
# ------------------------------------------------------------------------------------------
def _same(a, b):
    """two composite results (c, s, a) are the same arrays, bit for bit (NaN = NaN)"""
    for x, y in zip(a, b):
        x, y = np.asarray(x), np.asarray(y)
        if x.shape != y.shape or not np.array_equal(x, y, equal_nan=True):
            return False
    return True


def _first_diff(a, b):
    for nm, x, y in zip(("color", "shape", "alpha"), a, b):
        x, y = np.asarray(x, dtype=np.float64), np.asarray(y, dtype=np.float64)
        if x.shape != y.shape:
            return {"which": nm, "shape_now": list(x.shape), "shape_expected": list(y.shape)}
        d = np.abs(np.nan_to_num(x) - np.nan_to_num(y))
        if x.size and (d.max() > 0 or not np.array_equal(np.isnan(x), np.isnan(y))):
            i = np.unravel_index(int(np.argmax(d)), d.shape)
            return {"which": nm, "pixel": [int(i[1]), int(i[0])], "now": float(x[i]), "expected": float(y[i]), "diff": float(d.max())}
    return None


def _copy3(r):
    return tuple(np.array(v, copy=True) for v in r)


def repeat_viewports(doc):
    """the canvas, the box of every pixel node (a layer that fills the viewport exactly), a crop and a shifted window"""
    W, H = doc["size"]
    vs = [None]
    for n in walk(doc["recipe"]):
        if n["t"] != "group":
            l, t, r, b = n["rect"]
            if r > l and b > t and [l, t, r, b] != [0, 0, W, H] and (l, t, r, b) not in vs:
                vs.append((l, t, r, b))
    vs = vs[:3]
    if W > 1 or H > 1:
        vs.append((0, 0, max(1, W - 1), max(1, H - 1)))
    vs.append((-1, -1, W, H + 1))
    return vs


def _scribble(arr):
    """overwrite an array handed out by the library (what a caller may legitimately do with a result); False if read-only"""
    try:
        if not arr.flags.writeable:
            return False
        arr[...] = 0.3 if arr.dtype.kind == "f" else 77
        return True
    except Exception:  # noqa
        return False


def eval_repeat(case):
    """One PSDImage object A, a script of calls; every answer is compared with the FIRST answer of a freshly built twin to
    the same call (the twin is rebuilt for every call, so it has no history).  Script: composite(A) three times; composite of
    every layer / group (twice each); composite(A) under several viewports (twice each); numpy() / topil() of every layer and
    of the document, scribbling over what is returned, and asking again; scribbling over the arrays composite() returned;
    finally composite(A) once more.  -> {"error"|None, "problems": [ {what, call, step, detail} ], "calls": n}"""
    from psd_tools.composite import composite
    doc = case["doc"]
    bd, flt = case.get("backdrop"), case.get("filter")
    out = {"error": None, "problems": [], "calls": 0, "script": []}
    lf = name_filter(**flt) if flt else None

    def doc_call(psd, viewport=None):
        return real_composite(psd, viewport=viewport, color=None if bd is None else bd[0],
                              alpha=None if bd is None else bd[1], layer_filter=lf)

    def layer_call(psd, k, **kw):
        layer = list(psd.descendants())[k]
        with np.errstate(all="ignore"):
            return tuple(np.asarray(v) for v in composite(layer, **kw))

    def problem(what, call, now, want):
        out["problems"].append({"what": what, "call": call, "step": len(out["script"]), "detail": _first_diff(now, want)})

    try:
        A = build(doc)
        nlayers = len(list(A.descendants()))
        only = case.get("only")          # (shrinking) restrict the script to the kinds of calls named
        fresh = {}

        def twin(key, f):
            if key not in fresh:
                fresh[key] = _copy3(f(build(doc)))
            return fresh[key]

        def step(kind, key, fA, fB, times=2):
            if only and kind not in only:
                return None
            want = twin(key, fB)
            last = None
            for k in range(times):
                out["script"].append(key)
                out["calls"] += 1
                last = fA()
                if not _same(last, want):
                    problem("%s-differs-from-fresh-document/%s" % (kind, "first-call" if len(out["script"]) == 1
                                                                  else "after-earlier-calls"), key, last, want)
                    return last
            return last

        first = step("composite", "composite(psd)", lambda: doc_call(A), lambda p: doc_call(p), times=3)
        for k in range(min(nlayers, 6)):
            step("layer-composite", "composite(layer %d)" % k, lambda k=k: layer_call(A, k), lambda p, k=k: layer_call(p, k))
            if out["problems"]:
                break
        if not out["problems"]:
            for k in range(min(nlayers, 3)):
                step("layer-composite", "composite(layer %d, as_layer=True)" % k, lambda k=k: layer_call(A, k, as_layer=True),
                     lambda p, k=k: layer_call(p, k, as_layer=True), times=1)
        if not out["problems"]:
            # (a backdrop array is made for the canvas: with one, only the canvas is a legal viewport)
            for v in (repeat_viewports(doc) if bd is None else [None]):
                step("viewport-composite", "composite(psd, viewport=%s)" % (list(v) if v else None),
                     lambda v=v: doc_call(A, v), lambda p, v=v: doc_call(p, v))
                if out["problems"]:
                    break
        # results handed to the caller are the caller's: overwriting them must not change later answers
        if not out["problems"] and (not only or "aliasing" in only):
            ls = list(A.descendants())
            for k, layer in enumerate(ls[:6]):
                for ch in ("color", "shape", None, "mask"):
                    call = "layer %d .numpy(%r)" % (k, ch)
                    try:
                        a = layer.numpy(ch) if ch != "mask" else (layer.numpy("mask") if layer.has_mask() else None)
                    except Exception:  # noqa  (what numpy() accepts is C07's business)
                        a = None
                    if a is None:
                        continue
                    keep = np.array(a, copy=True)
                    out["script"].append(call + " scribbled")
                    if not _scribble(a):
                        continue
                    b = layer.numpy(ch)
                    out["calls"] += 1
                    if b is None or b.shape != keep.shape or not np.array_equal(b, keep, equal_nan=True):
                        problem("returned-array-aliased/layer.numpy", call, (np.asarray(b, dtype=np.float64),), (keep,))
                        break
                if out["problems"]:
                    break
            if not out["problems"] and first is not None:
                keep = _copy3(first)
                out["script"].append("arrays returned by composite(psd) scribbled")
                for v in first:
                    _scribble(v)
                for ch in (None, "shape"):
                    try:
                        v = A.numpy(ch)
                    except Exception:  # noqa  (a document without merged image: C17's business)
                        v = None
                    if v is not None:
                        _scribble(v)
                again = doc_call(A)
                out["calls"] += 1
                if not _same(again, keep):
                    problem("returned-array-aliased/composite", "composite(psd) after overwriting earlier results", again, keep)
        if not out["problems"] and first is not None:
            step("composite", "composite(psd)", lambda: doc_call(A), lambda p: doc_call(p), times=1)
    except Exception as e:  # the implementation raised somewhere in the script
        import traceback
        tb = traceback.extract_tb(e.__traceback__)
        inrepo = [f for f in tb if str(core.REPO) in f.filename]
        where = f"{inrepo[-1].filename.split('/src/')[-1]}:{inrepo[-1].name}" if inrepo else "harness"
        out["error"] = {"type": type(e).__name__, "msg": str(e)[:200], "where": where, "in_repo": bool(inrepo),
                        "after": out["script"][-3:]}
    return out


def run_repeat(cases, workers=12):
    if len(cases) < 8 or workers <= 1:
        return [eval_repeat(c) for c in cases]
    import multiprocessing as mp
    with mp.get_context("fork").Pool(workers) as pool:
        return pool.map(eval_repeat, cases, chunksize=max(1, len(cases) // (workers * 8)))


def repeat_docs():
    """documents made for the repeated-composite check: a layer that fills the canvas (so its box IS the viewport), with a
    transparency channel and a raster mask with grey values (0 / 255 masks are idempotent under repeated application), alone,
    with density, in a group that carries the mask, as a clipping base and as a clip layer; RGB and L"""
    docs = []
    for mode, n in (("RGB", 4), ("L", 3), ("CMYK", 3)):
        C = MODE_CH[mode]
        r = np.random.RandomState(4242 + n + C)
        R = [0, 0, n, n]

        def col():
            return r.randint(0, 256, size=(n, n, C)).astype(np.uint8)

        def alpha():
            return r.choice([60, 128, 200, 255], size=(n, n)).astype(np.uint8)

        def mask(rect=R, **kw):
            m = {"rect": list(rect), "bg": 0, "data": r.choice([40, 90, 128, 200], size=(rect[3] - rect[1], rect[2] - rect[0])).astype(np.uint8),
                 "disabled": False, "density": None}
            m.update(kw)
            return m
        fams = {
            "masked-full-layer": [_px_node(R, col(), alpha(), mask=mask())],
            "masked-full-layer-over-base": [_px_node(R, col(), None), _px_node(R, col(), alpha(), mask=mask(), opacity=200)],
            "masked-layer-density": [_px_node(R, col(), None), _px_node(R, col(), alpha(), mask=mask(density=128, bg=255))],
            "masked-offset-layer": [_px_node(R, col(), None), _px_node([1, 0, n, n - 1], col()[:n - 1, :n - 1], alpha()[:n - 1, :n - 1],
                                                                    mask=mask([1, 0, n, n - 1]))],
            "masked-group": [_px_node(R, col(), None), _group_node([_px_node(R, col(), alpha())], "NORMAL", mask=mask())],
            "masked-passthrough-group": [_px_node(R, col(), alpha()), _group_node([_px_node(R, col(), alpha(), mask=mask())],
                                                                                 "PASS_THROUGH", mask=mask(), opacity=180)],
            "masked-clip-base": [_px_node(R, col(), alpha(), mask=mask()), _px_node(R, col(), alpha(), clip=True)],
            "masked-clip-layer": [_px_node(R, col(), alpha()), _px_node(R, col(), alpha(), clip=True, mask=mask())],
        }
        for fam, recipe in fams.items():
            d = {"recipe": recipe, "size": [n, n], "mode": mode, "family": "repeat/" + fam}
            name_nodes(d["recipe"])
            docs.append(d)
    return docs
