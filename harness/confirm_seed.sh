#!/bin/sh
# usage: harness/confirm_seed.sh <prop> <i> [name]  -- confirm seeded change i of /tmp/m/<prop>/out in the scratch worktree
# /tmp/m/<prop>/repo (suite still passes with the patch, demo fails with it and passes without), run the check against it
# in /repo (apply, check, revert), and file it under /verif/seeded/<prop>-<i>/.
prop="$1"; i="$2"; base=${MBASE:-/tmp/m}/$prop; wt=$base/repo; out=$base/out
dest=/verif/seeded/$prop-${3:-$i}
cd "$wt" || exit 2
git checkout -q -- . ; git apply "$out/patch_$i.diff" || { echo "patch does not apply"; exit 2; }
PYTHONPATH=$wt/src timeout 3000 /venv/bin/python -m pytest -q -p no:cacheprovider -n 12 tests 2>&1 | grep -E "^(FAILED|ERROR)|passed|failed" | tail -5 > /tmp/confirm.$$.suite
suite=$(tail -1 /tmp/confirm.$$.suite); failed=$(grep -c "^FAILED\|^ERROR" /tmp/confirm.$$.suite)
PYTHONPATH=$wt/src timeout 900 /venv/bin/python "$out/demo_$i.py" > /tmp/confirm.$$.demo1 2>&1; d1=$?
git checkout -q -- .
PYTHONPATH=$wt/src timeout 900 /venv/bin/python "$out/demo_$i.py" > /tmp/confirm.$$.demo0 2>&1; d0=$?
echo "suite with patch: $suite (FAILED lines: $failed)"; grep "^FAILED\|^ERROR" /tmp/confirm.$$.suite
echo "demo with patch exit=$d1, without exit=$d0"
cd "${SEED_VERIF:-/verif}"
res=$(harness/seedtest.sh "$out/patch_$i.diff" "$prop" 2>&1)
echo "$res"
mkdir -p "$dest"
cp "$out/patch_$i.diff" "$dest/patch.diff"; cp "$out/demo_$i.py" "$dest/demo.py"
/venv/bin/python - "$out/meta_$i.json" "$dest/meta.json" "$suite" "$failed" "$d1" "$d0" "$res" <<'PY'
import json,sys
src,dst,suite,failed,d1,d0,res=sys.argv[1:8]
m=json.load(open(src))
m["confirmed_by_maintainer"]={
 "suite_with_patch": suite, "failed_tests_with_patch": int(failed), "expected_baseline_failures": 1,
 "demo_exit_with_patch": int(d1), "demo_exit_without_patch": int(d0),
 "ran": ["git apply patch in scratch worktree; full pytest suite with PYTHONPATH=<worktree>/src; demo.py with and without the patch",
         "harness/seedtest.sh patch.diff <prop>: git -C /repo apply; ./check <prop> --tier quick; git -C /repo checkout -- ."],
 "check_output": res.strip().splitlines()}
json.dump(m,open(dst,"w"),indent=1)
PY
rm -f /tmp/confirm.$$.*
