"""C03, widened writer entry points and oracles (added after the seeded changes C03-1/2/3 were missed).

Everything here produces BYTES WITH THE REAL WRITER and judges them without the library's reader:

* `spec_layers` / `layer_channel_problems`: a Python reading of the layer records from the Adobe
  specification (rectangles, channel ids/lengths, mask rectangles), used to check every stored channel
  against its geometry: raw size, RLE row table (exactly `height` entries of the version's width, summing
  to the rest of the channel), zip size. It also descends into Lr16/Lr32 blocks, which the Lean walker
  only crosses by their length. Validated on the Photoshop-written fixtures on every run.
* `bigkey_documents`: one tiny document per (version, tagged-block key, level): the key under test followed by
  an ordinary block, at document level and inside a layer record. A length field whose width differs
  from the specification's makes the Lean walker fall off the next block boundary.
* `rle_lowlevel`: `compress(..., RLE, ...)`, `ChannelData.set_data`, `ImageData.set_data/new` on a grid of
  geometries that includes 0 x h, w x 0, 0 x 0 and 1 x 1, every depth, both versions.
* `degenerate_api_documents`: the same geometries through `PixelLayer.frompil` / `PSDImage.new` / `frompil`.
* `section_documents`: documents with layers + document-level tagged blocks whose source has no global
  layer mask section: cross-document layer moves (pattern effects bring a `Patt` block along), blocks
  added through `PSDImage.tagged_blocks` with and without an edit of the layer tree, and the same shape
  built from the low-level classes through `PSDImage(...)`.
"""
from __future__ import annotations

import io
import struct
import zlib

import core
import codec_common as cc
from core import hx

SPEC_8 = [b"LMsk", b"Lr16", b"Lr32", b"Layr", b"Mt16", b"Mt32", b"Mtrn", b"Alph", b"FMsk", b"lnk2", b"FEid",
          b"FXid", b"PxSD"]                                  # Adobe specification, "Additional Layer Information"
OBSERVED_8 = [b"cinf", b"lnkE", b"pths"]                    # stored with 8-byte lengths in Photoshop-written fixtures
UNCONFIRMED = [b"FELS", b"artd", b"extd", b"extn", b"lnk3"]  # known finding C03/bigkeys/unconfirmed-8-byte-key


# ---------------------------------------------------------------------------------------------
# specification reading of the layer records (Python; independent of psd_tools' reader)
# ---------------------------------------------------------------------------------------------
class SpecParse(Exception):
    pass


def _u(fmt, data, p):
    n = struct.calcsize(fmt)
    if p + n > len(data):
        raise SpecParse("truncated at %d" % p)
    return struct.unpack(fmt, data[p:p + n]), p + n


def spec_layer_body(data: bytes, p: int, end: int, version: int):
    """`p` at the layer count. -> [record dict with 'rect', 'mask', 'real', 'channels': [(id, offset, length)]]"""
    (count,), p = _u(">h", data, p)
    lw = ">I" if version == 1 else ">Q"
    recs = []
    for _ in range(abs(count)):
        rect, p = _u(">4i", data, p)
        (nch,), p = _u(">H", data, p)
        chans = []
        for _ in range(nch):
            (cid,), p = _u(">h", data, p)
            (ln,), p = _u(lw, data, p)
            chans.append((cid, ln))
        (sig, _blend, _op, _clip, _flags, _fill), p = _u(">4s4sBBBB", data, p)
        if sig != b"8BIM":
            raise SpecParse("blend mode signature at %d" % p)
        (extra,), p = _u(">I", data, p)
        stop = p + extra
        (mlen,), q = _u(">I", data, p)
        mask = real = None
        if mlen >= 20:
            mask, _ = _u(">4i", data, q)
        if mlen >= 36:
            real, _ = _u(">4i", data, q + 20)
        if stop > end:
            raise SpecParse("extra data crosses the end")
        recs.append({"rect": rect, "mask": mask, "real": real, "chan_decl": chans})
        p = stop
    for r in recs:
        out = []
        for cid, ln in r["chan_decl"]:
            if ln < 2 or p + ln > end:
                raise SpecParse("channel data crosses the end at %d" % p)
            out.append((cid, p, ln))
            p += ln
        r["channels"] = out
    return recs, p


def spec_layers(data: bytes, regions, version: int):
    """every layer record of the file: the layer info section and Lr16/Lr32 blocks at document level.
    -> (records, notes)"""
    recs, notes = [], []
    li = [r for r in regions if r[2] == "layer-info"]
    lw = 4 if version == 1 else 8
    for off, ln, _ in li:
        if ln > lw:
            try:
                rs, _ = spec_layer_body(data, off + lw, off + ln, version)
                recs += [dict(r, where="layer-info") for r in rs]
            except SpecParse as e:
                notes.append(("layer-info-unparseable", str(e)))
    # document-level blocks follow the global layer mask region
    glm = [r for r in regions if r[2] == "global-layer-mask"]
    if glm:
        after = glm[0][0] + glm[0][1]
        for off, ln, k in regions:
            if k != "tagged-block" or off < after:
                continue
            key = data[off + 4:off + 8]
            if key in (b"Lr16", b"Lr32", b"Layr"):
                w = 8 if version == 2 else 4
                (n,), p = _u(">Q" if w == 8 else ">I", data, off + 8)
                if n >= 2:
                    try:
                        rs, _ = spec_layer_body(data, p, p + n, version)
                        recs += [dict(r, where=key.decode()) for r in rs]
                    except SpecParse as e:
                        notes.append((key.decode() + "-unparseable", str(e)))
    return recs, notes


def channel_problem(body: bytes, comp: int, w: int, h: int, depth: int, version: int):
    """one stored channel (or merged image with h = channels * height) against its geometry"""
    rowbytes = (w * depth + 7) // 8
    if comp == 0:
        if len(body) != h * rowbytes:
            return ("raw-size", len(body), h * rowbytes)
    elif comp == 1:
        cw = 2 if version == 1 else 4
        if len(body) < h * cw:
            return ("rle-row-table-truncated", {"size": len(body), "rows": h}, {"row_table_bytes": h * cw})
        table = struct.unpack(">%d%s" % (h, "H" if cw == 2 else "I"), body[:h * cw])
        if sum(table) + h * cw != len(body):
            return ("rle-row-table-sum", {"size": len(body), "rows": h}, {"table_plus_rows": sum(table) + h * cw})
        p = h * cw
        for n in table:
            if packbits_len(body[p:p + n]) != rowbytes:
                return ("rle-row-length", {"row_decodes_to": packbits_len(body[p:p + n])}, {"row_bytes": rowbytes})
            p += n
    elif comp in (2, 3):
        try:
            raw = zlib.decompress(body)
        except zlib.error:
            return ("zip-undecodable", len(body), "a zlib stream")
        if len(raw) != h * rowbytes:
            return ("zip-size", len(raw), h * rowbytes)
    else:
        return ("unknown-compression", comp, "0..3")
    return None


def packbits_len(row: bytes):
    """decoded size of a PackBits row (Apple TN1023); None when malformed"""
    i, n, out = 0, len(row), 0
    while i < n:
        hd = row[i]
        i += 1
        if hd < 128:
            if i + hd + 1 > n:
                return None
            out += hd + 1
            i += hd + 1
        elif hd > 128:
            if i + 1 > n:
                return None
            out += 257 - hd
            i += 1
    return out


def layer_channel_problems(data: bytes, hdr, regions):
    """-> list of (kind, observed, expected, where) for every stored layer channel"""
    version, _, _, _, depth, _ = hdr
    try:
        recs, notes = spec_layers(data, regions, version)
    except SpecParse as e:
        return [("layer-records-unparseable", str(e), None, "layer-info")]
    out = [(k, v, None, "layer-info") for k, v in notes]
    for i, r in enumerate(recs):
        for cid, off, ln in r["channels"]:
            rect = r["rect"]
            if cid == -2 and r["mask"] is not None:
                rect = r["mask"]
            elif cid == -3 and r["real"] is not None:
                rect = r["real"]
            top, left, bottom, right = rect
            w, h = max(right - left, 0), max(bottom - top, 0)
            comp = struct.unpack(">H", data[off:off + 2])[0]
            pr = channel_problem(data[off + 2:off + ln], comp, w, h, depth, version)
            if pr:
                out.append(("channel-" + pr[0], dict(layer=i, channel=cid, width=w, height=h, detail=pr[1]), pr[2],
                            r["where"]))
    return out


def merged_problem(data: bytes, hdr, regions):
    version, channels, height, width, depth, _ = hdr
    img = [x for x in regions if x[2] == "image-data"]
    if not img:
        return ("no-image-data-region", None, None)
    off, ln = img[0][:2]
    if ln < 2:
        return ("merged-truncated", ln, ">= 2")
    comp = struct.unpack(">H", data[off:off + 2])[0]
    pr = channel_problem(data[off + 2:off + ln], comp, width, channels * height, depth, version)
    return ("merged-" + pr[0], pr[1], pr[2]) if pr else None


# ---------------------------------------------------------------------------------------------
# 8-byte length keys: one document per (version, key, level)
# ---------------------------------------------------------------------------------------------
def _mods():
    import psd_tools.constants as C
    import psd_tools.psd as P
    import psd_tools.psd.header as H
    import psd_tools.psd.image_data as ID
    import psd_tools.psd.image_resources as IR
    import psd_tools.psd.layer_and_mask as LM
    import psd_tools.psd.tagged_blocks as TB
    return C, P, H, ID, IR, LM, TB


def tiny_document(version, global_blocks, record_blocks, glm=True, rgb=False):
    C, P, H, ID, IR, LM, TB = _mods()
    mk = lambda items: TB.TaggedBlocks([(k, TB.TaggedBlock(key=k, data=d)) for k, d in items])
    rec = LM.LayerRecord(top=0, left=0, bottom=1, right=1, channel_info=[LM.ChannelInfo(id=0, length=3)], name="L",
                         tagged_blocks=mk(record_blocks))
    li = LM.LayerInfo(1, LM.LayerRecords([rec]), LM.ChannelImageData([LM.ChannelDataList([LM.ChannelData(0, b"\x07")])]))
    lam = LM.LayerAndMaskInformation(li, LM.GlobalLayerMaskInfo() if glm else None, mk(global_blocks))
    if rgb:
        rec.channel_info = [LM.ChannelInfo(id=i, length=3) for i in (0, 1, 2)]
        li.channel_image_data[0] = LM.ChannelDataList([LM.ChannelData(0, b"\x07") for _ in range(3)])
    hdr = H.FileHeader(version=version, channels=3 if rgb else 1, height=1, width=1, depth=8,
                       color_mode=C.ColorMode.RGB if rgb else C.ColorMode.GRAYSCALE)
    return P.PSD(hdr, image_resources=IR.ImageResources(), layer_and_mask_information=lam,
                 image_data=ID.ImageData(0, b"\x09" * (3 if rgb else 1)))


def code_length_width(key, version):
    """width of the length field the code writes for this key (measured on the bytes, not read from a table)"""
    _, _, _, _, _, _, TB = _mods()
    b = TB.TaggedBlock(key=key, data=b"\xaa\xbb").tobytes(version=version, padding=1)
    return len(b) - 8 - 2


def bigkey_documents(ctx, code_big):
    """-> [(label, scenario, bytes, expected-signature-or-None, meta)]"""
    C = _mods()[0]
    keys = []
    for k in SPEC_8 + OBSERVED_8 + sorted(code_big) + sorted(m.value for m in C.Tag) + [b"zzzz"]:
        k = k if isinstance(k, bytes) else k.encode("latin1")
        if k not in keys:
            keys.append(k)
    out = []
    for version in (1, 2):
        for key in keys:
            spec_w = 8 if (version == 2 and key in SPEC_8 + OBSERVED_8) else 4
            try:
                code_w = code_length_width(key, version)
            except Exception as e:  # noqa
                ctx.hist("bigkey_block_write_raised", type(e).__name__)
                code_w = None
            for level, payloads in (("document", (b"\x01\x02\x03", b"\x01\x02")), ("layer", (b"\x01\x02", b""))):
                for payload in payloads:
                    tail = [(b"zzzy" if key == b"zzzz" else b"zzzz", b"\x05\x06")]
                    gb = [(key, payload)] + tail if level == "document" else tail
                    rb = [(key, payload)] + tail if level == "layer" else []
                    label = "%s/v%d/%s/len%d" % (key.decode("latin1"), version, level, len(payload))
                    try:
                        w = cc.write_doc(tiny_document(version, gb, rb), "macroman", 4)
                    except Exception as e:  # noqa
                        w = ("err", type(e).__name__)
                    if w[0] != "ok":
                        ctx.hist("bigkey_write_failed", str(w[1]))
                        continue
                    exp = "C03/bigkeys/unconfirmed-8-byte-key" if (version == 2 and key in UNCONFIRMED) else None
                    out.append((label, "bigkeys/v%d/%s" % (version, level), w[1], exp,
                                {"key": key.decode("latin1"), "version": version, "level": level,
                                 "length_field_written": code_w, "length_field_in_specification": spec_w}))
    return out


# ---------------------------------------------------------------------------------------------
# RLE through the low-level classes
# ---------------------------------------------------------------------------------------------
GEOM = [(0, 0), (0, 1), (0, 5), (1, 0), (4, 0), (1, 1), (1, 3), (3, 1), (2, 2), (7, 3), (8, 2), (9, 2), (130, 2), (300, 1)]


def rle_lowlevel(ctx):
    """-> list of failures (signature, what, input, observed, expected)"""
    fails = []
    try:
        from psd_tools.compression import compress
        from psd_tools.constants import ColorMode, Compression
        from psd_tools.psd.header import FileHeader
        from psd_tools.psd.image_data import ImageData
        from psd_tools.psd.layer_and_mask import ChannelData
    except Exception as e:  # noqa
        ctx.disagree("compression entry points cannot be imported", {"error": repr(e)[:200]})
        return fails
    rng = ctx.rng
    for (w, h) in GEOM:
        for depth in (1, 8, 16, 32):
            rowbytes = (w * depth + 7) // 8
            for version in (1, 2):
                for fill in ("zero", "random", "runs"):
                    if fill == "zero":
                        raw = bytes(rowbytes * h)
                    elif fill == "random":
                        raw = bytes(rng.randrange(256) for _ in range(rowbytes * h))
                    else:
                        raw = bytes((i // 5) % 3 for i in range(rowbytes * h))
                    for comp in (Compression.RAW, Compression.RLE, Compression.ZIP, Compression.ZIP_WITH_PREDICTION):
                        if comp == Compression.ZIP_WITH_PREDICTION and (depth == 1 or w == 0 or h == 0):
                            continue        # prediction of bitmaps / empty planes: C04 (numpy reshape), not a length question
                        inp = {"entry": "compress", "width": w, "height": h, "depth": depth, "version": version,
                               "compression": int(comp), "raw": hx(raw)}
                        for entry in ("compress", "ChannelData.set_data"):
                            ctx.count(("rle-lowlevel", entry, w, h, depth, version, int(comp), fill), nontrivial=True)
                            try:
                                if entry == "compress":
                                    body = compress(raw, comp, w, h, depth, version)
                                else:
                                    cd = ChannelData(comp)
                                    cd.set_data(raw, w, h, depth, version)
                                    body = cd.data
                            except Exception as e:  # noqa
                                ctx.hist("rle_lowlevel_raised", f"{entry}:{type(e).__name__}:comp{int(comp)}")
                                continue
                            pr = channel_problem(body, int(comp), w, h, depth, version)
                            ctx.hist("rle_lowlevel", "ok" if pr is None else pr[0])
                            if pr:
                                deg = "degenerate" if w == 0 or h == 0 else "regular"
                                fails.append((f"C03/pixels/{pr[0]}/{entry}/{deg}",
                                              "compressed channel does not have the size / row table its geometry prescribes",
                                              dict(inp, entry=entry, stored=hx(body)), pr[1], pr[2]))
        # merged image: rows = channels * height
        for channels in (1, 3):
            if w == 0 or h == 0:
                continue    # FileHeader refuses empty documents
            for version in (1, 2):
                for comp in (0, 1, 2):
                    hdr = FileHeader(version=version, channels=channels, height=h, width=w, depth=8,
                                     color_mode=ColorMode.RGB if channels == 3 else ColorMode.GRAYSCALE)
                    for entry in ("ImageData.set_data", "ImageData.new"):
                        try:
                            if entry == "ImageData.new":
                                im = ImageData.new(hdr, color=7, compression=Compression(comp))
                            else:
                                im = ImageData(compression=Compression(comp))
                                im.set_data([bytes((i + c) % 251 for i in range(w * h)) for c in range(channels)], hdr)
                        except Exception as e:  # noqa
                            ctx.hist("rle_lowlevel_raised", f"{entry}:{type(e).__name__}")
                            continue
                        ctx.count(("merged-lowlevel", entry, w, h, channels, version, comp), nontrivial=True)
                        pr = channel_problem(im.data, comp, w, channels * h, 8, version)
                        ctx.hist("merged_lowlevel", "ok" if pr is None else pr[0])
                        if pr:
                            fails.append((f"C03/pixels/merged-{pr[0]}/{entry}",
                                          "merged image does not have the size / row table the header prescribes",
                                          {"entry": entry, "width": w, "height": h, "channels": channels, "version": version,
                                           "compression": comp, "stored": hx(im.data)}, pr[1], pr[2]))
    return fails


# ---------------------------------------------------------------------------------------------
# API scenarios
# ---------------------------------------------------------------------------------------------
def _save(psd, **kw):
    f = io.BytesIO()
    psd.save(f, **kw)
    return f.getvalue()


def degenerate_api_documents(ctx, fx_all):
    out = []
    try:
        from PIL import Image
        from psd_tools import PSDImage
        from psd_tools.api.layers import Group, PixelLayer
        from psd_tools.constants import Compression
    except Exception as e:  # noqa
        ctx.skipped.append("degenerate API scenarios skipped: %r" % e)
        return out

    def attempt(label, scen, fn):
        try:
            out.append((label, scen, fn(), None, None))
        except Exception as e:  # noqa
            ctx.hist("api_scenario_raised", f"{scen}:{type(e).__name__}")

    boxes = [("0xh", (3, 0, 3, 4)), ("wx0", (0, 2, 5, 2)), ("0x0", (2, 2, 2, 2)), ("1x1", (1, 1, 2, 2)), ("1xh", (0, 0, 1, 4)),
             ("wx1", (0, 0, 5, 1))]
    psb = [f for f in fx_all if f.name in ("1layer.psb", "2layers.psb")][:1]
    for mode in ("RGB", "L", "CMYK"):
        for comp in (Compression.RLE, Compression.RAW, Compression.ZIP):
            for tag, box in boxes:
                def build(mode=mode, comp=comp, box=box, base=None):
                    if base is None:
                        p = PSDImage.new(mode, (6, 5), compression=Compression.RLE)
                    else:
                        p = PSDImage.open(base)
                    src = Image.new("RGBA" if mode == "RGB" else mode, (6, 5)).crop(box)
                    p.append(PixelLayer.frompil(src, p, "strip", 1, 1, comp))
                    return _save(p)
                attempt(f"strip-{mode}-{tag}-comp{int(comp)}", "api/degenerate-layer", build)
                if mode == "RGB" and psb and comp == Compression.RLE:
                    attempt(f"strip-psb-{tag}", "api/degenerate-layer-psb", lambda build=build: build(base=psb[0]))
    for mode, size in (("RGB", (1, 1)), ("RGB", (1, 7)), ("RGB", (7, 1)), ("L", (1, 1)), ("CMYK", (2, 1)), ("L", (300, 2))):
        for comp in (Compression.RLE, Compression.RAW, Compression.ZIP):
            for depth in (8, 16):
                attempt(f"new-{mode}-{size[0]}x{size[1]}-d{depth}-comp{int(comp)}", "api/new-sizes",
                        lambda: _save(PSDImage.new(mode, size, depth=depth, compression=comp)))
    for mode, size in (("RGB", (1, 1)), ("L", (1, 9)), ("RGBA", (9, 1)), ("1", (3, 3)), ("CMYK", (1, 2))):
        attempt(f"frompil-{mode}-{size[0]}x{size[1]}", "api/frompil-sizes", lambda: _save(PSDImage.frompil(Image.new(mode, size))))

    def group_of_strips():
        p = PSDImage.new("RGB", (4, 4))
        g = Group.new("g", parent=p)
        g.append(PixelLayer.frompil(Image.new("RGB", (4, 4)).crop((1, 0, 1, 3)), p, "a"))
        g.append(PixelLayer.frompil(Image.new("RGB", (4, 4)).crop((0, 2, 3, 2)), p, "b"))
        g.append(PixelLayer.frompil(Image.new("RGB", (2, 2), (1, 2, 3)), p, "c"))
        return _save(p)
    attempt("group-of-strips", "api/degenerate-layer", group_of_strips)
    return out


def section_documents(ctx, fx_all):
    """documents whose source has layers but no global layer mask section, gaining document-level blocks"""
    out = []
    try:
        from PIL import Image
        from psd_tools import PSDImage
        from psd_tools.api.layers import PixelLayer
        from psd_tools.constants import Tag
        from psd_tools.psd import PSD
        from psd_tools.psd.patterns import Patterns
    except Exception as e:  # noqa
        ctx.skipped.append("section scenarios skipped: %r" % e)
        return out

    def attempt(label, scen, fn):
        try:
            out.append((label, scen, fn(), None, None))
        except Exception as e:  # noqa
            ctx.hist("api_scenario_raised", f"{scen}:{type(e).__name__}")

    small = [f for f in fx_all if f.stat().st_size <= (450000 if ctx.quick else 3000000)]
    sources, bare, with_glm = [], [], []
    for f in small:
        try:
            p = PSDImage.open(f)
            lam = p._record.layer_and_mask_information
        except Exception:
            continue
        if p.depth != 8 or p.color_mode.name != "RGB":
            continue
        if lam.layer_info is not None and lam.global_layer_mask_info is None:
            bare.append(f)
        elif lam.layer_info is not None and len(with_glm) < 2 and f.stat().st_size < 40000:
            with_glm.append(f)
        try:
            names = [l.name for l in p.descendants() if any(e.has_patterns() for e in l.effects)]
        except Exception:
            names = []
        if names and len(sources) < (3 if ctx.quick else 12):
            sources.append((f, names[0]))
    ctx.extra["section_scenarios"] = {"documents_without_global_mask_section": [f.name for f in bare],
                                      "pattern_effect_sources": [f"{f.name}:{n}" for f, n in sources]}

    def targets():
        for f in bare + with_glm:
            yield f.name, (lambda f=f: PSDImage.open(f))
        yield "new-RGB", (lambda: PSDImage.new("RGB", (8, 8)))
        yield "frompil-RGB", (lambda: PSDImage.frompil(Image.new("RGB", (8, 8), (1, 2, 3))))

    # (1) cross-document moves of layers whose effects reference patterns
    for tname, mk in targets():
        for sf, lname in sources:
            def move(mk=mk, sf=sf, lname=lname, how="append"):
                src = PSDImage.open(sf)
                layer = [l for l in src.descendants() if l.name == lname][0]
                dst = mk()
                if how == "append":
                    dst.append(layer)
                else:
                    dst.insert(0, layer)
                return _save(dst)
            attempt(f"{sf.name}:{lname}->{tname}", "api/cross-document-move", move)
            attempt(f"{sf.name}:{lname}->{tname}[insert]", "api/cross-document-move", lambda move=move: move(how="insert"))
    # (2) blocks added through the public `tagged_blocks` mapping, with and without an edit of the tree
    for tname, mk in targets():
        for edit in (False, True):
            def add(mk=mk, edit=edit):
                p = mk()
                if p.tagged_blocks is None:
                    raise LookupError("no tagged_blocks mapping")
                p.tagged_blocks.set_data(Tag.PATTERNS1, Patterns())
                if edit:
                    p.append(PixelLayer.frompil(Image.new("RGB", (2, 2), (9, 9, 9)), p, "added"))
                return _save(p)
            attempt(f"set_data(Patt)->{tname}" + ("+append" if edit else ""),
                    "api/document-block-added" + ("-then-edit" if edit else ""), add)
    # (3) the same shape built from the low-level classes and saved through PSDImage
    for version in (1, 2):
        for edit in (False, True):
            def low(version=version, edit=edit):
                p = PSDImage(tiny_document(version, [], [], glm=False, rgb=True))
                p.tagged_blocks.set_data(Tag.PATTERNS1, Patterns())
                if edit:
                    p.append(PixelLayer.frompil(Image.new("RGB", (1, 1), (9, 9, 9)), p, "added"))
                return _save(p)
            attempt(f"lowlevel-v{version}" + ("+append" if edit else ""),
                    "api/document-block-added" + ("-then-edit" if edit else ""), low)
    return out


# ---------------------------------------------------------------------------------------------
# judging
# ---------------------------------------------------------------------------------------------
def parse_walk(a):
    if a[0] == "ok":
        hdr = tuple(int(x) for x in a[1].split())
        regs = []
        for t in (a[3].split() if len(a) > 3 else []):
            o, l, k = t.split(":", 2)
            regs.append((int(o), int(l), k))
        return ("ok", hdr, int(a[2]), regs)
    return ("err", a[1], int(a[2]), a[3])


def slug(s):
    return "".join(c if c.isalnum() else "-" for c in s.lower()).strip("-")[:60]


def scen_slug(scen):
    return slug(scen.split("/", 1)[1] if "/" in scen else scen)


def judge(ctx, label, scen, b, exp, meta, a, original=False):
    """one written file + the Lean walker's answer -> ctx.fail / ctx.disagree"""
    r = parse_walk(a)
    inp = {"scenario": scen, "label": label, "file": hx(b) if len(b) < 200000 else None}
    if meta:
        inp["detail"] = meta
    if r[0] == "ok" and r[2] == len(b):
        ctx.hist("extra_walker", "accepts")
        probs = []
        if scen.startswith("bigkeys"):
            return          # payloads are arbitrary bytes there (an Lr16 block does not hold layers)
        mp = merged_problem(b, r[1], r[3])
        if mp:
            probs.append((mp[0], mp[1], mp[2], "image-data"))
        probs += layer_channel_problems(b, r[1], r[3])
        for kind, obs, expd, where in probs[:2]:
            if original:
                ctx.disagree("specification reading of the pixel data fails on a Photoshop-written fixture (the check is wrong)",
                             {"file": label, "problem": kind, "observed": obs, "where": where})
                continue
            ctx.hist("extra_pixels", kind)
            ctx.fail(f"C03/pixels/{kind}/{scen_slug(scen)}",
                     "stored pixel data disagrees with the geometry the header / layer record declares",
                     inp, {"problem": kind, "observed": obs, "where": where}, expd)
        return
    if r[0] == "ok":
        sect, pos, reason = "end", r[2], "walk ends before the end of the file"
    else:
        _, sect, pos, reason = r
    ctx.hist("extra_walker", f"falls-off:{sect}")
    if original:
        ctx.disagree("the specification walker rejects a Photoshop-written fixture", {"file": label, "section": sect, "pos": pos})
        return
    sig = exp
    if sig is None and meta and meta.get("length_field_written") != meta.get("length_field_in_specification"):
        sig = "C03/bigkeys/length-field-%s-bytes-specification-%s/%s" % (
            meta.get("length_field_written"), meta.get("length_field_in_specification"),
            "".join(c if c.isalnum() else "-" for c in meta.get("key", "")))
    if sig is None and sect == "global-layer-mask" and b[max(pos - 4, 0):pos] in (b"8BIM", b"8B64"):
        sig = "C03/sections/tagged-blocks-without-global-layer-mask-section/" + scen_slug(scen)
    if sig is None:
        sig = f"C03/walker/{sect}/{slug(reason)}"
    ctx.fail(sig, "the format walker falls off a file written by psd-tools", inp,
             {"section": sect, "pos": pos, "reason": reason, "bytes_before_pos": hx(b[max(pos - 8, 0):pos])},
             "walker visits every section and stops at the file size")


def run_extra(ctx, tables, fx_all, jobs, answers):
    """called at the end of props/C03.run; `jobs`/`answers` are the main run's files and walker answers"""
    # (a) the specification reading of layer channels on every file of the main run that holds real pixels
    for (label, scen, b, exp, pixels), a in zip(jobs, answers):
        if not pixels:
            continue
        r = parse_walk(a)
        if r[0] != "ok" or r[2] != len(b):
            continue
        original = scen == "fixture-original"
        for kind, obs, expd, where in layer_channel_problems(b, r[1], r[3])[:1]:
            if original:
                ctx.disagree("specification reading of the layer channels fails on a Photoshop-written fixture (the check is wrong)",
                             {"file": label, "problem": kind, "observed": obs, "where": where})
            else:
                ctx.fail(f"C03/pixels/{kind}/{scen_slug(scen)}",
                         "stored layer channel disagrees with the geometry its layer record declares",
                         {"scenario": scen, "label": label, "file": hx(b) if len(b) < 200000 else None},
                         {"problem": kind, "observed": obs, "where": where}, expd)
        ctx.hist("layer_channels_spec_reading", "checked")
    # (b) widened writer entry points
    extra = bigkey_documents(ctx, [k.encode("latin1") if isinstance(k, str) else k for k in tables.get("bigKeys", [])])
    extra += degenerate_api_documents(ctx, fx_all)
    extra += section_documents(ctx, fx_all)
    ans = cc.pbatch([("psd.walk", hx(j[2])) for j in extra])
    for (label, scen, b, exp, meta), a in zip(extra, ans):
        ctx.corr_cases += 1
        ctx.count((scen, label, len(b)), nontrivial=True)
        ctx.hist("scenario", scen.split("#")[0])
        judge(ctx, label, scen, b, exp, meta, a)
    # (c) row tables straight from the compression entry points
    for sig, what, inp, obs, expd in rle_lowlevel(ctx):
        ctx.fail(sig, what, inp, obs, expd)
    ctx.rule += (" Added: one tiny document per (version, tagged-block key, document/layer level) for every key of the "
                 "specification's 8-byte list, of _BIG_KEYS and of constants.Tag; degenerate geometries (0 x h, w x 0, 0 x 0, 1 x 1) "
                 "through PixelLayer.frompil / PSDImage.new / frompil and through compress / ChannelData.set_data / ImageData.set_data; "
                 "cross-document moves of pattern-effect layers and document-level blocks added to documents without a global "
                 "layer mask section. Every stored channel of every file with real pixels is checked against a specification "
                 "reading of its layer record (raw size, RLE row table entries/sum/row length, zip size), including Lr16/Lr32.")
    ctx.model_coverage.setdefault("checked in Python only", []).append(
        "layer channels from a specification reading of the records (harness/c03_extra.py), incl. Lr16/Lr32 payloads")
