"""C15 extractor: what `_compute_clipping_layers` tests -> Generated/ClipModes.lean.

From the AST of api/psd_image.py: the direction of the pass (`reversed(layer._layers)`), the
compatibility modes and the blend mode compared in `rec_helper`, the defaults written by
`_clear_clipping_layers`; from constants.py (live): the members of CompatibilityMode.
Also lists (for the evidence) every function that calls `_compute_clipping_layers`.
"""
from __future__ import annotations

import ast

from core import REPO, Infra
from extract import lean_str

API = REPO / "src" / "psd_tools" / "api"


def _method(tree, cls, name):
    for c in ast.walk(tree):
        if isinstance(c, ast.ClassDef) and c.name == cls:
            for f in c.body:
                if isinstance(f, ast.FunctionDef) and f.name == name:
                    return f
    raise Infra(f"{cls}.{name} not found")


def _attrs_of(node, base):
    out = []
    for n in ast.walk(node):
        if isinstance(n, ast.Attribute) and isinstance(n.value, ast.Name) and n.value.id == base:
            out.append((n.lineno, n.col_offset, n.attr))
    return [a for _, _, a in sorted(out)]


def read():
    tree = ast.parse((API / "psd_image.py").read_text())
    comp = _method(tree, "PSDImage", "_compute_clipping_layers")
    clear = _method(tree, "PSDImage", "_clear_clipping_layers")
    helper = next((n for n in ast.walk(comp) if isinstance(n, ast.FunctionDef) and n.name == "rec_helper"), None)
    if helper is None:
        raise Infra("_compute_clipping_layers: rec_helper not found")
    loop = next((n for n in ast.walk(helper) if isinstance(n, ast.For)), None)
    info = {
        "loop_iter": ast.unparse(loop.iter),
        "reversed": ast.unparse(loop.iter).startswith("reversed("),
        "modes_tested": _attrs_of(helper, "CompatibilityMode"),
        "blend_tested": _attrs_of(helper, "BlendMode"),
        "first_test": ast.unparse(loop.body[0].test) if isinstance(loop.body[0], ast.If) else "?",
        "recurses": any(isinstance(n, ast.Call) and isinstance(n.func, ast.Name) and n.func.id == "rec_helper"
                        for n in ast.walk(loop)),
        "clear": sorted(ast.unparse(s) for s in ast.walk(clear) if isinstance(s, ast.Assign)),
    }
    from psd_tools.constants import CompatibilityMode
    info["members"] = [(n, m.value) for n, m in CompatibilityMode.__members__.items()]
    callers = []
    for f in sorted(API.glob("*.py")):
        t = ast.parse(f.read_text())
        for fn in ast.walk(t):
            if isinstance(fn, ast.FunctionDef) and fn.name != "_compute_clipping_layers":
                for n in ast.walk(fn):
                    if isinstance(n, ast.Call) and isinstance(n.func, ast.Attribute) and n.func.attr == "_compute_clipping_layers":
                        callers.append(f"{f.name}:{fn.name}")
    info["recompute_callers"] = sorted(set(callers))
    return info


def gen_clip_modes(ctx):
    info = read()
    strs = lambda xs: "[" + ", ".join(lean_str(x) for x in xs) + "]"
    src = f"""namespace PsdVerif.Generated.ClipModes

/-- members of `constants.CompatibilityMode` (aliases included) with their values -/
def members : List (String × Nat) := [{", ".join("(%s, %d)" % (lean_str(n), v) for n, v in info["members"])}]
/-- modes compared with `self.compatibility_mode` in `rec_helper` (any of them makes a pass-through layer ineligible) -/
def modesTested : List String := {strs(info["modes_tested"])}
/-- blend modes compared with `sublayer.blend_mode` in `rec_helper` -/
def blendTested : List String := {strs(info["blend_tested"])}
/-- the first test of the loop body -/
def firstTest : String := {lean_str(info["first_test"])}
/-- the loop runs over `reversed(layer._layers)` (top of the group first) -/
def iteratesReversed : Bool := {"true" if info["reversed"] else "false"}
/-- `rec_helper` calls itself on every sublayer -/
def recurses : Bool := {"true" if info["recurses"] else "false"}
/-- assignments of `_clear_clipping_layers` -/
def clearAssignments : List String := {strs(info["clear"])}

end PsdVerif.Generated.ClipModes
"""
    ctx.write_generated("ClipModes", src)
    return info


# =====================================================================================================
# Part 2: which public mutator recomputes -> Generated/ClipCurrent.lean
#
# A small abstract interpreter over the AST of api/*.py. For every method of the API classes it flattens
# the body (helpers and other mutators inlined by name, `self`/parameters substituted textually) into a
# stream of EFFECTS on the inputs of the clipping relation:
#   mut(owner, what, guards)    a raw change: `<owner>._layers.<list mutation>`, `<owner>._layers[...] = / del`,
#                               `<owner>._record.clipping = `, a `blend_mode` assignment on a record or divider
#                               block, `<owner>._compatibility_mode = `, `<owner>._record = `
#   rec(owner, guards)          `_clear_clipping_layers()` reached inside `_compute_clipping_layers()` called on the
#                               document of <owner> (`X._psd._compute…` -> owner X; `psd = self if isinstance(self,
#                               PSDImage) else self._psd` -> owner self)
#   store(owner, what, guards)  an assignment to `_clip_layers` / `_has_clip_target` outside the pass
#   other(src)                  something relevant that could not be classified
# `guards` are the tests of the enclosing `if`s (numbered per visit, so that two `if`s with the same text
# differ), negated for `else` and for code after an `if … return`; tests of the form "<the document of the
# owner> is (not) None" are dropped from a rec. A loop body is a segment of its own.
# A changed source never raises: what is not understood becomes `other`, which `tableOk` rejects.
# =====================================================================================================
import re

LISTMUT = {"append", "extend", "insert", "remove", "pop", "clear", "reverse", "sort",
           "__setitem__", "__delitem__", "__iadd__", "__imul__"}
LISTNAMES = LISTMUT | {"index", "count", "copy"}
STORED = {"_clip_layers", "_has_clip_target"}
EXEMPT_STORE = {("PSDImage", "_clear_clipping_layers"), ("PSDImage", "_compute_clipping_layers"), ("Layer", "__init__")}
LAYERISH_ANN = re.compile(r"Layer|GroupMixin|Group|PSDImage|Self|Artboard")
MAX_DEPTH = 12


class _Api:
    """Classes and methods of api/*.py."""

    def __init__(self):
        self.classes = {}        # name -> (ClassDef, [base names])
        self.methods = {}        # (cls, name, kind) -> FunctionDef      kind: "method" | "setter" | "getter"
        self.by_name = {}        # (name, kind) -> [cls]
        self.imported = set()    # names bound by import statements anywhere in api/*.py (modules, foreign classes)
        for f in sorted(API.glob("*.py")):
            try:
                tree = ast.parse(f.read_text())
            except SyntaxError:
                continue
            for n in ast.walk(tree):
                if isinstance(n, (ast.Import, ast.ImportFrom)):
                    for a in n.names:
                        self.imported.add((a.asname or a.name).split(".")[0])
            for c in tree.body:
                if not isinstance(c, ast.ClassDef):
                    continue
                bases = [ast.unparse(b).split(".")[-1] for b in c.bases]
                self.classes[c.name] = (c, bases)
                for fn in c.body:
                    if not isinstance(fn, ast.FunctionDef):
                        continue
                    kind = "method"
                    for d in fn.decorator_list:
                        s = ast.unparse(d)
                        if s == "property":
                            kind = "getter"
                        elif s.endswith(".setter"):
                            kind = "setter"
                    self.methods[(c.name, fn.name, kind)] = fn
                    self.by_name.setdefault((fn.name, kind), []).append(c.name)

    def mro(self, cls):
        out, todo = [], [cls]
        while todo:
            c = todo.pop(0)
            if c in out or c not in self.classes:
                continue
            out.append(c)
            todo += self.classes[c][1]
        return out

    def resolve(self, cls, name, kind="method"):
        for c in self.mro(cls):
            if (c, name, kind) in self.methods:
                return c
        return None


def _subst(node, env):
    """Unparse with the names of `env` replaced by their (already normal) expressions."""

    class R(ast.NodeTransformer):
        def visit_Name(self, n):
            if n.id in env:
                try:
                    return ast.parse(env[n.id], mode="eval").body
                except SyntaxError:
                    return n
            return n

    import copy
    return ast.unparse(R().visit(copy.deepcopy(node)))


def _norm(src):
    """`X._psd` -> doc(X); `_parent` -> parent."""
    src = src.replace("._parent", ".parent")
    prev = None
    while prev != src:
        prev = src
        src = re.sub(r"((?:[A-Za-z_][\w]*|doc\([^()]*\))(?:\.parent|\[[^\[\]]*\])*)\._psd\b", r"doc(\1)", src)
    return src


def _owner(src):
    """The object a (normal) expression hangs off: strip attributes down to a name, `.parent`, doc(…), a subscript."""
    try:
        n = ast.parse(src, mode="eval").body
    except SyntaxError:
        return src
    while isinstance(n, ast.Attribute) and n.attr != "parent":
        n = n.value
    return ast.unparse(n)


class _Flat:
    COUNTED = ("mut", "rec", "store", "other")      # the kinds of event that make an inlined callee count

    def __init__(self, api):
        self.api = api
        self.events = []
        self.gid = 0
        self.effectful = None

    # ---- which method names can have an effect at all (fixpoint over names) -----------------------------
    def compute_effectful(self):
        eff = set()
        raw = {}
        for key, fn in self.api.methods.items():
            raw[key] = self._has_raw(fn)
        changed = True
        while changed:
            changed = False
            for key, fn in self.api.methods.items():
                if key in eff:
                    continue
                if raw[key] or any(isinstance(n, ast.Call) and isinstance(n.func, ast.Attribute)
                                   and any((c, n.func.attr, "method") in eff for c in self.api.by_name.get((n.func.attr, "method"), []))
                                   for n in ast.walk(fn)):
                    eff.add(key)
                    changed = True
        self.effectful = eff

    @staticmethod
    def _has_raw(fn):
        for n in ast.walk(fn):
            if isinstance(n, ast.Attribute) and n.attr in ({"_layers", "_compatibility_mode", "_compute_clipping_layers",
                                                             "_clear_clipping_layers"} | STORED):
                return True
            if isinstance(n, ast.Attribute) and n.attr in ("clipping", "blend_mode") and isinstance(n.ctx, (ast.Store, ast.Del)):
                return True
        return False

    # ---- hooks for subclasses (harness/extract_c10.py): return True when the statement / call was consumed -----
    def pre_stmt(self, cls, fn, st, env, guards, depth, stack, layerish):
        return False

    def pre_call(self, cls, fn, c, env, guards, depth, stack, layerish, in_comp):
        return False

    # ---- statements --------------------------------------------------------------------------------------
    def emit(self, *ev):
        self.events.append(ev)

    def loop_hook(self, cls, fn, st, env, guards, depth, stack, layerish):
        """A subclass may take over a loop (return True); the default keeps a loop body a segment of its own."""
        return False

    def flatten(self, cls, fn, env, guards, depth, stack, layerish):
        """env: name -> normal expression; layerish: set of local names known to denote API objects."""
        env = dict(env)
        layerish = set(layerish)
        for a in fn.args.args + fn.args.kwonlyargs:
            if a.annotation is not None and LAYERISH_ANN.search(ast.unparse(a.annotation)) and a.arg not in env:
                layerish.add(a.arg)
        self.block(cls, fn, fn.body, env, list(guards), depth, stack, layerish)

    def block(self, cls, fn, stmts, env, guards, depth, stack, layerish):
        for st in stmts:
            if isinstance(st, ast.Expr) and isinstance(st.value, ast.Constant):
                continue                                             # docstring
            if self.pre_stmt(cls, fn, st, env, guards, depth, stack, layerish):
                continue                                             # handled by a subclass (extract_c10)
            if isinstance(st, (ast.FunctionDef, ast.ClassDef, ast.Import, ast.ImportFrom, ast.Pass, ast.Assert,
                               ast.Global, ast.Nonlocal)):
                continue
            if isinstance(st, ast.If):
                self.gid += 1
                g = "g%d:%s" % (self.gid, _norm(_subst(st.test, env)))
                gn = "g%d:not(%s)" % (self.gid, _norm(_subst(st.test, env)))
                self.exprs(cls, fn, st.test, env, guards, depth, stack, layerish)
                dead = re.match(r"g\d+:None is not None\b", g) is not None      # a defaulted parameter
                if not dead:
                    self.block(cls, fn, st.body, env, guards + [g], depth, stack, layerish)
                self.block(cls, fn, st.orelse, env, guards + ([] if dead else [gn]), depth, stack, layerish)
                if dead:
                    continue
                if self._terminates(st.body):
                    guards = guards + [gn]
                elif st.orelse and self._terminates(st.orelse):
                    guards = guards + [g]
                continue
            if isinstance(st, (ast.For, ast.While)):
                if self.loop_hook(cls, fn, st, env, guards, depth, stack, layerish):
                    continue                                         # a subclass summarised the loop (extract_c14)
                it = st.iter if isinstance(st, ast.For) else st.test
                self.exprs(cls, fn, it, env, guards, depth, stack, layerish)
                inner_layerish = set(layerish)
                if isinstance(st, ast.For) and isinstance(st.target, ast.Name):
                    env = {k: v for k, v in env.items() if k != st.target.id}
                    src = _norm(_subst(st.iter, env))
                    if self._layerish_iter(src, layerish, fn):
                        inner_layerish.add(st.target.id)
                self.emit("loop_begin")
                mark = len(self.events)
                self.block(cls, fn, st.body, env, guards, depth, stack, inner_layerish)
                if len(self.events) == mark:
                    self.events.pop()                                # nothing happens inside: no segment boundary
                else:
                    self.emit("loop_end")
                self.block(cls, fn, st.orelse, env, guards, depth, stack, layerish)
                continue
            if isinstance(st, ast.Try):
                self.block(cls, fn, st.body, env, guards, depth, stack, layerish)
                for h in st.handlers:
                    self.gid += 1
                    self.block(cls, fn, h.body, env, guards + ["g%d:except" % self.gid], depth, stack, layerish)
                self.block(cls, fn, st.orelse, env, guards, depth, stack, layerish)
                self.block(cls, fn, st.finalbody, env, guards, depth, stack, layerish)
                continue
            if isinstance(st, ast.With):
                for w in st.items:
                    self.exprs(cls, fn, w.context_expr, env, guards, depth, stack, layerish)
                self.block(cls, fn, st.body, env, guards, depth, stack, layerish)
                continue
            # simple statements: first the calls of the right-hand side / expression, then the stores
            if isinstance(st, (ast.Assign, ast.AnnAssign, ast.AugAssign)):
                if st.value is not None:
                    self.exprs(cls, fn, st.value, env, guards, depth, stack, layerish)
                targets = st.targets if isinstance(st, ast.Assign) else [st.target]
                for t in targets:
                    self.store(cls, fn, t, st, env, guards)
                # aliases
                if isinstance(st, (ast.Assign, ast.AnnAssign)) and st.value is not None and len(targets) == 1 \
                        and isinstance(targets[0], ast.Name):
                    name = targets[0].id
                    v = st.value
                    src = _norm(_subst(v, env))
                    m = re.fullmatch(r"(.+?) if isinstance\((.+?), PSDImage\) else doc\((.+)\)", src)
                    if m and m.group(1) == m.group(2) == m.group(3):
                        env[name] = "doc(%s)" % m.group(1)
                    elif isinstance(v, (ast.Name, ast.Attribute)):
                        env[name] = src
                        if self._layerish_expr(src, layerish):
                            layerish.add(name)
                    else:
                        env.pop(name, None)
                        if isinstance(v, ast.Call) and isinstance(v.func, (ast.Name, ast.Attribute)):
                            callee = ast.unparse(v.func)
                            if callee in ("cls", "kls") or callee.split(".")[-1] in ("new", "group_layers") \
                                    or callee.split(".")[-1] in self.api.classes:
                                layerish.add(name)
                continue
            if isinstance(st, ast.Delete):
                for t in st.targets:
                    self.store(cls, fn, t, st, env, guards)
                continue
            if isinstance(st, (ast.Expr, ast.Return, ast.Raise)):
                v = st.value if not isinstance(st, ast.Raise) else st.exc
                if v is not None:
                    self.exprs(cls, fn, v, env, guards, depth, stack, layerish)
                continue
            if isinstance(st, (ast.Break, ast.Continue)):
                continue
            self.emit("other", "statement %s in %s.%s" % (type(st).__name__, cls, fn.name))

    @staticmethod
    def _terminates(stmts):
        return bool(stmts) and isinstance(stmts[-1], (ast.Return, ast.Raise, ast.Continue, ast.Break))

    def _layerish_expr(self, src, layerish):
        root = re.match(r"[A-Za-z_]\w*", src)
        return src in ("self", "cls") or src.endswith(".parent") or src.startswith("doc(") \
            or (root is not None and root.group(0) in layerish and re.fullmatch(r"[\w\.\[\]\-0-9]+", src) is not None
                and not src.endswith("._layers"))

    def _layerish_iter(self, src, layerish, fn):
        if src in ("self", "self._layers", "self._layers[:]") or src.endswith(".descendants()") or src.startswith("reversed(self"):
            return True
        root = re.match(r"[A-Za-z_]\w*", src)
        if root and root.group(0) in layerish:
            return True
        for a in fn.args.args:
            if a.arg == src and a.annotation is not None and LAYERISH_ANN.search(ast.unparse(a.annotation)):
                return True
        return False

    # ---- stores -------------------------------------------------------------------------------------------
    def store(self, cls, fn, t, st, env, guards):
        if isinstance(t, (ast.Tuple, ast.List)):
            for e in t.elts:
                self.store(cls, fn, e, st, env, guards)
            return
        if isinstance(t, ast.Subscript):
            base = t.value
            if isinstance(base, ast.Name) and base.id in env and env[base.id].endswith("._layers"):
                self.emit("mut", _owner(env[base.id][:-len("._layers")]), "_layers[]" + ("del" if isinstance(st, ast.Delete) else "="), guards)
                return
            if isinstance(base, ast.Attribute) and base.attr == "_layers":
                self.emit("mut", _owner(_norm(_subst(base.value, env))), "_layers[]" + ("del" if isinstance(st, ast.Delete) else "="), guards)
            elif isinstance(base, ast.Attribute) and base.attr in STORED:
                self.emit("store", _owner(_norm(_subst(base.value, env))), base.attr + "[]", guards)
            return
        if not isinstance(t, ast.Attribute):
            return
        base = _norm(_subst(t.value, env))
        if t.attr == "_layers":
            if fn.name == "__init__" and base == "self" and cls != "PSDImage":
                return                                               # a new object's own empty list
            self.emit("mut", _owner(base), "_layers=", guards)
        elif t.attr in STORED:
            if (cls, fn.name) in EXEMPT_STORE:
                return
            self.emit("store", _owner(base), t.attr, guards)
        elif t.attr == "clipping":
            self.emit("mut", _owner(base), "clipping", guards)
        elif t.attr == "blend_mode":
            raw = base.endswith("._record") or "_setting" in base or "get_data(" in base or base in ("record", "setting")
            if raw:
                self.emit("mut", _owner(base), "blend_mode", guards)
            else:
                self.emit("other", "assignment to %s.blend_mode in %s.%s" % (base, cls, fn.name))
        elif t.attr in ("clipping_layer", "compatibility_mode"):
            self.emit("other", "assignment to %s.%s in %s.%s" % (base, t.attr, cls, fn.name))
        elif t.attr == "_compatibility_mode":
            self.emit("mut", _owner(base), "_compatibility_mode", guards)
        elif t.attr == "_record":
            if fn.name == "__init__" and base == "self":
                return
            self.emit("mut", _owner(base), "_record", guards)

    # ---- calls inside an expression, in source order -------------------------------------------------------
    def exprs(self, cls, fn, node, env, guards, depth, stack, layerish):
        calls = [n for n in ast.walk(node) if isinstance(n, ast.Call)]
        calls.sort(key=lambda n: (getattr(n, "end_lineno", 0), getattr(n, "end_col_offset", 0)))
        in_comp = set()
        for n in ast.walk(node):
            if isinstance(n, (ast.ListComp, ast.SetComp, ast.DictComp, ast.GeneratorExp, ast.Lambda)):
                for c in ast.walk(n):
                    if isinstance(c, ast.Call):
                        in_comp.add(id(c))
        for c in calls:
            self.call(cls, fn, c, env, guards, depth, stack, layerish, id(c) in in_comp)

    def call(self, cls, fn, c, env, guards, depth, stack, layerish, in_comp):
        f = c.func
        if not isinstance(f, ast.Attribute):
            return
        name = f.attr
        recv_node = f.value
        if self.pre_call(cls, fn, c, env, guards, depth, stack, layerish, in_comp):
            return                                                   # handled by a subclass (extract_c10)
        # raw list mutations
        if isinstance(recv_node, ast.Attribute) and recv_node.attr == "_layers" and name in LISTMUT:
            self.emit("mut", _owner(_norm(_subst(recv_node.value, env))), "_layers." + name, guards)
            return
        if isinstance(recv_node, ast.Attribute) and recv_node.attr in STORED and name in LISTMUT:
            if (cls, fn.name) not in EXEMPT_STORE:
                self.emit("store", _owner(_norm(_subst(recv_node.value, env))), recv_node.attr + "." + name, guards)
            return
        # super().m / super(C, self).m
        recv = _norm(_subst(recv_node, env))
        if name in LISTMUT and recv.endswith("._layers"):            # the list reached through a local alias
            self.emit("mut", _owner(recv[:-len("._layers")]), "_layers." + name, guards)
            return
        if name in LISTMUT and any(recv.endswith("." + a) for a in STORED) and (cls, fn.name) not in EXEMPT_STORE:
            self.emit("store", _owner(recv.rsplit(".", 1)[0]), recv.rsplit(".", 1)[1] + "." + name, guards)
            return
        is_super = isinstance(recv_node, ast.Call) and isinstance(recv_node.func, ast.Name) and recv_node.func.id == "super"
        if name == "_compute_clipping_layers":
            owner = recv[4:-1] if recv.startswith("doc(") and recv.endswith(")") else recv
            self.compute(owner, guards, depth, stack)
            return
        if name == "_clear_clipping_layers":
            if (cls, fn.name) != ("PSDImage", "_compute_clipping_layers"):
                self.emit("other", "%s._clear_clipping_layers() outside the pass, in %s.%s" % (recv, cls, fn.name))
            return
        cands = [k for k in self.api.by_name.get((name, "method"), []) if (k, name, "method") in self.effectful]
        if not cands or name == "__init__":
            return
        raw_recv = ast.unparse(recv_node)
        root = re.match(r"[A-Za-z_]\w*", raw_recv)
        root = root.group(0) if root else ""
        if raw_recv in ("self", "cls") or is_super:
            start = cls
            if is_super:
                m = self.api.mro(cls)
                start = m[1] if len(m) > 1 else None
            target = self.api.resolve(start, name) if start else None
            if target is None and cls == "GroupMixin" and len(cands) == 1:
                target = cands[0]                                    # a mixin calls methods of its host
            targets = [target] if target is not None else cands
        elif raw_recv in self.api.classes:
            target = self.api.resolve(raw_recv, name)
            targets = [target] if target is not None else []
        else:
            layer_like = self._layerish_expr(raw_recv, layerish) or recv.endswith(".parent") or recv.startswith("doc(")
            if root in self.api.imported and root not in self.api.classes and root not in layerish:
                return                                               # a module or a foreign class
            if name in LISTNAMES and not layer_like:
                return                                               # a plain list
            targets = cands
        targets = [t for t in targets if (t, name, "method") in self.effectful]
        if not targets:
            return
        # flatten every candidate on the side; only those that do something count
        results = []
        for target in targets:
            key = (target, name)
            if key in stack or depth >= MAX_DEPTH:
                continue                                             # its effects are those of the outer instance
            callee = self.api.methods[(target, name, "method")]
            params = [a.arg for a in callee.args.args]
            is_static = any(ast.unparse(d) == "staticmethod" for d in callee.decorator_list)
            cenv, clayer = {}, set()
            if not is_static and params:
                cenv[params[0]] = recv
                clayer.add(params[0])
                params = params[1:]
            for p, a in zip(params, c.args):
                if isinstance(a, ast.Starred):
                    break
                cenv[p] = _norm(_subst(a, env))
                if self._layerish_expr(ast.unparse(a), layerish):
                    clayer.add(p)
            for kw in c.keywords:
                if kw.arg is not None:
                    cenv[kw.arg] = _norm(_subst(kw.value, env))
                    if self._layerish_expr(ast.unparse(kw.value), layerish):
                        clayer.add(kw.arg)
            defaults = callee.args.defaults
            allp = [a.arg for a in callee.args.args]
            for p, d in zip(allp[len(allp) - len(defaults):], defaults):
                if p not in cenv:
                    cenv[p] = ast.unparse(d)
            saved = self.events
            self.events = []
            self.flatten(target, callee, cenv, guards, depth + 1, stack + [key], clayer)
            got, self.events = self.events, saved
            if any(e[0] in self.COUNTED for e in got):
                results.append((target, got))
        if not results:
            return
        if in_comp:
            self.emit("other", "%s.%s() inside a comprehension, in %s.%s" % (recv, name, cls, fn.name))
            return
        strip = lambda evs: [tuple(re.sub(r"g\d+:", "g:", str(x)) for x in e) for e in evs]
        if any(strip(r[1]) != strip(results[0][1]) for r in results[1:]):
            self.emit("other", "%s.%s(): %d candidate classes with different effects, in %s.%s"
                      % (recv, name, len(results), cls, fn.name))
            return
        self.events += results[0][1]

    def compute(self, owner, guards, depth, stack):
        """Inline `_compute_clipping_layers`: the recomputation is its call of `_clear_clipping_layers()`."""
        fn = self.api.methods.get(("PSDImage", "_compute_clipping_layers", "method"))
        if fn is None:
            self.emit("other", "PSDImage._compute_clipping_layers not found")
            return
        outer = [g for g in guards if not _psd_guard(g, owner)]
        found = []

        def walk(stmts, gs):
            for st in stmts:
                if isinstance(st, ast.If):
                    self.gid += 1
                    t = _norm(ast.unparse(st.test))
                    walk(st.body, gs + ["g%d:%s" % (self.gid, t)])
                    walk(st.orelse, gs + ["g%d:not(%s)" % (self.gid, t)])
                    if self._terminates(st.body):
                        gs = gs + ["g%d:not(%s)" % (self.gid, t)]
                    elif st.orelse and self._terminates(st.orelse):
                        gs = gs + ["g%d:%s" % (self.gid, t)]
                elif isinstance(st, (ast.For, ast.While)):
                    self.gid += 1
                    walk(st.body, gs + ["g%d:loop" % self.gid])
                elif isinstance(st, ast.Expr) and isinstance(st.value, ast.Call) and \
                        ast.unparse(st.value.func) == "self._clear_clipping_layers":
                    found.append(gs)

        walk(fn.body, [])
        if not found:
            self.emit("other", "_compute_clipping_layers() does not call self._clear_clipping_layers()")
            return
        for gs in found:
            self.emit("rec", owner, outer + gs)


def _psd_guard(g, owner):
    """Is the guard `gN:<test>` nothing but "the document of `owner` exists"?"""
    t = g.split(":", 1)[1]
    pats = [r"doc\(%s\) is not None" % re.escape(owner), r"not\(doc\(%s\) is None\)" % re.escape(owner)]
    return any(re.fullmatch(p, t) for p in pats)


def _segments(events):
    segs, cur = [], []
    for ev in events:
        if ev[0] in ("loop_begin", "loop_end"):
            if cur:
                segs.append(cur)
            cur = []
        else:
            cur.append(ev)
    if cur:
        segs.append(cur)
    return segs


def _clear_iter(api):
    fn = api.methods.get(("PSDImage", "_clear_clipping_layers", "method"))
    if fn is None:
        return "other", "?"
    loops = [s for s in fn.body if isinstance(s, ast.For)]
    if len(loops) != 1 or len([s for s in fn.body if not (isinstance(s, ast.Expr) and isinstance(s.value, ast.Constant))]) != 1:
        return "other", ast.unparse(fn)
    it = ast.unparse(loops[0].iter)
    if it in ("self.descendants()", "self.descendants(include_clip=True)", "self.descendants(True)"):
        return "all", it
    if it in ("self.descendants(include_clip=False)", "self.descendants(False)"):
        return "skipClipping", it
    return "other", it


def _body_src(fn):
    body = [s for s in fn.body if not (isinstance(s, ast.Expr) and isinstance(s.value, ast.Constant))]
    return "\n".join(ast.unparse(s) for s in body)


def read_current():
    api = _Api()
    fl = _Flat(api)
    fl.compute_effectful()
    rows = []
    for (cls, name, kind), fn in sorted(api.methods.items(), key=lambda kv: (kv[0][0], kv[1].lineno)):
        if kind == "getter" and False:
            continue
        if name.startswith("_") and not (name.startswith("__") and name.endswith("__")):
            continue
        if name in ("__init__", "__new__"):
            continue
        fl.events, fl.gid = [], 0
        fl.flatten(cls, fn, {}, [], 0, [(cls, name)], {"self", "cls"})
        if any(e[0] in ("mut", "store") for e in fl.events):
            label = "%s.%s" % (cls, name) + ("" if kind == "method" else "." + kind)
            rows.append((label, _segments(fl.events)))
    init = []
    fn = api.methods.get(("PSDImage", "__init__", "method"))
    if fn is not None:
        fl.events, fl.gid = [], 0
        fl.flatten("PSDImage", fn, {}, [], 0, [("PSDImage", "__init__")], {"self"})
        init = [e for e in fl.events if e[0] not in ("loop_begin", "loop_end")]
    kind, it = _clear_iter(api)
    comp = api.methods.get(("PSDImage", "_compute_clipping_layers", "method"))
    desc = api.methods.get(("GroupMixin", "descendants", "method"))
    compute_body = []
    if comp is not None:
        for s in comp.body:
            if isinstance(s, ast.Expr) and isinstance(s.value, ast.Constant):
                continue
            if isinstance(s, ast.FunctionDef):
                compute_body.append("def " + s.name)
            elif isinstance(s, ast.Expr) and isinstance(s.value, ast.Call) and \
                    ast.unparse(s.value.func) in ("self._clear_clipping_layers", "rec_helper"):
                compute_body.append(ast.unparse(s))
            elif isinstance(s, (ast.If, ast.For, ast.While, ast.Try, ast.With, ast.Return, ast.Raise)):
                compute_body.append(ast.unparse(s).split("\n")[0])     # anything that can skip or repeat the two steps
    return {"rows": rows, "init": init, "clear_kind": kind, "clear_iter": it, "compute_body": compute_body,
            "descendants_body": _body_src(desc) if desc is not None else "?"}


def _lstr(s):
    return '"' + s.replace("\\", "\\\\").replace('"', '\\"').replace("\n", "\\n") + '"'


def _lean_eff(e):
    strs = lambda xs: "[" + ", ".join(_lstr(x) for x in xs) + "]"
    if e[0] == "mut":
        return ".mutate %s %s %s" % (_lstr(e[1]), _lstr(e[2]), strs(e[3]))
    if e[0] == "rec":
        return ".recomp %s %s" % (_lstr(e[1]), strs(e[2]))
    if e[0] == "store":
        return ".store %s %s %s" % (_lstr(e[1]), _lstr(e[2]), strs(e[3]))
    return ".other %s" % _lstr(e[1])


def gen_clip_current(ctx):
    try:
        info = read_current()
    except Exception as e:  # noqa: a source the reader cannot digest is a broken tie, never an infrastructure error
        info = {"rows": [("<extractor>", [[("other", "extract_c15.read_current failed: %s: %s" % (type(e).__name__, e))]])],
                "init": [], "clear_kind": "other", "clear_iter": "?", "compute_body": [], "descendants_body": "?"}
        ctx.notes.append("extract_c15.read_current could not read the current source (%s): sentinel table written" % type(e).__name__)
    effs = lambda es: "[" + ", ".join(_lean_eff(e) for e in es) + "]"
    rows = ",\n".join("    ⟨%s, [%s]⟩" % (_lstr(n), ",\n      ".join(effs(s) for s in segs)) for n, segs in info["rows"])
    src = f"""import PsdVerif.Model.ClipState
namespace PsdVerif.Generated.ClipCurrent
open PsdVerif.ClipState

/-- Every public method of the API classes whose flattened body changes an input of the clipping relation
    (children lists, clipping flag, blend mode of a record or divider block, compatibility mode) or assigns the
    stored relation: its straight-line segments, each a list of effects (see harness/extract_c15.py). -/
def table : Table :=
  {{ init := {effs(info["init"])},
    rows := [
{rows}],
    clearIter := .{info["clear_kind"]} }}

/-- the iteration of `_clear_clipping_layers` as written -/
def clearIterSrc : String := {_lstr(info["clear_iter"])}
/-- the top-level statements of `_compute_clipping_layers` (first line of each) -/
def computeBody : List String := [{", ".join(_lstr(x) for x in info["compute_body"])}]
/-- `GroupMixin.descendants` without its docstring -/
def descendantsBody : String := {_lstr(info["descendants_body"])}

end PsdVerif.Generated.ClipCurrent
"""
    ctx.write_generated("ClipCurrent", src)
    return info
