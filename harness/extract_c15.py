"""C15 extractor: what `_compute_clipping_layers` tests -> Generated/ClipModes.lean.

From the AST of api/psd_image.py: the direction of the pass (`reversed(layer._layers)`), the
compatibility modes and the blend mode compared in `rec_helper`, the defaults written by
`_clear_clipping_layers`; from constants.py (live): the members of CompatibilityMode.
Also lists (for the evidence) every function that calls `_compute_clipping_layers`.
"""
from __future__ import annotations

import ast

from core import REPO, Infra
from extract import lean_str

API = REPO / "src" / "psd_tools" / "api"


def _method(tree, cls, name):
    for c in ast.walk(tree):
        if isinstance(c, ast.ClassDef) and c.name == cls:
            for f in c.body:
                if isinstance(f, ast.FunctionDef) and f.name == name:
                    return f
    raise Infra(f"{cls}.{name} not found")


def _attrs_of(node, base):
    out = []
    for n in ast.walk(node):
        if isinstance(n, ast.Attribute) and isinstance(n.value, ast.Name) and n.value.id == base:
            out.append((n.lineno, n.col_offset, n.attr))
    return [a for _, _, a in sorted(out)]


def read():
    tree = ast.parse((API / "psd_image.py").read_text())
    comp = _method(tree, "PSDImage", "_compute_clipping_layers")
    clear = _method(tree, "PSDImage", "_clear_clipping_layers")
    helper = next((n for n in ast.walk(comp) if isinstance(n, ast.FunctionDef) and n.name == "rec_helper"), None)
    if helper is None:
        raise Infra("_compute_clipping_layers: rec_helper not found")
    loop = next((n for n in ast.walk(helper) if isinstance(n, ast.For)), None)
    info = {
        "loop_iter": ast.unparse(loop.iter),
        "reversed": ast.unparse(loop.iter).startswith("reversed("),
        "modes_tested": _attrs_of(helper, "CompatibilityMode"),
        "blend_tested": _attrs_of(helper, "BlendMode"),
        "first_test": ast.unparse(loop.body[0].test) if isinstance(loop.body[0], ast.If) else "?",
        "recurses": any(isinstance(n, ast.Call) and isinstance(n.func, ast.Name) and n.func.id == "rec_helper"
                        for n in ast.walk(loop)),
        "clear": sorted(ast.unparse(s) for s in ast.walk(clear) if isinstance(s, ast.Assign)),
    }
    from psd_tools.constants import CompatibilityMode
    info["members"] = [(n, m.value) for n, m in CompatibilityMode.__members__.items()]
    callers = []
    for f in sorted(API.glob("*.py")):
        t = ast.parse(f.read_text())
        for fn in ast.walk(t):
            if isinstance(fn, ast.FunctionDef) and fn.name != "_compute_clipping_layers":
                for n in ast.walk(fn):
                    if isinstance(n, ast.Call) and isinstance(n.func, ast.Attribute) and n.func.attr == "_compute_clipping_layers":
                        callers.append(f"{f.name}:{fn.name}")
    info["recompute_callers"] = sorted(set(callers))
    return info


def gen_clip_modes(ctx):
    info = read()
    strs = lambda xs: "[" + ", ".join(lean_str(x) for x in xs) + "]"
    src = f"""namespace PsdVerif.Generated.ClipModes

/-- members of `constants.CompatibilityMode` (aliases included) with their values -/
def members : List (String × Nat) := [{", ".join("(%s, %d)" % (lean_str(n), v) for n, v in info["members"])}]
/-- modes compared with `self.compatibility_mode` in `rec_helper` (any of them makes a pass-through layer ineligible) -/
def modesTested : List String := {strs(info["modes_tested"])}
/-- blend modes compared with `sublayer.blend_mode` in `rec_helper` -/
def blendTested : List String := {strs(info["blend_tested"])}
/-- the first test of the loop body -/
def firstTest : String := {lean_str(info["first_test"])}
/-- the loop runs over `reversed(layer._layers)` (top of the group first) -/
def iteratesReversed : Bool := {"true" if info["reversed"] else "false"}
/-- `rec_helper` calls itself on every sublayer -/
def recurses : Bool := {"true" if info["recurses"] else "false"}
/-- assignments of `_clear_clipping_layers` -/
def clearAssignments : List String := {strs(info["clear"])}

end PsdVerif.Generated.ClipModes
"""
    ctx.write_generated("ClipModes", src)
    return info
