"""C09 / C10: the regenerated table of the public structural mutators (Generated/TreeTable.lean) and its
correspondence: every public call of the generated histories is one run of the table machine (driver `treetbl.run`),
lists / parent / document / dirty flag (and everything else the dump holds) compared after every call."""
from __future__ import annotations

import extract_c10
import treeops as T


def regenerate(ctx):
    """write Generated/TreeTable.lean from the current source; returns the extractor's reading"""
    info = extract_c10.gen_tree_table(ctx)
    rows = info["rows"]
    ctx.extra["tree_table_rows"] = [n for n, _, _ in rows]
    ctx.extra["tree_table_steps"] = sum(len(evs) for _, segs, _ in rows for _, evs in segs)
    ctx.extra["tree_table_helpers"] = {k: {a: b for a, b in info[k].items() if a != "src"} for k in ("check", "refresh", "dirty")}
    return info


def correspond(ctx, traces, what):
    """the histories through the table machine; then the decidable condition as the compiled driver evaluates it"""
    n = T.compare_with_model(ctx, traces, what=what + " (table machine)", table=True)
    ans = ctx.driver().batch([("treetbl.ok",)])[0]
    ok = ans[0] == "ok" and ans[1] == "1"
    ctx.extra["tree_table_ok"] = ok
    if not ok:
        ctx.disagree("%s: tableOk Generated.TreeTable.table = false (the structure of a public mutator is not one the "
                     "theorems cover: see current_tree_table_ok)" % what, {"rows": ctx.extra.get("tree_table_rows")})
    return n


NOTES = [
    "table (Generated/TreeTable.lean, harness/extract_c10.py on the machinery of extract_c15.py): per public structural "
    "mutator the tests, aliases, materialisations, assertions, _check_valid_layers calls, raw list operations (with their "
    "container), _update_layer_metadata / _update_psd_record calls in source order, and what the three helpers do; "
    "current_tree_table_ok (decide) ties tableOk to the source; every public call of the histories is one run of the table "
    "machine (treetbl.run)",
    "tied only by correspondence: the value of `newindex` in move_up / move_down (the clamping arithmetic is supplied to the "
    "table machine as in TreeSt.opMoveUp), that the receiver of a call is an object of the method's class, pixel conversion "
    "and tagged-block adoption inside _update_layer_metadata, the clipping recomputation inside _update_psd_record (C15)",
]
