"""C06 (malformed input never hangs) extractor, part 2: the REGULAR EXPRESSIONS of the engine-data tokenizer, read from the
AST of the working tree on every run (pure `ast`, psd_tools is never imported)

    -> lean/PsdVerif/Generated/EnginePatterns.lean   `patterns : List (String × String)`, `flags : String`

`patterns`  one row (name, pattern) per `compile_re(<string literal>)` call of psd/engine_data.py, in SOURCE ORDER:
            the members of `EngineToken` ("EngineToken.ARRAY_END", ...), then `Tokenizer.DIVIDER`, `Tokenizer.UTF16_END`.
            name    = "<enclosing class>.<assigned name>" (module level: the bare name; not assigned: "<anonymous>");
            pattern = the text `re` is given: the VALUE of the literal, which for the raw strings the module uses is exactly
                      the text between the quotes of the source (`\\xfe` stays the four characters backslash x f e).
            Every regular expression compiled some other way is a row too, so that it cannot go unnoticed:
              ("re.<func>:<name or enclosing function>", <pattern literal, or "<expr> " + the unparsed expression>)
            for each call `re.compile / re.search / re.match / re.fullmatch / re.sub / re.split / re.findall / re.finditer`
            outside the body of `compile_re`, and ("compile_re:<name>", "<expr> ...") for a `compile_re` call whose argument
            is not a string literal.
`flags`     the flags expression of `compile_re`: the second argument of the `re.compile` call it returns, as `ast.unparse`
            writes it ("re.S"); "" when there is none; "?" when `compile_re` no longer has that shape.

The committed snapshot is `PsdVerif.EngineRegexTables.patterns` / `.flags` (lean/PsdVerif/Model/EngineRegexTables.lean); the tie
and the safety check of every pattern (`EngineRegex.safe`: no catastrophic backtracking) are in
lean/PsdVerif/Lemmas/EngineRegexTied.lean.

A source this extractor cannot read is not an infrastructure error: the sentinel row ("?", "extractor failed: <msg>") is
emitted, the tie theorem then fails, and the run goes on.
"""
from __future__ import annotations

import ast
import sys
from pathlib import Path

HEADER = "-- REGENERATED from /repo by harness/extract.py on every run. Do not edit.\n"
MODULE = ("psd", "engine_data.py")
RE_FUNCS = {"compile", "search", "match", "fullmatch", "sub", "subn", "split", "findall", "finditer"}


def _s(x: str) -> str:
    out = []
    for ch in x:
        if ch == "\\":
            out.append("\\\\")
        elif ch == '"':
            out.append('\\"')
        elif ch == "\n":
            out.append("\\n")
        elif ch == "\t":
            out.append("\\t")
        elif ch == "\r":
            out.append("\\r")
        elif ord(ch) < 32 or ord(ch) == 127:
            out.append("\\x%02x" % ord(ch))
        else:
            out.append(ch)
    return '"' + "".join(out) + '"'


def _rows(xs) -> str:
    return "[\n  " + ",\n  ".join("(" + ", ".join(_s(y) for y in x) + ")" for x in xs) + "\n]" if xs else "[]"


def _u(node) -> str:
    return " ".join(ast.unparse(node).split())


def _is_re_call(call: ast.Call):
    f = call.func
    if isinstance(f, ast.Attribute) and isinstance(f.value, ast.Name) and f.value.id == "re" and f.attr in RE_FUNCS:
        return f.attr
    return None


def _pattern_text(arg) -> str:
    if isinstance(arg, ast.Constant) and isinstance(arg.value, str):
        return arg.value
    if isinstance(arg, ast.Constant) and isinstance(arg.value, bytes):
        return arg.value.decode("latin-1")
    return "<expr> " + _u(arg)


def engine_patterns(root: Path):
    """(rows, flags) of psd/engine_data.py under the package directory `root`"""
    path = root.joinpath(*MODULE)
    tree = ast.parse(path.read_text(encoding="utf-8"))
    found = []  # (lineno, col, name, pattern)
    flags = ["?"]

    def target_name(stmt):
        if isinstance(stmt, ast.Assign) and len(stmt.targets) == 1 and isinstance(stmt.targets[0], ast.Name):
            return stmt.targets[0].id
        if isinstance(stmt, ast.AnnAssign) and isinstance(stmt.target, ast.Name):
            return stmt.target.id
        return None

    def visit_expr(node, qual, name):
        for sub in ast.walk(node):
            if not isinstance(sub, ast.Call):
                continue
            label = ".".join(qual + [name]) if name else ".".join(qual + ["<anonymous>"])
            if isinstance(sub.func, ast.Name) and sub.func.id == "compile_re":
                if len(sub.args) == 1 and not sub.keywords and isinstance(sub.args[0], ast.Constant) \
                        and isinstance(sub.args[0].value, str):
                    found.append((sub.lineno, sub.col_offset, label, sub.args[0].value))
                else:
                    found.append((sub.lineno, sub.col_offset, "compile_re:" + label,
                                  "<expr> " + ", ".join(_u(a) for a in sub.args)))
            else:
                fn = _is_re_call(sub)
                if fn:
                    pat = _pattern_text(sub.args[0]) if sub.args else "<expr> "
                    found.append((sub.lineno, sub.col_offset, "re." + fn + ":" + label, pat))

    def visit_body(body, qual):
        for stmt in body:
            if isinstance(stmt, ast.ClassDef):
                for d in stmt.decorator_list:
                    visit_expr(d, qual, stmt.name)
                visit_body(stmt.body, qual + [stmt.name])
            elif isinstance(stmt, (ast.FunctionDef, ast.AsyncFunctionDef)):
                if not qual and stmt.name == "compile_re":
                    flags[0] = _flags_of(stmt)
                    continue
                visit_expr(stmt, qual, stmt.name)      # the whole function, nested definitions included
            else:
                visit_expr(stmt, qual, target_name(stmt))

    def _flags_of(fn) -> str:
        rets = [n for n in ast.walk(fn) if isinstance(n, ast.Return)]
        if len(rets) != 1 or not isinstance(rets[0].value, ast.Call):
            return "?"
        call = rets[0].value
        if _is_re_call(call) != "compile":
            return "?"
        for k in call.keywords:
            if k.arg == "flags":
                return _u(k.value)
        if len(call.args) >= 2:
            return _u(call.args[1])
        return ""

    visit_body(tree.body, [])
    seen = set()
    rows = []
    for ln, col, name, pat in sorted(found, key=lambda r: (r[0], r[1])):
        if (ln, col) in seen:
            continue
        seen.add((ln, col))
        rows.append((name, pat))
    return rows, flags[0]


def patterns_source(root: Path):
    try:
        rows, flags = engine_patterns(root)
        if not rows:
            rows = [("?", f"extractor failed: no compile_re call found in {'/'.join(MODULE)}")]
    except Exception as e:  # noqa
        rows, flags = [("?", f"extractor failed: {type(e).__name__}: {e}")], "?"
    src = ("namespace PsdVerif.Generated.EnginePatterns\n"
           "/-- every regular expression psd/engine_data.py compiles, (name, pattern text as `re` is given it), in source order -/\n"
           f"def patterns : List (String × String) := {_rows(rows)}\n"
           "/-- the flags expression of `compile_re` -/\n"
           f"def flags : String := {_s(flags)}\n"
           "end PsdVerif.Generated.EnginePatterns\n")
    return src, rows, flags


def _root_of_ctx():
    import core
    return core.REPO / "src" / "psd_tools"


def gen_engine_patterns(ctx):
    src, rows, flags = patterns_source(_root_of_ctx())
    for r in rows:
        if r[0] == "?":
            ctx.notes.append(f"extract_c06_re.gen_engine_patterns: {r[1]}")
    if flags == "?":
        ctx.notes.append("extract_c06_re.gen_engine_patterns: compile_re has no longer the shape `return re.compile(.., flags)`")
    ctx.write_generated("EnginePatterns", src)
    return {"patterns": len(rows), "flags": flags}


# ------------------------------------------------------------------------------------------------ command line

def main(argv):
    import argparse
    ap = argparse.ArgumentParser(description=__doc__.split("\n")[0])
    ap.add_argument("--root", help="the psd_tools package directory (default: core.REPO/src/psd_tools)")
    ap.add_argument("--write", action="store_true", help="write lean/PsdVerif/Generated/EnginePatterns.lean")
    ap.add_argument("--lean", action="store_true", help="print the Lean source instead of the plain table")
    a = ap.parse_args(argv)
    if a.root:
        root = Path(a.root)
        if (root / "psd_tools").is_dir():
            root = root / "psd_tools"
    else:
        sys.path.insert(0, str(Path(__file__).resolve().parent))
        root = _root_of_ctx()
    src, rows, flags = patterns_source(root)
    if a.write:
        gen = Path(__file__).resolve().parent.parent / "lean" / "PsdVerif" / "Generated"
        gen.mkdir(parents=True, exist_ok=True)
        f = gen / "EnginePatterns.lean"
        if not f.exists() or f.read_text() != HEADER + src:
            f.write_text(HEADER + src)
            print("wrote", f)
    if a.lean:
        print(HEADER + src)
    elif not a.write:
        print(f"# engine-data patterns ({len(rows)}) under {root}, flags = {flags}")
        for r in rows:
            print("  " + " | ".join(r))
    return 0


if __name__ == "__main__":
    sys.exit(main(sys.argv[1:]))
