"""C14 - the public read-only surface of the layer API, enumerated by REFLECTION from the live classes.

Nothing here is a hand-written list of getters: `catalog(obj)` walks the MRO of `type(obj)` and returns
  * every public `property` (its getter),
  * every public method that can be called without arguments and that the signature marks as a query: its return
    annotation is neither `None` nor `Self` (the library's mutators return nothing or the layer itself) and its name
    is not one of the mutators of `collections.abc.MutableSequence` (append, clear, extend, insert, pop, remove,
    reverse, __setitem__, __delitem__, __iadd__),
  * the read-only protocol methods of `collections.abc.Sequence` / `Sized` / `Iterable` / `Container` that the class
    implements (`__len__`, `__iter__`, `__reversed__`, `__getitem__`, `__contains__`, `index`, `count`) and the other
    one-argument queries (`find`, `findall`, ...: same rule on the return annotation) with arguments chosen from
    the annotation of the parameter (a layer, a name, an index),
  * `__repr__`, `__str__` and the display hooks `_repr_*_` (IPython protocol; `_repr_pretty_` is driven with a
    minimal printer).
Values that are themselves views of the library (`psd_tools.api.*` objects that are not layers: Mask, Effects,
VectorMask, Stroke, SmartObject, ...) are explored the same way, two levels deep (`mask.bbox`, `effects/0.color`).

A member is named by a path string: `locks`, `has_mask()`, `find('x')`, `mask.bbox`, `effects/0.enabled`.
`call(w, obj, path)` evaluates it again by reflection (exceptions are values); `canon` turns any answer into a
comparable value (layers -> harness ids, images / arrays -> digests, structures -> their serialisation).

What is skipped (zero-argument public methods classified as mutators) is returned too, so that the evidence shows
the whole classification of the surface that exists in this checkout.
"""
from __future__ import annotations

import collections.abc as cabc
import hashlib
import inspect
import io
import re

import core  # noqa: F401
from core import err_class

from psd_tools import PSDImage  # noqa: E402
from psd_tools.api.layers import GroupMixin, Layer  # noqa: E402

MUTATORS = frozenset(set(dir(cabc.MutableSequence)) - set(dir(cabc.Sequence)))        # append, pop, clear, ...
# read-only protocol methods: the dunder names of the Sequence ABC that `object` does not have, + the string conversions
PROTOCOL = (frozenset(n for n in dir(cabc.Sequence) if n.startswith("__") and n.endswith("__")) - frozenset(dir(object))) \
    | frozenset(("__repr__", "__str__", "__bool__"))


def _digest(b):
    return "%d:%s" % (len(b), hashlib.sha1(bytes(b)).hexdigest()[:20])


def _is_api_object(v):
    m = getattr(type(v), "__module__", "") or ""
    return m.startswith("psd_tools.api")


def is_view(v):
    """an object of the library's API layer that is not a layer / document: a (possibly lazily cached) view"""
    return _is_api_object(v) and not isinstance(v, (Layer, PSDImage)) and not isinstance(v, type)


# ------------------------------------------------------------------------------------------
# reflection
# ------------------------------------------------------------------------------------------
def class_members(cls):
    """name -> (defining class, raw attribute) following the MRO (first definition wins)"""
    out = {}
    for k in cls.__mro__:
        if k is object or k.__module__ == "typing":
            continue
        for n, v in vars(k).items():
            out.setdefault(n, (k, v))
    return out


def _required(fn):
    try:
        sig = inspect.signature(fn)
    except (TypeError, ValueError):
        return None
    ps = list(sig.parameters.values())[1:]
    return [p for p in ps if p.default is inspect._empty and p.kind in (p.POSITIONAL_ONLY, p.POSITIONAL_OR_KEYWORD)], sig


def _returns_nothing_or_self(sig):
    ra = sig.return_annotation
    if ra is inspect._empty:
        return False
    s = ra if isinstance(ra, str) else getattr(ra, "__name__", repr(ra))
    s = s.strip().strip("'\"")
    return s in ("None", "Self", "NoneType")


_CLASSIFY: dict = {}


def classify(cls):
    """-> (getters, zero-argument queries, one-argument queries [(name, parameter)], display hooks, skipped
    [(name, why)]) of the class as it is NOW (cached per class object)"""
    if cls in _CLASSIFY:
        return _CLASSIFY[cls]
    getters, zero, one, hooks, skipped = [], [], [], [], []
    for name, (k, v) in sorted(class_members(cls).items()):
        if isinstance(v, property):
            if not name.startswith("_") and v.fget is not None:
                getters.append(name)
            continue
        if isinstance(v, (classmethod, staticmethod)) or not inspect.isfunction(v):
            continue
        dunder = name.startswith("__") and name.endswith("__")
        hook = name.startswith("_repr_") and name.endswith("_")
        if name.startswith("_") and not (dunder and name in PROTOCOL) and not hook:
            continue
        r = _required(v)
        if r is None:
            continue
        req, sig = r
        if hook:
            hooks.append(name)
            continue
        if name in MUTATORS:
            skipped.append((name, "MutableSequence mutator"))
            continue
        if _returns_nothing_or_self(sig):
            skipped.append((name, "returns %s" % (sig.return_annotation,)))
            continue
        if len(req) == 0:
            zero.append(name)
        elif len(req) == 1:
            one.append((name, req[0]))
        else:
            skipped.append((name, "%d required arguments" % len(req)))
    _CLASSIFY[cls] = (getters, zero, one, hooks, skipped)
    return _CLASSIFY[cls]


class _Printer:
    """the part of IPython.lib.pretty.RepresentationPrinter that `_repr_pretty_` implementations use"""

    def __init__(self):
        self.out = []
        self.depth = 0

    def text(self, s):
        self.out.append(str(s))

    def break_(self):
        self.out.append("\n")

    breakable = break_

    def pretty(self, o):
        if self.depth > 50:
            self.out.append("...")
            return
        self.depth += 1
        try:
            f = getattr(type(o), "_repr_pretty_", None)
            if f is not None:
                f(o, self, False)
            else:
                self.out.append(repr(o))
        finally:
            self.depth -= 1

    def indent(self, n):
        import contextlib
        return contextlib.nullcontext()

    def group(self, *a, **k):
        import contextlib
        return contextlib.nullcontext()

    def begin_group(self, *a, **k):
        pass

    def end_group(self, *a, **k):
        pass


def _arg_values(w, obj, param):
    """arguments for a one-argument query, from the annotation / name of the parameter: [(token, value)]"""
    ann = param.annotation
    s = (ann if isinstance(ann, str) else getattr(ann, "__name__", repr(ann))) if ann is not inspect._empty else ""
    kids = list(getattr(obj, "_layers", []) or [])
    if "Layer" in s or param.name in ("layer", "item", "value"):
        out = []
        if kids:
            out.append(("#%d" % w.idof(kids[0]), kids[0]))
        other = [o for o in w.objs if isinstance(o, Layer) and all(o is not k for k in kids)]
        if other:
            out.append(("#%d" % w.idof(other[0]), other[0]))
        return out
    if s == "str" or param.name in ("name",):
        names = []
        for o in w.objs:
            if isinstance(o, Layer):
                try:
                    names.append(o.name)
                except Exception:  # noqa
                    pass
        names = list(dict.fromkeys(names))[:2] + ["no such layer"]
        return [(repr(n), n) for n in names]
    if s in ("int",) or param.name in ("key", "index", "idx", "i"):
        return [("0", 0), ("-1", -1)]
    return []


def _steps(w, obj):
    """the member calls available on `obj` (one level): [(token, thunk)]"""
    getters, zero, one, hooks, _ = classify(type(obj))
    out = [(n, None) for n in getters]
    out += [(n + "()", None) for n in zero]
    for n, p in one:
        for tok, _v in _arg_values(w, obj, p):
            out.append(("%s(%s)" % (n, tok), None))
    out += [(n + "()", None) for n in hooks]
    return [t for t, _ in out]


_STEP = re.compile(r"^([A-Za-z_][A-Za-z_0-9]*)(?:\((.*)\))?$")


def _eval_step(w, obj, tok):
    m = _STEP.match(tok)
    if not m:
        raise core.Infra("member step %r" % tok)
    name, arg = m.group(1), m.group(2)
    k, raw = class_members(type(obj)).get(name, (None, None))
    if raw is None:
        raise AttributeError(name)
    if isinstance(raw, property):
        return raw.fget(obj)
    if name.startswith("_repr_") and name.endswith("_") and name != "__repr__":
        if name == "_repr_pretty_":
            p = _Printer()
            raw(obj, p, False)
            return "".join(p.out)
        return raw(obj)
    if arg is None or arg == "":
        return raw(obj)
    if arg.startswith("#"):
        return raw(obj, w.obj(int(arg[1:])))
    if arg.startswith("'") or arg.startswith('"'):
        import ast
        return raw(obj, ast.literal_eval(arg))
    return raw(obj, int(arg))


def _materialise(v):
    """iterators / generators are consumed (that is what a caller does with them); bounded"""
    if isinstance(v, (str, bytes, bytearray, dict)) or v is None:
        return v
    if isinstance(v, (cabc.Iterator, cabc.Generator)):
        out = []
        for k, x in enumerate(v):
            out.append(x)
            if k > 2000:
                break
        return out
    return v


def evaluate(w, obj, path):
    """the value of member `path` of obj: steps separated by '.', `/k` selects item k of a sequence of views"""
    cur = obj
    for part in _split(path):
        if part.startswith("/"):
            cur = list(cur)[int(part[1:])]
        else:
            cur = _materialise(_eval_step(w, cur, part))
    return cur


def _split(path):
    """'a.b/0.c(1)' -> ['a', 'b', '/0', 'c(1)'] (dots inside parentheses / quotes are not separators)"""
    out, cur, depth, quote = [], "", 0, None
    for ch in path:
        if quote:
            cur += ch
            if ch == quote:
                quote = None
            continue
        if ch in "'\"":
            quote = ch
            cur += ch
        elif ch == "(":
            depth += 1
            cur += ch
        elif ch == ")":
            depth -= 1
            cur += ch
        elif ch == "." and depth == 0:
            if cur:
                out.append(cur)
            cur = ""
        elif ch == "/" and depth == 0:
            if cur:
                out.append(cur)
            cur = "/"
        else:
            cur += ch
    if cur:
        out.append(cur)
    return out


def catalog(w, obj, depth=2, cap=400):
    """every member path of obj (views explored `depth` levels deep). Exploring evaluates the members once
    (on a scratch world): a getter that raises is still part of the catalogue (exceptions are values)."""
    paths = []

    def explore(cur, prefix, d):
        for tok in _steps(w, cur):
            if len(paths) >= cap:
                return
            p = prefix + tok
            paths.append(p)
            if d <= 0:
                continue
            try:
                v = _materialise(_eval_step(w, cur, tok))
            except Exception:  # noqa
                continue
            if is_view(v):
                explore(v, p + ".", d - 1)
            elif isinstance(v, (list, tuple)) and v and all(is_view(x) for x in v[:3]):
                for k, x in enumerate(v[:3]):
                    explore(x, "%s/%d." % (p, k), d - 1)
            elif is_view(v) is False and hasattr(v, "__iter__") and _is_api_object(v):
                pass

    explore(obj, "", depth)
    return paths


# ------------------------------------------------------------------------------------------
# canonical answers
# ------------------------------------------------------------------------------------------
_ADDR = re.compile(r" at 0x[0-9a-fA-F]+")


def canon(w, v, depth=0):
    import enum
    if v is None or isinstance(v, (bool, int, float, str)):
        return v
    if isinstance(v, enum.Enum):
        return "%s.%s" % (type(v).__name__, v.name)
    if isinstance(v, (bytes, bytearray, memoryview)):
        b = bytes(v)
        return b if len(b) <= 32 else ("bytes", _digest(b))
    if isinstance(v, (Layer, PSDImage)):
        return ("obj", w.idof(v))
    try:
        from PIL import Image
        if isinstance(v, Image.Image):
            return ("image", v.mode, v.size, _digest(v.tobytes()))
    except Exception:  # noqa
        pass
    try:
        import numpy as np
        if isinstance(v, np.ndarray):
            return ("array", tuple(v.shape), str(v.dtype), _digest(np.ascontiguousarray(v).tobytes()))
        if isinstance(v, np.generic):
            return v.item()
    except Exception:  # noqa
        pass
    if depth > 6:
        return ("...", type(v).__name__)
    if isinstance(v, (cabc.Iterator, cabc.Generator)):
        v = _materialise(v)
    if isinstance(v, (list, tuple)):
        return [type(v).__name__ if isinstance(v, tuple) else "list"] + [canon(w, x, depth + 1) for x in v[:300]]
    if isinstance(v, (set, frozenset)):
        return ["set"] + sorted((canon(w, x, depth + 1) for x in v), key=repr)
    # structures of the file layer: their serialisation is their value
    if not _is_api_object(v):
        wr = getattr(v, "write", None)
        if callable(wr) and type(v).__module__.startswith("psd_tools.psd"):
            try:
                buf = io.BytesIO()
                wr(buf)
                return (type(v).__name__, _digest(buf.getvalue()))
            except Exception:  # noqa
                pass
    if isinstance(v, dict) or (isinstance(v, cabc.Mapping)):
        try:
            return ["map"] + sorted(((canon(w, k, depth + 1), canon(w, x, depth + 1)) for k, x in v.items()), key=repr)
        except Exception:  # noqa
            pass
    if is_view(v):
        try:
            return ("view", type(v).__name__, _ADDR.sub("", repr(v))[:200])
        except Exception as e:  # noqa
            return ("view", type(v).__name__, "repr raises " + err_class(e))
    try:
        return (type(v).__name__, _ADDR.sub("", repr(v))[:200])
    except Exception as e:  # noqa
        return (type(v).__name__, "repr raises " + err_class(e))


def answer(w, x, path):
    """the canonical answer of member `path` of object x (exceptions are values)"""
    try:
        return canon(w, evaluate(w, w.objs[x], path))
    except core.Infra:
        raise
    except RecursionError:
        return "err:RecursionError"
    except Exception as e:  # noqa
        return "err:" + err_class(e)


# ------------------------------------------------------------------------------------------
# what a read-only call must not change: the stored state of the documents
# ------------------------------------------------------------------------------------------
# lazily filled attributes the library documents as caches (C14 model: `_bbox`; views: DESIGN section 5)
CACHES = frozenset(("_bbox", "_mask", "_vector_mask", "_origination", "_stroke", "_effects"))


def _keys(blocks):
    if blocks is None:
        return None
    try:
        return tuple(bytes(getattr(k, "value", k)) for k in blocks.keys())
    except Exception:  # noqa
        return ("?",)


_NODE_TYPE: dict = {}


def _is_node(v):
    """a layer or a document (cached per class: PSDImage derives from a typing.Protocol, whose instance checks are slow)"""
    t = type(v)
    r = _NODE_TYPE.get(t)
    if r is None:
        r = _NODE_TYPE[t] = ("d" if issubclass(t, PSDImage) else "l" if issubclass(t, Layer) else "")
    return r


def _shallow(w, v):
    """value of one attribute of a layer / document object, shallow: identity of structures, value of scalars"""
    import enum
    if v is None or type(v) in (bool, int, float, str, bytes):
        return ("v", v)
    if isinstance(v, enum.Enum):
        return ("v", v.name)
    if _is_node(v):
        return ("obj", w.idof(v))
    if type(v) is list and all(_is_node(x) for x in v):
        return ("objs", tuple(w.idof(x) for x in v))
    return ("ref", type(v).__name__, id(v))


def _record_state(rec):
    """the stored fields of a layer record (everything but the tagged blocks, which are listed by key + bytes)"""
    if rec is None:
        return None
    out = []
    for f in ("top", "left", "bottom", "right", "blend_mode", "opacity", "clipping", "name", "signature"):
        v = getattr(rec, f, None)
        out.append((f, getattr(v, "name", v)))
    for f in ("flags", "mask_data", "blending_ranges", "channel_info"):
        v = getattr(rec, f, None)
        try:
            if isinstance(v, list):
                out.append((f, tuple(_digest(x.tobytes()) for x in v)))
            else:
                out.append((f, None if v is None else _digest(v.tobytes())))
        except Exception:  # noqa
            out.append((f, repr(v)[:80]))
    tb = getattr(rec, "tagged_blocks", None)
    out.append(("keys", _keys(tb)))
    if tb is not None:
        blocks = []
        for k in tb.keys():
            try:
                blocks.append(_digest(tb[k].tobytes()))
            except Exception:  # noqa
                blocks.append("?")
        out.append(("blocks", tuple(blocks)))
    return tuple(out)


def _light_record(rec):
    """identity of the record and of its blocks, its scalar fields and the key list (no serialisation)"""
    if rec is None:
        return None
    tb = getattr(rec, "tagged_blocks", None)
    fields = tuple(getattr(getattr(rec, f, None), "name", getattr(rec, f, None))
                   for f in ("top", "left", "bottom", "right", "blend_mode", "opacity", "clipping", "name"))
    fl = getattr(rec, "flags", None)
    flags = None if fl is None else tuple(sorted((k, v) for k, v in vars(fl).items())) if hasattr(fl, "__dict__") else repr(fl)
    blocks = None if tb is None else tuple((id(b), id(getattr(b, "data", None))) for b in tb.values())
    return (id(rec), fields, flags, id(getattr(rec, "mask_data", None)), _keys(tb), blocks)


def stored_state(w, full=None):
    """{(id, what): value}: per layer the record fields, the tagged-block key list and bytes, the channel planes
    and the non-cache attributes of the object; per document the header, the key lists of the document-level
    tagged blocks and image resources, the flags. The harness' own witness of 'nothing observable changed' that
    needs no save(). `full` = ids whose structures are serialised (None: all); for the other objects the identity
    of the record / block / plane objects, the scalar fields and the key lists are taken."""
    out = {}
    for i in w.ids():
        o = w.objs[i]
        d = getattr(o, "__dict__", {})
        if full is not None and i not in full:
            out[(i, "attributes")] = tuple(sorted(k for k in d if k not in CACHES))
            for k, v in d.items():
                if k not in CACHES:
                    out[(i, "attr:" + k)] = _shallow(w, v)
            if _is_node(o) == "l":
                for which in ("_record", "_bounding_record"):
                    if d.get(which) is not None:
                        lr = _light_record(d[which])
                        out[(i, which + " (fields)")] = lr[:4]
                        out[(i, which + ".tagged_blocks keys")] = lr[4]
                        out[(i, which + ".tagged_blocks (identity)")] = lr[5]
                ch = d.get("_channels")
                if ch is not None:
                    out[(i, "channels (identity)")] = tuple((id(c), id(getattr(c, "data", None))) for c in ch)
            elif _is_node(o) == "d":
                r = o._record
                lmi = r.layer_and_mask_information
                out[(i, "document tagged_blocks keys")] = _keys(getattr(lmi, "tagged_blocks", None))
                out[(i, "image_resources keys")] = tuple(getattr(k, "value", k) for k in r.image_resources.keys())
                out[(i, "sections")] = (lmi.layer_info is None, lmi.global_layer_mask_info is None,
                                        lmi.tagged_blocks is None)
                out[(i, "image_data (identity)")] = (id(r.image_data), id(getattr(r.image_data, "data", None)))
            continue
        out[(i, "attributes")] = tuple(sorted(k for k in d if k not in CACHES))
        for k, v in d.items():
            if k in CACHES:
                continue
            out[(i, "attr:" + k)] = _shallow(w, v)
        if isinstance(o, Layer):
            for which in ("_record", "_bounding_record"):
                rec = d.get(which)
                if rec is not None:
                    st = _record_state(rec)
                    out[(i, which)] = tuple(x for x in st if x[0] not in ("keys", "blocks"))
                    out[(i, which + ".tagged_blocks keys")] = dict(st).get("keys")
                    out[(i, which + ".tagged_blocks bytes")] = dict(st).get("blocks")
            ch = d.get("_channels")
            if ch is not None:
                try:
                    out[(i, "channels")] = tuple((int(c.compression), _digest(c.data or b"")) for c in ch)
                except Exception:  # noqa
                    out[(i, "channels")] = "?"
        elif isinstance(o, PSDImage):
            r = o._record
            try:
                out[(i, "header")] = _digest(r.header.tobytes())
            except Exception:  # noqa
                out[(i, "header")] = "?"
            lmi = r.layer_and_mask_information
            out[(i, "document tagged_blocks keys")] = _keys(getattr(lmi, "tagged_blocks", None))
            out[(i, "image_resources keys")] = tuple(getattr(k, "value", k) for k in r.image_resources.keys())
            out[(i, "sections")] = (lmi.layer_info is None, lmi.global_layer_mask_info is None,
                                    lmi.tagged_blocks is None)
            try:
                out[(i, "image_data")] = (int(r.image_data.compression), _digest(r.image_data.data))
            except Exception:  # noqa
                out[(i, "image_data")] = "?"
    return out


def state_diff(before, after):
    """[(id, what, before, after)] - attributes that APPEARED are reported separately (what = 'new-attribute:<name>'):
    a new lazily filled attribute is a cache until a later answer or the saved bytes show otherwise"""
    out = []
    for k in sorted(set(before) | set(after), key=repr):
        a, b = before.get(k, "<absent>"), after.get(k, "<absent>")
        if a == b:
            continue
        i, what = k
        if what == "attributes":
            new = [n for n in (b if b != "<absent>" else ()) if a == "<absent>" or n not in a]
            gone = [n for n in (a if a != "<absent>" else ()) if b == "<absent>" or n not in b]
            for n in new:
                out.append((i, "new-attribute:" + n, None, None))
            for n in gone:
                out.append((i, "attribute-removed:" + n, None, None))
            continue
        if what.startswith("attr:") and a == "<absent>":
            continue           # reported as new-attribute
        out.append((i, what, a, b))
    return out
