"""C01, deterministic boundary sweep of the file skeleton (added after the seeded changes C01-1/3 were caught
only by luck of the random stream).

`boundary_documents()` enumerates well-formed documents built from the REAL classes so that, in EVERY run and
in every tier, each optional / variant branch of the skeleton is taken with its boundary values at least once:

* MaskParameters: all 16 presence patterns x {minimum (0, 0.0), maximum (255, largest double), -0.0 / denormal};
  with and without the "real" mask fields (without them only the patterns the 20..35-byte block can hold);
* mask rectangles / colours / flag bytes at the extremes; blending ranges default / absent / 0, 1, 56 channels;
* every BlendMode, Clipping, ChannelID, Compression, GlobalLayerMaskKind, ColorMode x depth member; every
  constants.Tag as a tagged-block key (document level and layer level, PSD and PSB) and every constants.Resource
  as an image-resource id, with raw payloads of length 0..5;
* names of length 0..8, 31, 254, 255 (layer: multiple of 4; resource: even) in every encoding;
* document-level and layer-level tagged-block payload lengths 0..7 in every order position x padding 1/2/4 x
  version 1/2 x both signatures, with 8-byte-length keys in the middle;
* layer info absent / empty / n / negative count; global mask info absent / empty / full; header extremes.

Nothing here depends on VERIF_SEED. `run_extra` sends them through the same three comparisons as the random
documents of props/C01.py: model writer (bytes), model reader (tokens), Python round-trip oracle.
"""
from __future__ import annotations

import struct

import codec_common as cc
import skel
from core import hx, unhx

DMAX = struct.unpack(">d", bytes.fromhex("7fefffffffffffff"))[0]
DENORM = struct.unpack(">d", bytes.fromhex("0000000000000001"))[0]
I32MIN, I32MAX = -2 ** 31, 2 ** 31 - 1
ENCODINGS = ["macroman", "maccyrillic", "utf_8", "shift_jis", "ascii"]


def _mods():
    import psd_tools.constants as C
    import psd_tools.psd as P
    import psd_tools.psd.color_mode_data as CM
    import psd_tools.psd.header as H
    import psd_tools.psd.image_data as ID
    import psd_tools.psd.image_resources as IR
    import psd_tools.psd.layer_and_mask as LM
    import psd_tools.psd.tagged_blocks as TB
    return C, P, CM, H, ID, IR, LM, TB


class B:
    """builders with neutral defaults"""

    def __init__(self):
        (self.C, self.P, self.CM, self.H, self.ID, self.IR, self.LM, self.TB) = _mods()

    def blocks(self, items, sig=b"8BIM"):
        out = []
        for it in items:
            k, d = it[0], it[1]
            s = it[2] if len(it) > 2 else sig
            out.append((k, self.TB.TaggedBlock(signature=s, key=k, data=d)))
        return self.TB.TaggedBlocks(out)

    def rec(self, channels=(), blocks=(), **kw):
        LM = self.LM
        kw.setdefault("name", "")
        kw.setdefault("blending_ranges", LM.LayerBlendingRanges())
        r = LM.LayerRecord(channel_info=[LM.ChannelInfo(id=c[0], length=2 + len(c[2])) for c in channels],
                           tagged_blocks=self.blocks(blocks), **kw)
        return r, LM.ChannelDataList([LM.ChannelData(c[1], c[2]) for c in channels])

    def layer_info(self, recs, count=None):
        LM = self.LM
        if not recs:
            return LM.LayerInfo()
        return LM.LayerInfo(len(recs) if count is None else count, LM.LayerRecords([r for r, _ in recs]),
                            LM.ChannelImageData([c for _, c in recs]))

    def doc(self, version=1, recs=(), gblocks=(), glm="empty", lam="full", header=None, cmd=b"", resources=(),
            image=(0, bytes(range(16))), count=None, gsig=b"8BIM"):
        LM = self.LM
        hkw = dict(version=version, channels=3, height=2, width=2, depth=8, color_mode=self.C.ColorMode.RGB)
        hkw.update(header or {})
        hdr = self.H.FileHeader(**hkw)
        if lam == "absent":
            section = LM.LayerAndMaskInformation()
        else:
            g = LM.GlobalLayerMaskInfo() if glm == "empty" else None if glm == "none" else glm
            section = LM.LayerAndMaskInformation(self.layer_info(list(recs), count), g, self.blocks(gblocks, gsig))
        res = self.IR.ImageResources([(r.key, r) for r in resources])
        return self.P.PSD(hdr, self.CM.ColorModeData(cmd), res, section, self.ID.ImageData(*image))


def boundary_documents():
    """-> [(label, doc, encoding, padding)] ; deterministic"""
    b = B()
    C, LM, IR = b.C, b.LM, b.IR
    out = []
    n = [0]

    def add(label, doc, enc=None, pad=None):
        i = n[0]
        n[0] += 1
        out.append((label, doc, enc or ENCODINGS[i % len(ENCODINGS)], pad or (1, 2, 4)[i % 3]))

    def ver():
        return 1 + (n[0] // 3) % 2

    # ---- mask parameters: presence pattern x value profile, with and without the real fields
    profiles = {"min": (0, 0.0, 0, 0.0), "max": (255, DMAX, 255, DMAX), "odd": (1, -0.0, 254, DENORM),
                "mixed": (0, 1.5, 255, 0.0)}
    rect = dict(top=I32MIN, left=-1, bottom=I32MAX, right=0)
    for real in (False, True):
        for variant in range(16):
            if not real and (variant & 2) and (variant & 8):
                continue        # 18 + 1 + 16 bytes would pad to 36 = the size that announces the real fields
            for pname, pv in profiles.items():
                p = LM.MaskParameters(pv[0] if variant & 1 else None, pv[1] if variant & 2 else None,
                                      pv[2] if variant & 4 else None, pv[3] if variant & 8 else None)
                rk = {}
                if real:
                    rk = dict(real_flags=LM.MaskFlags(False, True, False, True, False, True, False, True),
                              real_background_color=255 if pname == "max" else 0, real_top=I32MAX, real_left=I32MIN,
                              real_bottom=0, real_right=-1)
                m = LM.MaskData(background_color=0 if pname == "min" else 255,
                                flags=LM.MaskFlags(False, False, False, False, True, False, False, False),
                                parameters=p, **rect, **rk)
                add(f"mask/params{variant:02d}/{pname}/{'real' if real else 'plain'}",
                    b.doc(ver(), [b.rec(mask_data=m, name="m")]))
    for real in (False, True):
        for allf in (False, True):
            rk = dict(real_flags=LM.MaskFlags(*([allf] * 4), False, *([allf] * 3)), real_background_color=255 * allf,
                      real_top=0, real_left=0, real_bottom=0, real_right=0) if real else {}
            m = LM.MaskData(top=0, left=0, bottom=0, right=0, background_color=255 * (not allf),
                            flags=LM.MaskFlags(*([allf] * 4), False, *([allf] * 3)), parameters=None, **rk)
            add(f"mask/no-params/flags-{int(allf)}/{'real' if real else 'plain'}", b.doc(ver(), [b.rec(mask_data=m)]))

    # ---- blending ranges
    lo, hi = [(0, 0), (0, 0)], [(65535, 65535), (65535, 65535)]
    for label, r in [("default", LM.LayerBlendingRanges()), ("absent", LM.LayerBlendingRanges(None, None)),
                     ("composite+0", LM.LayerBlendingRanges(lo, [])), ("composite+1", LM.LayerBlendingRanges(hi, [lo])),
                     ("composite+56", LM.LayerBlendingRanges([(0, 65535), (1, 65534)], [hi, lo] * 28))]:
        add("ranges/" + label, b.doc(ver(), [b.rec(blending_ranges=r)]))

    # ---- record scalars and enumerations
    for bm in C.BlendMode:
        for op, clip in ((0, C.Clipping.BASE), (255, C.Clipping.NON_BASE)):
            add(f"record/blend-{bm.name}/opacity{op}", b.doc(ver(), [b.rec(blend_mode=bm, opacity=op, clipping=clip)]))
    for k, fl in enumerate([[False] * 8, [True] * 8, [i % 2 == 0 for i in range(8)], [i % 2 == 1 for i in range(8)]]):
        add(f"record/flags{k}", b.doc(ver(), [b.rec(flags=LM.LayerFlags(*fl), top=I32MIN, left=I32MAX, bottom=-1, right=1)]))
    for nm in (0, 1, 2, 3, 4, 5, 6, 7, 8, 31, 254, 255):
        for enc in ENCODINGS:
            add(f"record/name{nm}/{enc}", b.doc(ver(), [b.rec(name="n" * nm)]), enc=enc)
    for enc, s in (("macroman", "é" * 255), ("utf_8", "é" * 127), ("shift_jis", "あ" * 127), ("maccyrillic", "Ж" * 3)):
        add(f"record/name-nonascii/{enc}", b.doc(ver(), [b.rec(name=s)]), enc=enc)
    for cid in C.ChannelID:
        for comp in C.Compression:
            for dl in (0, 1):
                add(f"channel/{cid.name}/{comp.name}/len{dl}",
                    b.doc(ver(), [b.rec(channels=[(cid, comp, b"\x5a" * dl), (C.ChannelID.CHANNEL_0, comp, b"\x01\x02\x03")])]))
    add("channel/none", b.doc(ver(), [b.rec()]))
    add("channel/56", b.doc(ver(), [b.rec(channels=[(C.ChannelID.CHANNEL_0, C.Compression.RAW, b"")] * 56)]))

    # ---- layer info shapes / counts
    for version in (1, 2):
        add(f"lam/absent/v{version}", b.doc(version, lam="absent"))
        add(f"lam/no-layers/v{version}", b.doc(version, [], gblocks=[(b"abcd", b"\x01")]))
        add(f"lam/no-layers-no-blocks/v{version}", b.doc(version, []))
        add(f"lam/glm-none/v{version}", b.doc(version, [b.rec(name="a")], glm="none"))
        for cnt in (3, -3):
            add(f"lam/count{cnt}/v{version}", b.doc(version, [b.rec(name="a"), b.rec(name="b"), b.rec(name="c")], count=cnt))
    for kind in C.GlobalLayerMaskKind:
        for vals, op in (([0] * 5, 0), ([65535] * 5, 65535), ([0, 65535, 1, 65534, 2], 100)):
            add(f"glm/{kind.name}/{op}", b.doc(ver(), [b.rec()], glm=LM.GlobalLayerMaskInfo(list(vals), op, kind)))

    # ---- tagged-block payload lengths x position x padding x version x signature
    seqs = [[1, 2, 3, 5, 0, 4, 7, 6], [3, 1], [2, 1], [5, 4], [0, 0, 1, 0], [7], [6, 7, 1]]
    for version in (1, 2):
        for pad in (1, 2, 4):
            for si, seq in enumerate(seqs):
                for level in ("document", "layer", "both"):
                    items = []
                    for j, ln in enumerate(seq):
                        key = (b"LMsk", b"Lr16", b"cinf", b"Mt16")[(j // 2) % 4] if j % 2 == 0 else b"k%03d" % j
                        if any(key == it[0] for it in items):
                            key = b"q%03d" % j
                        items.append((key, bytes(range(1, ln + 1)), (b"8BIM", b"8B64")[(j + si) % 2]))
                    g = items if level in ("document", "both") else []
                    r = items if level in ("layer", "both") else []
                    add(f"blocks/{level}/v{version}/pad{pad}/seq{si}", b.doc(version, [b.rec(blocks=r, name="x")], gblocks=g),
                        pad=pad)

    # ---- every Tag as a key (raw payload), every Resource as an id
    tags = sorted(m.value for m in C.Tag)
    for version in (1, 2):
        for i in range(0, len(tags), 8):
            chunk = tags[i:i + 8]
            items = [(k, bytes(range(j % 6))) for j, k in enumerate(chunk)]
            add(f"tags/document/v{version}/{chunk[0].decode('latin1')}..", b.doc(version, [b.rec()], gblocks=items))
            add(f"tags/layer/v{version}/{chunk[0].decode('latin1')}..", b.doc(version, [b.rec(blocks=items)]))
    rids = sorted({int(m.value) for m in C.Resource} | {0, 1, 999, 2999, 3000, 4000, 4999, 65535})
    sigs = [b"8BIM", b"MeSa", b"AgHg", b"PHUT", b"DCSR"]
    for i in range(0, len(rids), 16):
        chunk = rids[i:i + 16]
        res = [IR.ImageResource(signature=sigs[(i + j) % 5] if j % 4 == 3 else b"8BIM", key=k, name="r" * (j % 5),
                                data=bytes(range(j % 6))) for j, k in enumerate(chunk)]
        add(f"resources/{chunk[0]}..", b.doc(ver(), resources=res, lam="absent"))
    for nm in (0, 1, 2, 3, 254, 255):
        add(f"resources/name{nm}", b.doc(ver(), resources=[IR.ImageResource(key=1000, name="r" * nm, data=b"\x01" * (nm % 3))]))

    # ---- header extremes, colour mode data, image data
    for cm in C.ColorMode:
        for depth in (1, 8, 16, 32):
            add(f"header/{cm.name}/depth{depth}", b.doc(ver(), header=dict(color_mode=cm, depth=depth), lam="absent"))
    for ch, h, w in ((1, 1, 1), (56, 300000, 300000), (2, 1, 300000), (55, 300000, 1)):
        for version in (1, 2):
            add(f"header/{ch}x{h}x{w}/v{version}", b.doc(version, header=dict(channels=ch, height=h, width=w)))
    for ln in (0, 1, 2, 3, 768, 769):
        add(f"color-mode-data/{ln}", b.doc(ver(), cmd=bytes(i % 256 for i in range(ln)), lam="absent"))
    for comp in C.Compression:
        for ln in (0, 1, 13, 14, 255):
            add(f"image/{comp.name}/{ln}", b.doc(ver(), image=(comp, bytes(ln)), lam="absent"))
            if ln >= 13:
                add(f"image/{comp.name}/{ln}/layers", b.doc(ver(), [b.rec()], image=(comp, bytes(ln))))
    return out


# ---------------------------------------------------------------------------------------------
# where two structures differ (for the signature of a failing document)
# ---------------------------------------------------------------------------------------------
def diff_path(a, b, depth=0):
    """path of the first difference, without indices / keys (stable across inputs)"""
    import attr
    if depth > 12:
        return ""
    if type(a) is not type(b) and not (isinstance(a, (bytes, int, float, str)) and isinstance(b, (bytes, int, float, str))):
        return ":type(%s/%s)" % (type(a).__name__, type(b).__name__)
    if attr.has(type(a)):
        names = [f.name for f in attr.fields(type(a))]
        for nm in names:
            x, y = getattr(a, nm), getattr(b, nm)
            try:
                same = bool(x == y)
            except Exception:
                same = False
            if not same:
                sub = diff_path(x, y, depth + 1)
                if nm == "_items":
                    return sub
                return "." + nm.lstrip("_") + sub
        return ""
    if hasattr(a, "keys") and hasattr(b, "keys"):
        ka, kb = list(a.keys()), list(b.keys())
        if ka != kb:
            return ":keys"
        for k in ka:
            if not (a[k] == b[k]):
                return diff_path(a[k], b[k], depth + 1)
        return ""
    if isinstance(a, (list, tuple)) and isinstance(b, (list, tuple)):
        if len(a) != len(b):
            return ":length"
        for x, y in zip(a, b):
            if not (x == y):
                return diff_path(x, y, depth + 1)
        return ""
    return ""


def run_extra(ctx, doc_tokens, raw_parse_tokens):
    """called at the end of props/C01.run"""
    try:
        cases = [dict(label=l, doc=d, enc=e, pad=p) for l, d, e, p in boundary_documents()]
    except Exception as e:  # noqa  (a constructor of the implementation refused a boundary value: that is behaviour, not infrastructure)
        import traceback
        ctx.disagree("boundary document generator: a constructor of the implementation raised %s" % type(e).__name__,
                     {"traceback_tail": traceback.format_exc().splitlines()[-4:]})
        return
    live, reqs = [], []
    for c in cases:
        toks, why = doc_tokens(c["doc"], c["enc"])
        if toks is None:
            ctx.hist("boundary_skipped", c["label"].split("/")[0] + ":" + why.split(":")[0])
            continue
        c["toks"] = toks
        c["w"] = cc.write_doc(c["doc"], c["enc"], c["pad"])
        reqs.append(("psd.enc", c["pad"], toks))
        live.append(c)
    enc_ans = cc.pbatch(reqs)
    wf_ans = cc.pbatch([("psd.wf", c["pad"], c["toks"]) for c in live])
    ok_cases = []
    for c, a, wf in zip(live, enc_ans, wf_ans):
        ctx.corr_cases += 1
        ctx.count(("boundary", c["label"], c["pad"], c["enc"]), nontrivial=True)
        ctx.hist("boundary_documents", c["label"].split("/")[0])
        w = c["w"]
        if w[0] != "ok":
            ctx.hist("boundary_writer_rejects", c["label"].split("/")[0] + ":" + str(w[1]))
            if a[0] != "err" or a[1] != w[1]:
                ctx.disagree("boundary document: PSD.write exception class != model", {"label": c["label"], "py": w[1], "model": a[:2]})
            continue
        if a[0] != "ok" or unhx(a[1]) != w[1]:
            ctx.disagree("boundary document: PSD.write bytes != model enc", {"label": c["label"], "doc": c["toks"][:2000],
                                                                           "pad": c["pad"], "model": a[0], "py_len": len(w[1])})
        if not (len(wf) > 1 and wf[1] == "1"):
            ctx.disagree("boundary document is not WF in the model (generator or WF wrong)", {"label": c["label"],
                                                                                             "doc": c["toks"][:2000]})
        ok_cases.append(c)
    dec_ans = cc.pbatch([("psd.dec", hx(c["w"][1])) for c in ok_cases])
    for c, a in zip(ok_cases, dec_ans):
        ctx.corr_cases += 1
        data = c["w"][1]
        r = raw_parse_tokens(data, c["enc"])
        if r[0] == "ok":
            if a[0] != "ok" or a[1] != r[1] or int(a[2]) != r[2]:
                ctx.disagree("boundary document: PSD.read structure != model dec", {"label": c["label"], "model": a[0]})
        elif r[0] == "err":
            if a[0] != "err" or a[1] != r[1]:
                ctx.disagree("boundary document: PSD.read exception class != model dec", {"label": c["label"], "py": r[1],
                                                                                          "model": a[:2]})
        # ---- the property itself, Python only
        verdict, where, obs = "ok", "", None
        if r[0] == "ok":
            try:
                same = bool(r[3] == c["doc"])
            except Exception:
                same = False
            if not same:
                verdict, where = "reread-differs", diff_path(c["doc"], r[3])
            else:
                w2 = cc.write_doc(r[3], c["enc"], c["pad"])
                if not (w2[0] == "ok" and w2[1] == data):
                    verdict = "rewrite-differs"
            obs = {"reread_equal": same, "first_difference": where}
        elif r[0] == "err":
            verdict, obs = "read-raises", {"read": r[1]}
        else:
            ctx.hist("boundary_oracle", "not-skeleton-after-read")
            continue
        ctx.evaluations += 1
        ctx.hist("boundary_oracle", verdict)
        if verdict != "ok":
            sig = "C01/document/%s/%s" % (verdict, (where.strip(".") or c["label"].split("/")[0]))
            ctx.fail(sig, "document built from the library's classes does not survive write -> read (deterministic boundary sweep)",
                     {"label": c["label"], "doc": c["toks"], "encoding": c["enc"], "padding": c["pad"], "file": hx(data)}, obs,
                     "PSD.read(PSD.write(d)) == d and identical re-write")
    ctx.rule += (" Added: a deterministic boundary sweep (harness/gen_c01_extra.py, %d documents, independent of the seed): every "
                 "MaskParameters presence pattern x {0 / 0.0, 255 / largest double, -0.0 / denormal}, every enumeration member of "
                 "the skeleton, every constants.Tag / Resource as a key, names and block payloads of every residue x padding x "
                 "version, layer-info / global-mask / section shapes." % len(cases))
