"""C06 malformed stream, two general sections:

PAIRS      for every count-driven loop of the regenerated `ReadLoops` table (harness/extract_c06.loop_spans gives the
           line spans of the same rows) an INSTANCE is located in a traced parse (every `fp.read` of the real reader with
           its whole psd_tools call stack): the count field (the numeric field the owner read before the loop whose value
           is the number of iterations observed) and the numeric fields of the FIRST item.  Mutants: count = max (ff.. and
           7f..) x each field of the first item in {0, 1, own size, size of the item header up to and including the field,
           max} - two co-located fields at once.  Applied to fixtures that contain the loop and to a synthetic minimal
           instance per loop (the enclosing tagged block / image resource transplanted into the small synthetic document,
           PSD and PSB).
NESTING    for every recursive container of the cost model (Lr16 / Lr32 in a record's blocks, the same chain started in the
           document-level blocks, descriptor in descriptor, list in list, layer groups) depth-d chains with k junk bytes
           behind every level, k in JUNK, d on a ladder up to the recursion limit / a size budget.

Nothing here is keyed on a particular reader: the loops come from the table, the fields from the trace.
"""
from __future__ import annotations

import io
import struct
import sys
import warnings

import c06_gen as G
import core
import lenient_common as lc

P = G.P
MAX_FIELDS = 4            # numeric fields of the first item that are paired with the count
JUNK = (0, 1, 8, 64)
LADDER = (1, 2, 3, 4, 5, 6, 7, 8, 9, 10, 12, 14, 16, 20, 24, 32, 48, 64, 96)
SIZE_BUDGET = 24_000      # bytes per nested file (stored as hex in a replay file)


# ------------------------------------------------------------------------------------------------ traced parse
def trace_stacks(data: bytes):
    """-> (result, raw fields, stacks): every read of the real `PSD.read` (lenient_common's recording BytesIO) and,
    parallel to it, the psd_tools frames on the stack, OUTERMOST first, as (file, line)"""
    from psd_tools.psd import PSD
    stacks = []
    orig = lc._label

    def label():
        f = sys._getframe(2)
        st = []
        n = 0
        while f is not None and n < 400:
            fn = f.f_code.co_filename
            if "psd_tools" in fn:
                st.append((fn, f.f_lineno))
            f = f.f_back
            n += 1
        st.reverse()
        stacks.append(tuple(st))
        return orig()

    t = lc._Trace(data)
    lc._cur = t
    lc._label = label
    io.BytesIO = lc._TBytesIO
    struct.unpack = lc._t_unpack
    try:
        try:
            with warnings.catch_warnings():
                warnings.simplefilter("ignore")
                fp = lc._TBytesIO(data)
                PSD.read(fp)
                res = ("ok", fp.tell())
        except RecursionError:
            res = ("err", "RecursionError")
        except Exception as e:  # noqa
            res = ("err", core.err_class(e))
    finally:
        io.BytesIO = lc._RealBytesIO
        struct.unpack = lc._real_unpack
        lc._cur = None
        lc._label = orig
    return res, t.fields, stacks


def _nums(f):
    """numeric sub-fields (off, size) of one raw read"""
    if f.got != f.size or f.size == 0:
        return []
    if f.fmt and f.fmt != "float":
        parts = lc.split_fmt(f) if f.size not in (1, 2, 4, 8) or len(f.fmt.lstrip("<>!=@")) > 1 else [f]
        out = []
        for g in parts:
            code = g.code or (f.fmt.lstrip("<>!=@")[-1] if g is f else None)
            if g.size in (1, 2, 4, 8) and code not in ("f", "d", "s", "p", "c", "?") and g.fmt != "float":
                out.append((g.off, g.size))
        return out
    return []


def find_instances(data: bytes, spans, want=None):
    """-> (result, {loop key: instance}) first instance of each loop in the parse of `data`.
    instance = dict(count=[(off, size, value)], item_start, item_fields=[(off, size)], iterations, stack_tail)"""
    res, fields, stacks = trace_stacks(data)
    by_file = {}
    for sp in spans:
        by_file.setdefault(sp["path"], []).append(sp)
    found = {}
    n = len(fields)
    for i in range(n):
        st = stacks[i]
        for k, (fn, line) in enumerate(st):
            for sp in by_file.get(fn, ()):
                if not (sp["body_start"] <= line <= sp["end"]):
                    continue
                key = loop_key(sp)
                if key in found or (want is not None and key not in want):
                    continue
                # a comprehension / one-line loop whose own header reads the count: the header read is not an item
                prefix = st[:k]
                tail0 = st[k:]

                def in_fn(j):
                    sj = stacks[j]
                    return len(sj) > k and sj[:k] == prefix and sj[k][0] == fn and sp["fn_start"] <= sj[k][1] <= sp["fn_end"]

                def in_body(j):
                    return in_fn(j) and sp["body_start"] <= stacks[j][k][1] <= sp["end"]
                # pre-loop reads of this invocation of the owner function (walking back over nested reads of callees)
                pre = []
                j = i - 1
                while j >= 0 and len(pre) < 24 and in_fn(j) and not in_body(j):
                    if len(stacks[j]) <= k + 2:        # read by the owner itself (through a utils helper at most)
                        pre.append(j)
                    j -= 1
                # the first item and the number of iterations
                item, iters = [], 1
                j = i
                first_done = False
                while j < n and in_body(j):
                    if j > i and stacks[j][k:] == tail0:
                        first_done = True
                        iters += 1
                    if not first_done:
                        item.append(j)
                    j += 1
                    if j - i > 200_000:
                        break
                cands = []
                for jj in pre:                      # nearest first
                    for off, size in reversed(_nums(fields[jj])):
                        cands.append((off, size, int.from_bytes(data[off:off + size], "big")))
                exact = [c for c in cands if c[2] == iters]
                if not exact:
                    # the count was read by a caller and handed down (LayerRecords.read(fp, layer_count)): the nearest
                    # numeric field in front of the loop whose (absolute, for signed counts) value is the number of iterations
                    for jj in range(i - 1, max(-1, i - 13), -1):
                        for off, size in reversed(_nums(fields[jj])):
                            v = int.from_bytes(data[off:off + size], "big")
                            sv = v - (256 ** size) if v >= (256 ** size) // 2 else v
                            if abs(sv) == iters and not exact:
                                exact.append((off, size, v))
                count = exact[:1] or cands[:1]
                nums = []
                for jj in item:
                    for off, size in _nums(fields[jj]):
                        if (off, size) not in nums and (off, size) not in [(c[0], c[1]) for c in count]:
                            nums.append((off, size))
                nums.sort(key=lambda x: (0 if x[1] >= 2 else 1))      # lengths / sizes are at least two bytes wide
                found[key] = dict(count=count, item_start=fields[i].off, item_fields=sorted(nums[:MAX_FIELDS]),
                                  iterations=iters, first_read=i, n_item_reads=len(item),
                                  container=_container(data, fields, stacks, i, count))
    return res, found


def loop_key(sp):
    """the row of the ReadLoops table (module, function, kind, header) + its ordinal among equal rows of the function"""
    return "%s:%s:%s(%s)%s" % (sp["mod"], sp["qual"], sp["kind"], sp["header"], "#%d" % sp["ord"] if sp.get("ord") else "")


def _container(data, fields, stacks, i, count):
    """the tagged block / image resource whose payload holds the loop instance -> dict(kind, key, payload=(off, n), where)"""
    lo = min([fields[i].off] + [c[0] for c in count])
    best = None
    for j in range(i - 1, max(-1, i - 4000), -1):
        f = fields[j]
        if f.label in ("TaggedBlock", "ImageResource") and f.fmt is None and f.got == f.size and f.off <= lo < f.off + f.got and f.got >= 4:
            if best is None or f.got < best.got:
                best = f
                bj = j
    if best is None:
        return None
    off, n = best.off, best.got
    if best.label == "TaggedBlock":
        for w in (4, 8):
            if off - w - 8 >= 0 and int.from_bytes(data[off - w:off], "big") == n and data[off - w - 8:off - w - 4] in (b"8BIM", b"8B64"):
                where = "layer" if _under_record(stacks[bj]) else "global"
                return dict(kind="block", key=data[off - w - 4:off - w], payload=(off, n), where=where)
        return None
    # image resource: 8BIM id(2) pascal(pad 2) len(4) payload
    for back in range(10, 270):
        s = off - back
        if s >= 0 and data[s:s + 4] == b"8BIM":
            ln = data[s + 6]
            name_len = 1 + ln + ((1 + ln) % 2)
            if s + 6 + name_len + 4 == off and int.from_bytes(data[off - 4:off], "big") == n:
                return dict(kind="resource", key=int.from_bytes(data[s + 4:s + 6], "big"), payload=(off, n), where="resources")
    return None


_RECORD_LINES = {}


def _under_record(stack):
    """is a frame of LayerRecord.read / _read_extra on the stack? (line spans of the class read once from the AST)"""
    import ast
    for fn, line in stack:
        if not fn.endswith("layer_and_mask.py"):
            continue
        if fn not in _RECORD_LINES:
            spans = []
            try:
                tree = ast.parse(open(fn).read())
                for n in ast.walk(tree):
                    if isinstance(n, ast.ClassDef) and n.name == "LayerRecord":
                        spans.append((n.lineno, n.end_lineno))
            except Exception:  # noqa
                pass
            _RECORD_LINES[fn] = spans
        if any(a <= line <= b for a, b in _RECORD_LINES[fn]):
            return True
    return False


def index_file(arg):
    """helper-process entry: (path, spans) -> (name, size, {key: instance}) for the count-driven loops"""
    import logging
    logging.disable(logging.CRITICAL)
    path, spans = arg
    try:
        b = path.read_bytes()
        res, found = find_instances(b, spans)
        if res[0] != "ok":
            return path.name, len(b), {}
        return path.name, len(b), found
    except Exception:  # noqa
        return path.name, 0, {}


# ------------------------------------------------------------------------------------------------ pair mutants
def _put(b, off, raw):
    return b[:off] + raw + b[off + len(raw):]


def field_values(off, size, item_start):
    m = 256 ** size
    vals = [("0", 0), ("1", 1), ("own-size", size), ("header-size", off + size - item_start), ("max", m - 1)]
    out, seen = [], set()
    for nm, v in vals:
        if 0 <= v < m and v not in seen:
            seen.add(v)
            out.append((nm, v))
    return out


def pair_mutants(b: bytes, inst, with_single=True):
    """-> [(bytes, why)]: count = ff.. x every value of every first-item field; count = 7f.. x {0, own size};
    for a loop without a count field (while loops) the item fields alone"""
    out = []
    counts = inst["count"] or [None]
    for c in counts:
        pats = (("ff", b"\xff"), ("7f", b"\x7f")) if c else ((None, None),)
        for pn, lead in pats:
            if c:
                raw = lead + b"\xff" * (c[1] - 1)
                base = _put(b, c[0], raw)
                cw = f"count@{c[0]}/{c[1]}={pn}"
                if with_single and base != b:
                    out.append((base, cw))
            else:
                base, cw = b, "no-count"
            for off, size in inst["item_fields"]:
                for vn, v in field_values(off, size, inst["item_start"]):
                    if pn == "7f" and vn not in ("0", "own-size"):
                        continue
                    m = _put(base, off, v.to_bytes(size, "big"))
                    if m != base and m != b:
                        out.append((m, f"{cw} x item-field@{off}/{size}={vn}"))
    return out


def transplant(b: bytes, cont, version):
    """the synthetic minimal instance: the container's payload inside the small synthetic document"""
    if not cont:
        return None
    off, n = cont["payload"]
    payload = b[off:off + n]
    if cont["kind"] == "block":
        return G.doc_with_block(cont["key"], payload, version, where=cont["where"])
    if version != 1:
        return None
    return G.doc_with_resource(cont["key"], payload)


# ------------------------------------------------------------------------------------------------ nesting chains
def _record(blocks, tail, version, name=b"abc", nchan=0):
    """a layer record without channels whose extra data is mask(0) ranges(0) name blocks tail"""
    extra = P("II", 0, 0) + G.pascal(name, 4) + blocks + tail
    extra += b"\0" * (len(extra) % 2)
    return P("4iH", 0, 0, 0, 0, nchan) + b"8BIM" + b"norm" + bytes([255, 0, 8, 0]) + P("I", len(extra)) + extra


def _info_body(records, count=None):
    body = P("h", len(records) if count is None else count) + b"".join(records)
    return body + G.padto(len(body), 4)


def junk(k):
    return (b"JUNK" * (k // 4 + 1))[:k]


def chain_record_lr(depth, k, version, key):
    """layer info -> record -> blocks: Lr16/Lr32 -> layer info -> record ... (depth levels), k junk bytes behind the
    blocks of EVERY record"""
    t = junk(k)
    blocks = b""
    for _ in range(depth):
        inner = _info_body([_record(blocks, t, version)])
        blocks = G.tagged_block(key, inner, version)
    info = _info_body([_record(blocks, t, version)])
    fmt = "Q" if version == 2 else "I"
    section = P(fmt, len(info)) + info + P("I", 0)
    return G.header(version) + P("II", 0, 0) + P(fmt, len(section)) + section + P("H", 0) + b"\0" * 48


def chain_doc_lr(depth, k, version, key):
    """the same chain started in the DOCUMENT-level tagged blocks (empty layer info, empty global mask), k junk bytes
    behind every record's blocks and behind the document-level blocks"""
    t = junk(k)
    blocks = b""
    for _ in range(max(0, depth - 1)):
        inner = _info_body([_record(blocks, t, version)])
        blocks = G.tagged_block(key, inner, version)
    top = G.tagged_block(key, _info_body([_record(blocks, t, version)]), version, pad=4)
    fmt = "Q" if version == 2 else "I"
    section = P(fmt, 0) + P("I", 0) + top + t
    return G.header(version) + P("II", 0, 0) + P(fmt, len(section)) + section + P("H", 0) + b"\0" * 48


def chain_objc(depth, k, version=1):
    return G.doc_with_block(b"artb", P("I", 16) + G.nested_objc(depth) + junk(k) * depth, version)


def chain_vlls(depth, k, version=1):
    return G.doc_with_block(b"artb", P("I", 16) + G.nested_vlls(depth) + junk(k) * depth, version)


def _lsct(kind):
    return G.tagged_block(b"lsct", P("I", kind) + b"8BIM" + b"pass")


def chain_groups(depth, k, version=1):
    """depth nested layer groups around one leaf; k junk bytes behind the blocks of every record"""
    t = junk(k)
    recs = [_record(_lsct(3), t, version, b"</g") for _ in range(depth)] + [_record(b"", t, version, b"leaf")] + \
           [_record(_lsct(1), t, version, b"grp") for _ in range(depth)]
    info = _info_body(recs)
    fmt = "Q" if version == 2 else "I"
    section = P(fmt, len(info)) + info + P("I", 0)
    return G.header(version) + P("II", 0, 0) + P(fmt, len(section)) + section + P("H", 0) + b"\0" * 48


CONTAINERS = (          # (name, builder(depth, k), deepest level worth building)
    ("record-Lr16-v1", lambda d, k: chain_record_lr(d, k, 1, b"Lr16"), None),
    ("record-Lr32-v2", lambda d, k: chain_record_lr(d, k, 2, b"Lr32"), None),
    ("record-Lr16-v2", lambda d, k: chain_record_lr(d, k, 2, b"Lr16"), None),
    ("document-Lr16-v1", lambda d, k: chain_doc_lr(d, k, 1, b"Lr16"), None),
    ("document-Lr32-v2", lambda d, k: chain_doc_lr(d, k, 2, b"Lr32"), None),
    ("descriptor-Objc", lambda d, k: chain_objc(d, k), None),
    ("descriptor-VlLs", lambda d, k: chain_vlls(d, k), None),
    ("groups-v1", lambda d, k: chain_groups(d, k, 1), None),
)


def stages(limit):
    """depths grouped into stages (one flush of the stream per stage: a chain that produced a failing input is dropped
    from the later stages, so the reported input is near the least depth that fails and hangs are not multiplied)"""
    out = [(1, 2, 3, 4, 5, 6), (7, 8), (9,), (10,), (12,), (14, 16), (20, 24, 32), (48, 64, 96)]
    out = [tuple(d for d in st if d < limit - 1) for st in out]
    return [st for st in out if st] + [(limit - 1, limit, limit + 2)]


def nest_stage(depths, dead):
    """-> [(chain id, bytes, why)] of one stage, chains in `dead` left out"""
    row = []
    for d in depths:
        for name, build, _ in CONTAINERS:
            for k in JUNK:
                chain = f"{name}/junk{k}"
                if chain in dead:
                    continue
                try:
                    b = build(d, k)
                except (RecursionError, struct.error):
                    continue
                if len(b) > SIZE_BUDGET:
                    continue
                row.append((chain, b, f"nest:{name} depth={d} junk={k} ({len(b)} bytes)"))
    return row


def ladder(limit):
    """depths: the fixed ladder, then the recursion limit of the real reader -1 / +0 / +2"""
    out = [d for d in LADDER if d < limit]
    return out + [limit - 1, limit, limit + 2]


def nest_levels(limit, quick):
    """-> [(depth, [(chain id, bytes, why)])] depth by depth (the caller drops a chain once it produced a failing input)"""
    levels = []
    for d in ladder(limit):
        row = []
        for name, build, _ in CONTAINERS:
            for k in JUNK:
                try:
                    b = build(d, k)
                except (RecursionError, struct.error):
                    continue
                if len(b) > SIZE_BUDGET:
                    continue
                row.append((f"{name}/junk{k}", b, f"nest:{name} depth={d} junk={k} ({len(b)} bytes)"))
        levels.append((d, row))
    return levels
