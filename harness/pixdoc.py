"""Low-level builder of small pixel documents for the compositing checks (C11, C13).

A recipe is a list of nodes, bottom first:
  {"t": "pixel", "rect": [l,t,r,b], "color": uint8 array (h,w,C), "alpha": uint8 array (h,w) | None,
   "opacity": 0..255, "fill": 0..255 | None, "blend": "MULTIPLY", "visible": bool, "clip": bool,
   "knockout": bool, "mask": {"rect": [l,t,r,b], "bg": 0|255, "data": uint8 (h,w), "disabled": bool,
   "density": int | None} | None}
  {"t": "group", "blend": "PASS_THROUGH" | ..., "opacity", "fill", "visible", "clip", "knockout", "mask": as above | None,
   "children": [...]}
Extensions (fill layers, layer effects, adjustment layers; C11/C13 "fx" streams):
  any pixel / fill / group node may carry "effects": {"master": bool, "items": [
      {"kind": "color", "color": [..one value per channel, 0..255..], "opacity": 0..100, "blend": "Nrml"|"Mltp"|..., "enabled": bool},
      {"kind": "gradient", "stops": [[loc 0..4096, [color]], ...], "alpha_stops": [[loc, 0..100], ...] | None, "angle": deg,
       "opacity", "blend", "enabled"},
      {"kind": "stroke", "color": [...], "size": px, "position": "OutF"|"InsF"|"CtrF", "opacity", "blend", "enabled"}]}
  {"t": "fill", "fillcolor": [..], "rect": [l,t,r,b] (record rectangle; [0,0,0,0] = whole canvas),
   "vmask": None | {"rects": [[l,t,r,b], ...] in pixels, "disabled": bool, "shape": bool (pixel_data_irrelevant: a shape layer)},
   "pixels": None | {"color": uint8 (h,w,C), "alpha": uint8 (h,w) | None}   (the rendered pixels Photoshop stores beside the fill),
   + opacity, fill, blend, visible, clip, knockout, mask as for pixel nodes}
  {"t": "adjustment", "rect": [l,t,r,b], + opacity, blend, visible, clip}      (an Invert adjustment layer)
Records are built with the library's own low-level classes and the document is
serialised and re-opened, so what is composited went through the real reader.
"""
from __future__ import annotations

import io

import numpy as np

import core  # noqa: F401
from psd_tools.api.psd_image import PSDImage
from psd_tools.constants import BlendMode, ChannelID, Clipping, Compression, SectionDivider, Tag
from psd_tools.psd import PSD
from psd_tools.psd.image_data import ImageData
from psd_tools.psd.image_resources import ImageResources
from psd_tools.psd.layer_and_mask import (
    ChannelData, ChannelDataList, ChannelImageData, ChannelInfo, LayerAndMaskInformation, LayerFlags,
    LayerInfo, LayerRecord, LayerRecords, MaskData, MaskFlags, MaskParameters,
)
from psd_tools.psd.tagged_blocks import SectionDividerSetting, TaggedBlock, TaggedBlocks
from psd_tools.psd.base import ByteElement, EmptyElement
from psd_tools.psd.descriptor import (
    Bool, Descriptor, DescriptorBlock, DescriptorBlock2, Double, Enumerated, Integer, List as DList, String, UnitFloat,
)
from psd_tools.psd.vector import (
    ClosedKnotLinked, ClosedPath, InitialFillRule, Path, PathFillRule, VectorMaskSetting,
)
from psd_tools.terminology import Unit


def _chan(data: bytes, w, h, depth, compression):
    c = ChannelData(compression=Compression.RAW, data=b"")
    c.set_data(data, w, h, depth)
    if compression != Compression.RAW:
        c = ChannelData(compression=compression, data=b"")
        c.set_data(data, w, h, depth)
    return c


def _common(rec: LayerRecord, n):
    rec.opacity = int(n.get("opacity", 255))
    rec.flags = LayerFlags(visible=bool(n.get("visible", True)))
    rec.clipping = Clipping.NON_BASE if n.get("clip") else Clipping.BASE
    if n.get("fill") is not None:
        rec.tagged_blocks[Tag.BLEND_FILL_OPACITY] = TaggedBlock(key=Tag.BLEND_FILL_OPACITY, data=ByteElement(int(n["fill"])))
    if n.get("knockout"):
        rec.tagged_blocks[Tag.KNOCKOUT_SETTING] = TaggedBlock(key=Tag.KNOCKOUT_SETTING, data=ByteElement(1))


def _color_desc(values, mode):
    """colour descriptor of the document's colour mode from one byte per channel (the storage convention of the
    compositor: CMYK and grey values are 'paper white = 255')"""
    v = [float(x) for x in values]
    if mode == "RGB":
        d = Descriptor(name="\x00", classID=b"RGBC")
        for k, x in zip((b"Rd  ", b"Grn ", b"Bl  "), v):
            d[k] = Double(x)
    elif mode == "L":
        d = Descriptor(name="\x00", classID=b"Grsc")
        d[b"Gry "] = Double(100.0 - v[0] * 100.0 / 255.0)
    elif mode == "CMYK":
        d = Descriptor(name="\x00", classID=b"CMYC")
        for k, x in zip((b"Cyn ", b"Mgnt", b"Ylw ", b"Blck"), v):
            d[k] = Double(100.0 - x * 100.0 / 255.0)
    else:
        raise ValueError(mode)
    return d


def _effect_common(d, e):
    d[b"enab"] = Bool(bool(e.get("enabled", True)))
    d[b"present"] = Bool(True)
    d[b"showInDialog"] = Bool(True)
    d[b"Md  "] = Enumerated(typeID=b"BlnM", enum=e.get("blend", "Nrml").encode("ascii"))


def _gradient_desc(e, mode):
    g = Descriptor(name="Gradient\x00", classID=b"Grdn")
    g[b"Nm  "] = String("custom\x00")
    g[b"GrdF"] = Enumerated(typeID=b"GrdF", enum=b"CstS")
    g[b"Intr"] = Double(4096.0)
    stops = DList()
    for loc, col in e["stops"]:
        st = Descriptor(name="\x00", classID=b"Clrt")
        st[b"Clr "] = _color_desc(col, mode)
        st[b"Type"] = Enumerated(typeID=b"Clry", enum=b"UsrS")
        st[b"Lctn"] = Integer(int(loc))
        st[b"Mdpn"] = Integer(50)
        stops.append(st)
    g[b"Clrs"] = stops
    if e.get("alpha_stops") is not None:
        tr = DList()
        for loc, op in e["alpha_stops"]:
            st = Descriptor(name="\x00", classID=b"TrnS")
            st[b"Opct"] = UnitFloat(unit=Unit.Percent, value=float(op))
            st[b"Lctn"] = Integer(int(loc))
            st[b"Mdpn"] = Integer(50)
            tr.append(st)
        g[b"Trns"] = tr
    return g


def _effects_block(fx, mode):
    """the `lfx2` block (object based effects layer info) of {"master": bool, "items": [...]}"""
    d = DescriptorBlock2(name="\x00", classID=b"null", version=0, data_version=16)
    d[b"Scl "] = UnitFloat(unit=Unit.Percent, value=100.0)
    d[b"masterFXSwitch"] = Bool(bool(fx.get("master", True)))
    multi = {}
    for e in fx.get("items", []):
        k = e["kind"]
        if k == "color":
            x = Descriptor(name="\x00", classID=b"SoFi")
            _effect_common(x, e)
            x[b"Clr "] = _color_desc(e["color"], mode)
            x[b"Opct"] = UnitFloat(unit=Unit.Percent, value=float(e.get("opacity", 100)))
            multi.setdefault((b"SoFi", b"solidFillMulti"), []).append(x)
        elif k == "gradient":
            x = Descriptor(name="\x00", classID=b"GrFl")
            _effect_common(x, e)
            x[b"Opct"] = UnitFloat(unit=Unit.Percent, value=float(e.get("opacity", 100)))
            x[b"Grad"] = _gradient_desc(e, mode)
            x[b"Angl"] = UnitFloat(unit=Unit.Angle, value=float(e.get("angle", 0)))
            x[b"Type"] = Enumerated(typeID=b"GrdT", enum=e.get("style", "Lnr ").encode("ascii"))
            x[b"Rvrs"] = Bool(bool(e.get("reverse", False)))
            x[b"Dthr"] = Bool(False)
            x[b"Algn"] = Bool(True)
            x[b"Scl "] = UnitFloat(unit=Unit.Percent, value=float(e.get("scale", 100)))
            multi.setdefault((b"GrFl", b"gradientFillMulti"), []).append(x)
        elif k == "stroke":
            x = Descriptor(name="\x00", classID=b"FrFX")
            _effect_common(x, e)
            x[b"Styl"] = Enumerated(typeID=b"FStl", enum=e.get("position", "OutF").encode("ascii"))
            x[b"PntT"] = Enumerated(typeID=b"FrFl", enum=b"SClr")
            x[b"Opct"] = UnitFloat(unit=Unit.Percent, value=float(e.get("opacity", 100)))
            x[b"Sz  "] = UnitFloat(unit=Unit.Pixels, value=float(e.get("size", 3)))
            x[b"Clr "] = _color_desc(e["color"], mode)
            x[b"overprint"] = Bool(False)
            multi.setdefault((b"FrFX", b"frameFXMulti"), []).append(x)
        else:
            raise ValueError(k)
    for (single, many), items in multi.items():
        if len(items) == 1:
            d[single] = items[0]
        else:
            lst = DList()
            for it in items:
                lst.append(it)
            d[many] = lst
    return TaggedBlock(key=Tag.OBJECT_BASED_EFFECTS_LAYER_INFO, data=d)


def _vector_mask_block(vm, size):
    """a vector mask made of axis-parallel rectangles given in pixels (combined by union)"""
    W, H = size
    items = [PathFillRule(), InitialFillRule(0)]
    for k, (l, t, r, b) in enumerate(vm["rects"]):
        pts = [(t / H, l / W), (t / H, r / W), (b / H, r / W), (b / H, l / W)]
        knots = [ClosedKnotLinked(preceding=p, anchor=p, leaving=p) for p in pts]
        items.append(ClosedPath(items=knots, operation=1, index=k))
    flags = 4 if vm.get("disabled") else 0
    return TaggedBlock(key=Tag.VECTOR_MASK_SETTING1, data=VectorMaskSetting(version=3, flags=flags, path=Path(items)))


def _decorate(rec, n, mode, size):
    """blocks any layer record may carry: layer effects"""
    if n.get("effects"):
        rec.tagged_blocks[Tag.OBJECT_BASED_EFFECTS_LAYER_INFO] = _effects_block(n["effects"], mode)


def _records(nodes, depth, compression, out_recs, out_chans, counter, mode="RGB", size=(1, 1)):
    for n in nodes:
        counter[0] += 1
        name = n.get("name") or "%s%d" % (n["t"][0], counter[0])
        n["name"] = name
        if n["t"] == "group":
            # bounding divider, children, then the group record (records are stored bottom first)
            b = LayerRecord(name="</Layer group>")
            b.tagged_blocks = TaggedBlocks()
            b.tagged_blocks[Tag.SECTION_DIVIDER_SETTING] = TaggedBlock(
                key=Tag.SECTION_DIVIDER_SETTING, data=SectionDividerSetting(SectionDivider.BOUNDING_SECTION_DIVIDER))
            b.channel_info = [ChannelInfo(id=ChannelID(i - 1), length=2) for i in range(4)]
            out_recs.append(b)
            out_chans.append(ChannelDataList([ChannelData(compression=Compression.RAW, data=b"") for _ in range(4)]))
            _records(n["children"], depth, compression, out_recs, out_chans, counter, mode, size)
            g = LayerRecord(name=name)
            g.tagged_blocks = TaggedBlocks()
            blend = BlendMode[n.get("blend", "PASS_THROUGH")]
            g.tagged_blocks[Tag.SECTION_DIVIDER_SETTING] = TaggedBlock(
                key=Tag.SECTION_DIVIDER_SETTING,
                data=SectionDividerSetting(SectionDivider.OPEN_FOLDER, signature=b"8BIM", blend_mode=blend))
            g.blend_mode = BlendMode.NORMAL if blend == BlendMode.PASS_THROUGH else blend
            _common(g, n)
            _decorate(g, n, mode, size)
            g.channel_info = [ChannelInfo(id=ChannelID(i - 1), length=2) for i in range(4)]
            gch = ChannelDataList([ChannelData(compression=Compression.RAW, data=b"") for _ in range(4)])
            m = n.get("mask")
            if m:       # a raster mask on the group record, stored like a pixel layer's
                g.mask_data, minfo, mchan = _mask(m, compression, depth)
                g.channel_info.append(minfo)
                gch.append(mchan)
            out_recs.append(g)
            out_chans.append(gch)
            continue
        if n["t"] in ("fill", "adjustment"):
            l, t, r, b = n.get("rect") or [0, 0, 0, 0]
            rec = LayerRecord(top=t, left=l, bottom=b, right=r, name=name)
            rec.tagged_blocks = TaggedBlocks()
            rec.blend_mode = BlendMode[n.get("blend", "NORMAL")]
            _common(rec, n)
            infos, chans = [], ChannelDataList()
            nch = {"L": 1, "RGB": 3, "CMYK": 4}[mode]
            px = n.get("pixels") if n["t"] == "fill" else None
            if n["t"] == "fill":
                sd = DescriptorBlock(name="\x00", classID=b"null", version=16)
                sd[b"Clr "] = _color_desc(n["fillcolor"], mode)
                rec.tagged_blocks[Tag.SOLID_COLOR_SHEET_SETTING] = TaggedBlock(key=Tag.SOLID_COLOR_SHEET_SETTING, data=sd)
                vm = n.get("vmask")
                if vm:
                    rec.tagged_blocks[Tag.VECTOR_MASK_SETTING1] = _vector_mask_block(vm, size)
                    if vm.get("shape"):
                        rec.flags = LayerFlags(visible=bool(n.get("visible", True)), pixel_data_irrelevant=True)
            else:
                rec.tagged_blocks[Tag.INVERT] = TaggedBlock(key=Tag.INVERT, data=EmptyElement())
            _decorate(rec, n, mode, size)
            if px is not None:
                w, h = r - l, b - t
                if px.get("alpha") is not None:
                    infos.append(ChannelInfo(id=ChannelID.TRANSPARENCY_MASK, length=2))
                    chans.append(_chan(_bytes(px["alpha"], depth), w, h, depth, compression))
                for ci in range(nch):
                    infos.append(ChannelInfo(id=ChannelID(ci), length=2))
                    chans.append(_chan(_bytes(np.asarray(px["color"])[:, :, ci], depth), w, h, depth, compression))
            else:
                for cid in [ChannelID.TRANSPARENCY_MASK] + [ChannelID(ci) for ci in range(nch)]:
                    infos.append(ChannelInfo(id=cid, length=2))
                    chans.append(ChannelData(compression=Compression.RAW, data=b""))
            m = n.get("mask")
            if m:
                rec.mask_data, minfo, mchan = _mask(m, compression)
                infos.append(minfo)
                chans.append(mchan)
            rec.channel_info = infos
            out_recs.append(rec)
            out_chans.append(chans)
            continue
        l, t, r, b = n["rect"]
        w, h = r - l, b - t
        rec = LayerRecord(top=t, left=l, bottom=b, right=r, name=name)
        rec.tagged_blocks = TaggedBlocks()
        rec.blend_mode = BlendMode[n.get("blend", "NORMAL")]
        _common(rec, n)
        _decorate(rec, n, mode, size)
        infos, chans = [], ChannelDataList()
        color = n["color"]
        if n.get("alpha") is not None:
            infos.append(ChannelInfo(id=ChannelID.TRANSPARENCY_MASK, length=2))
            chans.append(_chan(_bytes(n["alpha"], depth), w, h, depth, compression))
        for ci in range(color.shape[2]):
            infos.append(ChannelInfo(id=ChannelID(ci), length=2))
            chans.append(_chan(_bytes(color[:, :, ci], depth), w, h, depth, compression))
        m = n.get("mask")
        if m:
            rec.mask_data, minfo, mchan = _mask(m, compression, depth)
            infos.append(minfo)
            chans.append(mchan)
        rec.channel_info = infos
        out_recs.append(rec)
        out_chans.append(chans)


def _mask(m, compression, depth=8):
    """(MaskData, ChannelInfo, ChannelData) of a raster mask {"rect", "bg", "data", "disabled", "density"}; the mask plane is
    stored at the document depth (that is how the readers decode it)"""
    ml, mt, mr, mb = m["rect"]
    params = None
    if m.get("density") is not None:
        params = MaskParameters(user_mask_density=int(m["density"]))
    md = MaskData(top=mt, left=ml, bottom=mb, right=mr, background_color=int(m.get("bg", 0)),
                  flags=MaskFlags(mask_disabled=bool(m.get("disabled", False)),
                                  parameters_applied=params is not None), parameters=params)
    return md, ChannelInfo(id=ChannelID.USER_LAYER_MASK, length=2), _chan(_bytes(m["data"], depth), mr - ml, mb - mt, depth, compression)


def _bytes(arr, depth):
    a = np.asarray(arr)
    if depth == 8:
        return a.astype(np.uint8).tobytes()
    if depth == 16:
        return (a.astype(np.uint32) * 257).astype(">u2").tobytes()
    if depth == 32:     # (added for C17) the same 8-bit value as a big-endian float32 in [0, 1]
        return (a.astype(np.float32) / np.float32(255.0)).astype(">f4").tobytes()
    raise ValueError(depth)


def build(recipe, size, mode="RGB", depth=8, compression=Compression.RAW, reopen=True) -> PSDImage:
    recs, chans = [], []
    _records(recipe, depth, compression, recs, chans, [0], mode, tuple(size))
    header = PSDImage._make_header(mode, size, depth)
    info = LayerInfo(layer_count=len(recs), layer_records=LayerRecords(recs), channel_image_data=ChannelImageData(chans))
    psd = PSD(header=header, image_data=ImageData.new(header), image_resources=ImageResources.new(),
              layer_and_mask_information=LayerAndMaskInformation(layer_info=info))
    if not reopen:
        return PSDImage(psd)
    buf = io.BytesIO()
    psd.write(buf)
    buf.seek(0)
    return PSDImage.open(buf)


# ---- random recipes ---------------------------------------------------------------------
SAFE_BLENDS = ["NORMAL", "MULTIPLY", "SCREEN", "OVERLAY", "DARKEN", "LIGHTEN", "LINEAR_DODGE", "LINEAR_BURN",
               "DIFFERENCE", "EXCLUSION", "SUBTRACT", "HARD_LIGHT", "SOFT_LIGHT", "PIN_LIGHT", "LINEAR_LIGHT",
               "COLOR_DODGE", "COLOR_BURN", "VIVID_LIGHT", "DIVIDE"]


def rand_pixel(rng, nprng, size, channels, blends=SAFE_BLENDS, allow_mask=True, allow_clip=True):
    W, H = size
    kind = rng.random()
    if kind < 0.6:      # inside / straddling
        l = rng.randrange(-2, W - 1); t = rng.randrange(-2, H - 1)
        r = rng.randrange(l + 1, W + 3); b = rng.randrange(t + 1, H + 3)
    elif kind < 0.8:    # full canvas
        l, t, r, b = 0, 0, W, H
    else:               # maybe outside
        l = rng.randrange(-6, W + 4); t = rng.randrange(-6, H + 4)
        r = l + rng.randrange(1, 4); b = t + rng.randrange(1, 4)
    w, h = r - l, b - t
    color = nprng.randint(0, 256, size=(h, w, channels)).astype(np.uint8)
    am = rng.random()
    if am < 0.25:
        alpha = None
    elif am < 0.45:
        alpha = np.full((h, w), 255, np.uint8)
    else:
        alpha = nprng.choice([0, 0, 64, 128, 200, 255], size=(h, w)).astype(np.uint8)
    n = {"t": "pixel", "rect": [l, t, r, b], "color": color, "alpha": alpha,
         "opacity": rng.choice([255, 255, 255, 128, 30, 0]), "fill": rng.choice([None, None, 255, 100]),
         "blend": rng.choice(["NORMAL"] * 3 + blends), "visible": rng.random() > 0.12,
         "clip": allow_clip and rng.random() < 0.2, "knockout": False, "mask": None}
    if allow_mask and rng.random() < 0.25:
        ml = l + rng.randrange(-1, 2); mt = t + rng.randrange(-1, 2)
        mr = max(ml + 1, r + rng.randrange(-1, 2)); mb = max(mt + 1, b + rng.randrange(-1, 2))
        n["mask"] = {"rect": [ml, mt, mr, mb], "bg": rng.choice([0, 255]),
                     "data": nprng.choice([0, 90, 255], size=(mb - mt, mr - ml)).astype(np.uint8),
                     "disabled": rng.random() < 0.15, "density": rng.choice([None, None, 255, 128])}
    return n


def rand_recipe(rng, nprng, size, channels, max_layers=6, depth=0, **kw):
    nodes = []
    for _ in range(rng.randrange(1, max_layers + 1)):
        if depth < 2 and rng.random() < 0.25:
            nodes.append({"t": "group", "blend": rng.choice(["PASS_THROUGH", "PASS_THROUGH", "NORMAL", "MULTIPLY"]),
                          "opacity": rng.choice([255, 255, 150]), "fill": None, "visible": rng.random() > 0.1,
                          "clip": False, "knockout": False,
                          "children": rand_recipe(rng, nprng, size, channels, max_layers=3, depth=depth + 1, **kw)})
        else:
            nodes.append(rand_pixel(rng, nprng, size, channels, **kw))
    # a clipping layer needs something below it in the same list to be meaningful; keep whatever came out
    return nodes
