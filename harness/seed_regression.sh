#!/bin/bash
# Runs every seeded change against the quick check of its property on /repo (apply, check, revert) and writes seeded/REGRESSION.md.
cd /verif
out=seeded/REGRESSION.md
echo "# Seeded changes vs the quick checks ($(date -u +%FT%TZ), /repo $(git -C /repo log -1 --format=%h), /verif $(git log -1 --format=%h))" > $out
echo "" >> $out; echo "| seed | result | violations (with input) | broken tie only |" >> $out; echo "|---|---|---|---|" >> $out
for d in $(ls -d seeded/C* | sort); do
  s=$(basename $d); p=${s%%-*}
  if ! git -C /repo apply --check /verif/$d/patch.diff 2>/dev/null; then echo "| $s | patch no longer applies to the repaired tree | | |" >> $out; continue; fi
  git -C /repo apply /verif/$d/patch.diff
  ./check $p --tier quick > /tmp/seedreg.out 2>&1; rc=$?
  git -C /repo checkout -- .
  git checkout -- lean/PsdVerif/Generated evidence 2>/dev/null
  nv=$(grep -c "^VIOLATION" /tmp/seedreg.out); nf=$(grep -c "no-failing-input-found" /tmp/seedreg.out)
  case $rc in 1) r="caught";; 0) r="**missed**";; *) r="**exit $rc**";; esac
  echo "| $s | $r | $((nv-nf)) | $nf |" >> $out
done
echo "" >> $out
echo "caught: $(grep -c '| caught |' $out) / $(grep -c '^| C' $out)" >> $out
