"""Translate the *current* text of `_rle.pyx` into executable Python with C semantics.

Cython is not installed in this sandbox, so a change to the .pyx cannot be
compiled. This translator (part of the trusted base) turns the Cython subset
used by `_rle.pyx` into Python:

* `cdef <type> name [= expr]` gives `name` a C width; every later assignment to it
  wraps (`int`: 32-bit two's complement, `unsigned char`: mod 256, `char`: signed 8).
* `const unsigned char[:] data` is a bounds-checked memoryview (boundscheck is on,
  wraparound is off): an index outside `[0, len)` raises IndexError.
* `std::string` is a byte buffer; `resize`, `push_back`, `append(ptr, n)`,
  `fill_n(it, n, v)`, `copy_n(ptr, n, it)` are *checked*: touching memory outside
  a buffer raises `OutOfBounds` (a memory-safety event, not a Python exception the
  real code could raise).
Intermediate arithmetic is exact (C `int` arithmetic cannot overflow here for
inputs shorter than 2^31 bytes).
"""
from __future__ import annotations

import ast
import re
from pathlib import Path


class OutOfBounds(Exception):
    pass


class EmulError(Exception):
    """The .pyx uses something this translator does not understand."""


def _wrap_int(v):
    v = int(v) & 0xFFFFFFFF
    return v - (1 << 32) if v & 0x80000000 else v


def _wrap_uchar(v):
    return int(v) & 0xFF


def _wrap_char(v):
    v = int(v) & 0xFF
    return v - 256 if v & 0x80 else v


def _wrap_ssize(v):
    v = int(v) & 0xFFFFFFFFFFFFFFFF
    return v - (1 << 64) if v & (1 << 63) else v


class MemView:
    def __init__(self, b):
        self.b = bytes(b)
        self.shape = (len(self.b),)

    def __getitem__(self, i):
        i = int(i)
        if i < 0 or i >= len(self.b):
            raise IndexError("Out of bounds on buffer access (axis 0)")
        return self.b[i]

    def __bytes__(self):
        return self.b


class Ptr:
    """`&data[i]`: a pointer into the memoryview's buffer (bounds-checked index)."""

    def __init__(self, mv: MemView, i):
        mv[i] if len(mv.b) else mv[i]  # Cython checks the index expression
        self.mv, self.i = mv, int(i)

    def read(self, n):
        n = int(n)
        if n < 0 or self.i + n > len(self.mv.b):
            raise OutOfBounds(f"read {n} bytes at offset {self.i} of a {len(self.mv.b)}-byte buffer")
        return self.mv.b[self.i:self.i + n]


class StrIter:
    def __init__(self, s, off=0):
        self.s, self.off = s, off

    def __add__(self, k):
        return StrIter(self.s, self.off + int(k))


class CString:
    def __init__(self):
        self.buf = bytearray()

    def resize(self, n):
        n = int(n)
        if n < 0:
            raise OutOfBounds("resize to a negative size (std::length_error)")
        if n > (1 << 31):
            raise MemoryError("resize too large")
        if n <= len(self.buf):
            del self.buf[n:]
        else:
            self.buf.extend(b"\0" * (n - len(self.buf)))

    def push_back(self, v):
        self.buf.append(int(v) & 0xFF)

    def append(self, ptr, n):
        self.buf.extend(ptr.read(n))

    def begin(self):
        return StrIter(self, 0)

    def __bytes__(self):
        return bytes(self.buf)


def fill_n(it: StrIter, n, v):
    n = int(n)
    if n <= 0:
        return
    if it.off < 0 or it.off + n > len(it.s.buf):
        raise OutOfBounds(f"fill_n of {n} at {it.off} in a {len(it.s.buf)}-byte string")
    it.s.buf[it.off:it.off + n] = bytes([int(v) & 0xFF]) * n


def copy_n(ptr: Ptr, n, it: StrIter):
    n = int(n)
    if n <= 0:
        return
    src = ptr.read(n)
    if it.off < 0 or it.off + n > len(it.s.buf):
        raise OutOfBounds(f"copy_n of {n} to {it.off} in a {len(it.s.buf)}-byte string")
    it.s.buf[it.off:it.off + n] = src


_WRAP = {"int": "_wrap_int", "unsigned char": "_wrap_uchar", "char": "_wrap_char",
         "Py_ssize_t": "_wrap_ssize", "long": "_wrap_ssize", "unsigned int": "_wrap_uint"}


def _wrap_uint(v):
    return int(v) & 0xFFFFFFFF


class _Typer(ast.NodeTransformer):
    def __init__(self, types):
        self.types = types

    def _w(self, name, value):
        t = self.types.get(name)
        if t in _WRAP:
            return ast.Call(ast.Name(_WRAP[t], ast.Load()), [value], [])
        return value

    def visit_Assign(self, node):
        self.generic_visit(node)
        if len(node.targets) == 1:
            t = node.targets[0]
            if isinstance(t, ast.Name):
                node.value = self._w(t.id, node.value)
            elif isinstance(t, ast.Tuple) and isinstance(node.value, ast.Tuple) and len(t.elts) == len(node.value.elts):
                node.value.elts = [
                    self._w(x.id, v) if isinstance(x, ast.Name) else v for x, v in zip(t.elts, node.value.elts)
                ]
        else:  # i = j = expr
            names = [t.id for t in node.targets if isinstance(t, ast.Name)]
            v = node.value
            for n in names:
                v = self._w(n, v)
            node.value = v
        return node

    def visit_AugAssign(self, node):
        self.generic_visit(node)
        if isinstance(node.target, ast.Name):
            val = ast.BinOp(ast.Name(node.target.id, ast.Load()), node.op, node.value)
            return ast.Assign([ast.Name(node.target.id, ast.Store())], self._w(node.target.id, val))
        return node


def translate(pyx_text: str) -> str:
    out = []
    types: dict[str, str] = {}
    for raw in pyx_text.splitlines():
        line = raw
        s = line.strip()
        if s.startswith("#") and ("distutils" in s or "cython:" in s):
            continue
        if s.startswith("from libcpp") or s.startswith("cimport") or " cimport " in s:
            continue
        m = re.match(r"^(\s*)def\s+(\w+)\((.*)\)\s*(->\s*\w+)?\s*:\s*$", line)
        if m:
            ind, name, params = m.group(1), m.group(2), m.group(3)
            names, pre = [], []
            for p in params.split(","):
                p = p.strip()
                if not p:
                    continue
                pm = re.match(r"^(const\s+)?(unsigned char)\s*\[:\]\s*(\w+)$", p)
                if pm:
                    names.append(pm.group(3))
                    pre.append(f"{ind}    {pm.group(3)} = MemView({pm.group(3)})")
                    continue
                pm = re.match(r"^(Py_ssize_t|int|long|unsigned int)\s+(\w+)$", p)
                if pm:
                    names.append(pm.group(2))
                    types[pm.group(2)] = pm.group(1)
                    pre.append(f"{ind}    {pm.group(2)} = {_WRAP[pm.group(1)]}({pm.group(2)})")
                    continue
                if re.match(r"^\w+$", p):
                    names.append(p)
                    continue
                raise EmulError(f"unsupported parameter declaration: {p!r}")
            out.append(f"{ind}def {name}({', '.join(names)}):")
            out.extend(pre)
            continue
        m = re.match(r"^(\s*)cdef\s+(unsigned char|unsigned int|int|char|Py_ssize_t|long|string)\s+(\w+)\s*(=\s*(.*))?$", line)
        if m:
            ind, typ, name, init = m.group(1), m.group(2), m.group(3), m.group(5)
            if typ == "string":
                if init:
                    raise EmulError("initialised std::string declaration")
                out.append(f"{ind}{name} = CString()")
            else:
                types[name] = typ
                out.append(f"{ind}{name} = {init if init else '0'}")
            continue
        if re.match(r"^\s*cdef\b", line):
            raise EmulError(f"unsupported cdef: {s!r}")
        # casts and address-of
        line = re.sub(r"<char\s*\*>\s*&(\w+)\[([^\]]*)\]", r"Ptr(\1, \2)", line)
        line = re.sub(r"&(\w+)\[([^\]]*)\]", r"Ptr(\1, \2)", line)
        line = re.sub(r"<char>\s*(\w+\[[^\]]*\]|\w+)", r"_wrap_char(\1)", line)
        line = re.sub(r"<unsigned char>\s*(\w+\[[^\]]*\]|\w+)", r"_wrap_uchar(\1)", line)
        line = re.sub(r"<int>\s*(\w+\[[^\]]*\]|\w+)", r"_wrap_int(\1)", line)
        if re.search(r"<\s*\w[\w\s\*]*>\s*[\w&]", line) and "<" in line and not re.search(r"[<>]=?\s", line):
            raise EmulError(f"unsupported cast: {s!r}")
        out.append(line)
    src = "\n".join(out) + "\n"
    try:
        tree = ast.parse(src)
    except SyntaxError as e:
        raise EmulError(f"translated .pyx does not parse: {e}")
    tree = _Typer(types).visit(tree)
    ast.fix_missing_locations(tree)
    return ast.unparse(tree)


def load(pyx_path: Path):
    """Returns (encode, decode) callables taking/returning bytes."""
    code = translate(Path(pyx_path).read_text())
    env = dict(MemView=MemView, Ptr=Ptr, CString=CString, fill_n=fill_n, copy_n=copy_n,
               _wrap_int=_wrap_int, _wrap_uchar=_wrap_uchar, _wrap_char=_wrap_char,
               _wrap_ssize=_wrap_ssize, _wrap_uint=_wrap_uint)
    try:
        exec(compile(code, "<_rle.pyx emulated>", "exec"), env)
    except Exception as e:  # noqa
        raise EmulError(f"emulated module failed to load: {e}")
    if "encode" not in env or "decode" not in env:
        raise EmulError("encode/decode not found in _rle.pyx")

    def enc(b):
        return bytes(env["encode"](bytes(b)))

    def dec(b, n):
        return bytes(env["decode"](bytes(b), n))

    return enc, dec, code


if __name__ == "__main__":
    import sys
    print(translate(Path(sys.argv[1]).read_text()))
