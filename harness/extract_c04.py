"""C04 extractor: table-shaped facts of psd_tools/compression/__init__.py -> Generated/Compression.lean.

* the row-size expression of `encode_rle` and `decode_rle`, evaluated from the AST on a grid
  of (width, depth) -- the model's `rowSize` is re-checked against the table by `decide`;
* the row-table formats `("H", "I")` and their item sizes on this platform;
* per depth branch of `encode_prediction` / `decode_prediction`: the modulus passed to the
  delta coder and the factor applied to the width.
"""
from __future__ import annotations

import array
import ast

from core import REPO, Infra

SRC = REPO / "src" / "psd_tools" / "compression" / "__init__.py"

GRID_W = list(range(0, 20)) + [127, 128, 129, 255, 256, 16383, 16384, 16385]
GRID_D = [1, 8, 16, 32]


def _func(tree, name):
    for n in ast.walk(tree):
        if isinstance(n, ast.FunctionDef) and n.name == name:
            return n
    raise Infra(f"compression/__init__.py: function {name} not found")


def _assign(fn, name):
    for n in ast.walk(fn):
        if isinstance(n, ast.Assign) and len(n.targets) == 1 and isinstance(n.targets[0], ast.Name) \
                and n.targets[0].id == name:
            return n.value
    raise Infra(f"{fn.name}: assignment to {name} not found")


def _eval(expr, **env):
    return eval(compile(ast.Expression(expr), "<row_size>", "eval"), {"__builtins__": {"max": max, "min": min}}, env)


def _formats(fn):
    for n in ast.walk(fn):
        if isinstance(n, ast.Subscript) and isinstance(n.value, ast.Tuple) and \
                all(isinstance(e, ast.Constant) and isinstance(e.value, str) for e in n.value.elts):
            idx = ast.unparse(n.slice)
            return [e.value for e in n.value.elts], idx
    raise Infra(f"{fn.name}: row-table format tuple not found")


def _pred_params(fn, callee):
    """[(depth, modulus, width factor)] from the `if depth == N:` chain."""
    out = []
    node = next((n for n in fn.body if isinstance(n, ast.If)), None)
    while isinstance(node, ast.If):
        t = node.test
        if not (isinstance(t, ast.Compare) and isinstance(t.left, ast.Name) and t.left.id == "depth"
                and len(t.ops) == 1 and isinstance(t.ops[0], ast.Eq) and isinstance(t.comparators[0], ast.Constant)):
            raise Infra(f"{fn.name}: unexpected depth test {ast.unparse(t)}")
        depth = int(t.comparators[0].value)
        call = None
        for b in node.body:
            for n in ast.walk(b):
                if isinstance(n, ast.Call) and isinstance(n.func, ast.Name) and n.func.id == callee:
                    call = n
        if call is None:
            raise Infra(f"{fn.name}: no {callee} call in the depth == {depth} branch")
        mod = int(_eval(call.args[1]))
        factor = int(_eval(call.args[2], w=1))
        if _eval(call.args[2], w=7) != 7 * factor or ast.unparse(call.args[3]) != "h":
            raise Infra(f"{fn.name}: width/height arguments of {callee} are not w*k, h")
        out.append((depth, mod, factor))
        node = node.orelse[0] if len(node.orelse) == 1 and isinstance(node.orelse[0], ast.If) else None
    return out


MUTABLE_CALLS = {"bytearray", "list", "dict", "set", "array", "defaultdict", "deque", "OrderedDict", "Counter", "BytesIO"}


def _is_mutable_value(v):
    """does the expression build (or contain) a mutable object? literals, comprehensions, constructor calls"""
    if isinstance(v, (ast.List, ast.Dict, ast.Set, ast.ListComp, ast.DictComp, ast.SetComp)):
        return True
    if isinstance(v, ast.Call):
        f = v.func
        name = f.id if isinstance(f, ast.Name) else f.attr if isinstance(f, ast.Attribute) else ""
        if name in MUTABLE_CALLS:
            return True
        return any(_is_mutable_value(a) for a in v.args)
    if isinstance(v, ast.Tuple):
        return any(_is_mutable_value(e) for e in v.elts)
    return False


def module_state(paths):
    """Everything through which one codec call could influence a later one, from the AST of the codec modules:
    `global`/`nonlocal` declarations inside functions, module-level names bound to a mutable object that some
    function reads (a scratch buffer, a memo), and memoising decorators. Sorted `file:function:what` strings."""
    out = []
    for path in paths:
        try:
            tree = ast.parse(path.read_text())
        except Exception as e:  # noqa
            out.append(f"{path.name}:<unparsable: {type(e).__name__}>")
            continue
        mutable = set()
        for st in tree.body:
            tgt, val = None, None
            if isinstance(st, ast.Assign):
                tgt, val = st.targets, st.value
            elif isinstance(st, ast.AnnAssign) and st.value is not None:
                tgt, val = [st.target], st.value
            elif isinstance(st, ast.AugAssign):
                tgt, val = [st.target], st.value
            if tgt is not None and _is_mutable_value(val):
                for t in tgt:
                    for n in ast.walk(t):
                        if isinstance(n, ast.Name):
                            mutable.add(n.id)
        for fn in ast.walk(tree):
            if not isinstance(fn, (ast.FunctionDef, ast.AsyncFunctionDef)):
                continue
            for d in fn.decorator_list:
                if "cache" in ast.unparse(d):
                    out.append(f"{path.name}:{fn.name}:@{ast.unparse(d)}")
            params = {a.arg for a in fn.args.args + fn.args.kwonlyargs + fn.args.posonlyargs}
            stored = {n.id for n in ast.walk(fn) if isinstance(n, ast.Name) and isinstance(n.ctx, ast.Store)}
            for n in ast.walk(fn):
                if isinstance(n, (ast.Global, ast.Nonlocal)):
                    for nm in n.names:
                        out.append(f"{path.name}:{fn.name}:{type(n).__name__.lower()} {nm}")
                elif isinstance(n, ast.Name) and isinstance(n.ctx, ast.Load) and n.id in mutable \
                        and n.id not in params and n.id not in stored:
                    out.append(f"{path.name}:{fn.name}:reads module-level mutable {n.id}")
            for a in fn.args.defaults + [d for d in fn.args.kw_defaults if d is not None]:
                if _is_mutable_value(a):
                    out.append(f"{path.name}:{fn.name}:mutable default argument")
    return sorted(set(out))


def gen_compression(ctx):
    state = module_state([SRC, SRC.parent / "rle.py"])
    ctx.extra["codec_module_state"] = state
    try:
        return _gen_compression(ctx, state)
    except Infra:
        # the tables cannot be regenerated; still record the statelessness table so that its tie is judged
        raise


def _gen_compression(ctx, state):
    tree = ast.parse(SRC.read_text())
    enc, dec = _func(tree, "encode_rle"), _func(tree, "decode_rle")
    e_expr, d_expr = _assign(enc, "row_size"), _assign(dec, "row_size")
    table = [(w, d, int(_eval(e_expr, width=w, depth=d)), int(_eval(d_expr, width=w, depth=d)))
             for w in GRID_W for d in GRID_D]
    f_enc, i_enc = _formats(enc)
    f_dec, i_dec = _formats(dec)
    if (f_enc, i_enc) != (f_dec, i_dec) or i_enc.replace(" ", "") != "version-1":
        raise Infra(f"row-table formats differ or are indexed unexpectedly: {f_enc}[{i_enc}] vs {f_dec}[{i_dec}]")
    sizes = [array.array(f).itemsize for f in f_enc]
    p_enc = _pred_params(_func(tree, "encode_prediction"), "_delta_encode")
    p_dec = _pred_params(_func(tree, "decode_prediction"), "_delta_decode")

    def tup(xs):
        return "[" + ", ".join("(" + ", ".join(str(v) for v in t) + ")" for t in xs) + "]"

    ctx.write_generated(
        "Compression",
        "namespace PsdVerif.Generated.Compression\n"
        f"/-- (width, depth, row_size in encode_rle, row_size in decode_rle): `{ast.unparse(e_expr)}` / `{ast.unparse(d_expr)}` -/\n"
        f"def rowSizeTable : List (Nat × Nat × Nat × Nat) := {tup(table)}\n"
        f"/-- item sizes of the row-table formats {tuple(f_enc)} indexed by `version - 1` -/\n"
        f"def tableItemSizes : List Nat := [{', '.join(map(str, sizes))}]\n"
        "/-- (depth, modulus, width factor) per branch of encode_prediction / decode_prediction -/\n"
        f"def predParamsEnc : List (Nat × Nat × Nat) := {tup(p_enc)}\n"
        f"def predParamsDec : List (Nat × Nat × Nat) := {tup(p_dec)}\n"
        "/-- everything in compression/__init__.py and rle.py through which one call could influence a later one:\n"
        "`global`/`nonlocal` declarations, module-level mutable objects read by a function, memoising decorators,\n"
        "mutable default arguments (the model's codecs are functions of their arguments only) -/\n"
        "def codecModuleState : List String := [" + ", ".join('"' + x.replace('\\', '\\\\').replace('"', '\\"') + '"' for x in state) + "]\n"
        "end PsdVerif.Generated.Compression\n",
    )
    return {"row_size_enc": ast.unparse(e_expr), "row_size_dec": ast.unparse(d_expr), "formats": f_enc,
            "item_sizes": sizes, "pred_enc": p_enc, "pred_dec": p_dec, "grid": len(table), "module_state": state}
