"""C04 extractor: table-shaped facts of psd_tools/compression/__init__.py -> Generated/Compression.lean.

* the row-size expression of `encode_rle` and `decode_rle`, evaluated from the AST on a grid
  of (width, depth) -- the model's `rowSize` is re-checked against the table by `decide`;
* the row-table formats `("H", "I")` and their item sizes on this platform;
* per depth branch of `encode_prediction` / `decode_prediction`: the modulus passed to the
  delta coder and the factor applied to the width.
"""
from __future__ import annotations

import array
import ast

from core import REPO, Infra

SRC = REPO / "src" / "psd_tools" / "compression" / "__init__.py"

GRID_W = list(range(0, 20)) + [127, 128, 129, 255, 256, 16383, 16384, 16385]
GRID_D = [1, 8, 16, 32]


def _func(tree, name):
    for n in ast.walk(tree):
        if isinstance(n, ast.FunctionDef) and n.name == name:
            return n
    raise Infra(f"compression/__init__.py: function {name} not found")


def _assign(fn, name):
    for n in ast.walk(fn):
        if isinstance(n, ast.Assign) and len(n.targets) == 1 and isinstance(n.targets[0], ast.Name) \
                and n.targets[0].id == name:
            return n.value
    raise Infra(f"{fn.name}: assignment to {name} not found")


def _eval(expr, **env):
    return eval(compile(ast.Expression(expr), "<row_size>", "eval"), {"__builtins__": {"max": max, "min": min}}, env)


def _formats(fn):
    for n in ast.walk(fn):
        if isinstance(n, ast.Subscript) and isinstance(n.value, ast.Tuple) and \
                all(isinstance(e, ast.Constant) and isinstance(e.value, str) for e in n.value.elts):
            idx = ast.unparse(n.slice)
            return [e.value for e in n.value.elts], idx
    raise Infra(f"{fn.name}: row-table format tuple not found")


def _pred_params(fn, callee):
    """[(depth, modulus, width factor)] from the `if depth == N:` chain."""
    out = []
    node = next((n for n in fn.body if isinstance(n, ast.If)), None)
    while isinstance(node, ast.If):
        t = node.test
        if not (isinstance(t, ast.Compare) and isinstance(t.left, ast.Name) and t.left.id == "depth"
                and len(t.ops) == 1 and isinstance(t.ops[0], ast.Eq) and isinstance(t.comparators[0], ast.Constant)):
            raise Infra(f"{fn.name}: unexpected depth test {ast.unparse(t)}")
        depth = int(t.comparators[0].value)
        call = None
        for b in node.body:
            for n in ast.walk(b):
                if isinstance(n, ast.Call) and isinstance(n.func, ast.Name) and n.func.id == callee:
                    call = n
        if call is None:
            raise Infra(f"{fn.name}: no {callee} call in the depth == {depth} branch")
        mod = int(_eval(call.args[1]))
        factor = int(_eval(call.args[2], w=1))
        if _eval(call.args[2], w=7) != 7 * factor or ast.unparse(call.args[3]) != "h":
            raise Infra(f"{fn.name}: width/height arguments of {callee} are not w*k, h")
        out.append((depth, mod, factor))
        node = node.orelse[0] if len(node.orelse) == 1 and isinstance(node.orelse[0], ast.If) else None
    return out


def gen_compression(ctx):
    tree = ast.parse(SRC.read_text())
    enc, dec = _func(tree, "encode_rle"), _func(tree, "decode_rle")
    e_expr, d_expr = _assign(enc, "row_size"), _assign(dec, "row_size")
    table = [(w, d, int(_eval(e_expr, width=w, depth=d)), int(_eval(d_expr, width=w, depth=d)))
             for w in GRID_W for d in GRID_D]
    f_enc, i_enc = _formats(enc)
    f_dec, i_dec = _formats(dec)
    if (f_enc, i_enc) != (f_dec, i_dec) or i_enc.replace(" ", "") != "version-1":
        raise Infra(f"row-table formats differ or are indexed unexpectedly: {f_enc}[{i_enc}] vs {f_dec}[{i_dec}]")
    sizes = [array.array(f).itemsize for f in f_enc]
    p_enc = _pred_params(_func(tree, "encode_prediction"), "_delta_encode")
    p_dec = _pred_params(_func(tree, "decode_prediction"), "_delta_decode")

    def tup(xs):
        return "[" + ", ".join("(" + ", ".join(str(v) for v in t) + ")" for t in xs) + "]"

    ctx.write_generated(
        "Compression",
        "namespace PsdVerif.Generated.Compression\n"
        f"/-- (width, depth, row_size in encode_rle, row_size in decode_rle): `{ast.unparse(e_expr)}` / `{ast.unparse(d_expr)}` -/\n"
        f"def rowSizeTable : List (Nat × Nat × Nat × Nat) := {tup(table)}\n"
        f"/-- item sizes of the row-table formats {tuple(f_enc)} indexed by `version - 1` -/\n"
        f"def tableItemSizes : List Nat := [{', '.join(map(str, sizes))}]\n"
        "/-- (depth, modulus, width factor) per branch of encode_prediction / decode_prediction -/\n"
        f"def predParamsEnc : List (Nat × Nat × Nat) := {tup(p_enc)}\n"
        f"def predParamsDec : List (Nat × Nat × Nat) := {tup(p_dec)}\n"
        "end PsdVerif.Generated.Compression\n",
    )
    return {"row_size_enc": ast.unparse(e_expr), "row_size_dec": ast.unparse(d_expr), "formats": f_enc,
            "item_sizes": sizes, "pred_enc": p_enc, "pred_dec": p_dec, "grid": len(table)}
