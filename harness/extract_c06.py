"""C06 (malformed input fails safely) extractor: where the library ALLOCATES from a computed size and where its readers LOOP,
read from the AST of the working tree on every run (pure `ast`, psd_tools is never imported)

    -> lean/PsdVerif/Generated/AllocSites.lean   `sites : List (String × String × String × String)`
    -> lean/PsdVerif/Generated/ReadLoops.lean    `loops : List (String × String × String × String × String)`

`sites`  (module relative to psd_tools, qualified function, kind, size expression as `ast.unparse` writes it), sorted; one row
         per occurrence (two `fp.read(4)` in one function are two rows), no line numbers.
`loops`  (module, qualified function, kind, header, guard) for every loop of every function of `psd/*.py`, `utils.py`,
         `compression/*.py` that is not a writer / `__repr__` / property:
           kind "count"  `for .. in range(e)` with `e` not literal arithmetic (also through `reversed` / `enumerate` / `list`),
                "fixed"  `range(<literals>)`, "for-in" any other iterable, "while"; comprehensions and generator expressions
                are loops too (header prefixed by nothing, same kinds);
           header = the `range` arguments / the iterable / the `while` test;
           guard  = "" when no `try` lies inside the loop (nested function bodies excepted), else
                    "try:except <types>:<continue|raise|return|break>" per handler, joined by ";" - "continue" means the handler
                    falls through, i.e. the loop goes on to its next iteration after the exception.
         and kind "try" rows (header = "except <types>:<raise|return|fallthrough>;...", guard = "wraps-call:<callees of the
         try body>") for every `try` of such a function that is not inside a loop.
         Rows of one function are in source order; functions are ordered by (module, qualified name).

The committed snapshots are `PsdVerif.CostTables.sites` / `.loops` (lean/PsdVerif/Model/CostTables.lean); the ties are in
lean/PsdVerif/Lemmas/CostTablesTied.lean. `classify` below is the companion analysis (phase, verdict) that produced
`CostTables.siteVerdicts`; `python3 harness/extract_c06.py --emit-model` prints the Model file for the current source.

A source this extractor cannot read is not an infrastructure error: a sentinel row ("?", "extractor", "failed", msg[, ""])
is emitted, the tie theorem then fails, and the run goes on.
"""
from __future__ import annotations

import ast
import sys
from pathlib import Path

HEADER = "-- REGENERATED from /repo by harness/extract.py on every run. Do not edit.\n"

FUNC = (ast.FunctionDef, ast.AsyncFunctionDef)
SCOPE = FUNC + (ast.ClassDef,)
LOOPS = (ast.For, ast.AsyncFor, ast.While)
COMPS = (ast.ListComp, ast.SetComp, ast.DictComp, ast.GeneratorExp)


def _s(x: str) -> str:
    out = []
    for ch in x:
        if ch == "\\":
            out.append("\\\\")
        elif ch == '"':
            out.append('\\"')
        elif ch == "\n":
            out.append("\\n")
        elif ch == "\t":
            out.append("\\t")
        elif ch == "\r":
            out.append("\\r")
        elif ord(ch) < 32 or ord(ch) == 127:
            out.append("\\x%02x" % ord(ch))
        else:
            out.append(ch)
    return '"' + "".join(out) + '"'


def _rows(xs) -> str:
    return "[\n  " + ",\n  ".join("(" + ", ".join(_s(y) for y in x) + ")" for x in xs) + "\n]" if xs else "[]"


def _u(node) -> str:
    return " ".join(ast.unparse(node).split())


def _args_text(call: ast.Call) -> str:
    parts = [_u(a) for a in call.args] + [(k.arg + "=" if k.arg else "**") + _u(k.value) for k in call.keywords]
    return ", ".join(parts)


# ------------------------------------------------------------------------------------------------ scopes

def _own(node):
    """descendants of `node` that belong to its own scope: nested function / class bodies are left to their own row
    (their decorators and argument defaults, evaluated in this scope, are kept)"""
    stack = list(reversed(list(ast.iter_child_nodes(node))))
    while stack:
        n = stack.pop()
        if isinstance(n, SCOPE):
            outer = list(n.decorator_list)
            if isinstance(n, FUNC):
                outer += [d for d in n.args.defaults + n.args.kw_defaults if d is not None]
            else:
                outer += list(n.bases)
            for d in outer:
                yield d
                stack.extend(reversed(list(ast.iter_child_nodes(d))))
            continue
        yield n
        stack.extend(reversed(list(ast.iter_child_nodes(n))))


def _is_property(fn) -> bool:
    for d in fn.decorator_list:
        t = _u(d)
        if t in ("property", "cached_property", "functools.cached_property") or t.endswith((".setter", ".getter", ".deleter")):
            return True
    return False


def scopes(tree):
    """(qualified name, node, is_function, is_property) for the module, every class body and every function (nested ones
    as outer.inner), in source order"""
    out = [("<module>", tree, False, False)]

    def go(node, prefix):
        for n in ast.iter_child_nodes(node):
            if isinstance(n, ast.ClassDef):
                q = prefix + n.name
                out.append((q + ".<class>", n, False, False))
                go(n, q + ".")
            elif isinstance(n, FUNC):
                q = prefix + n.name
                out.append((q, n, True, _is_property(n)))
                go(n, q + ".")
            else:
                go(n, prefix)
    go(tree, "")
    return out


def modules(root: Path):
    return sorted((p.relative_to(root).as_posix(), p) for p in root.rglob("*.py"))


# ------------------------------------------------------------------------------------------------ allocation sites

NP_ALLOC = {"zeros", "ones", "empty", "full", "zeros_like", "ones_like", "empty_like", "full_like", "frombuffer", "fromstring",
            "fromiter", "tile", "repeat", "stack", "concatenate", "hstack", "vstack", "dstack", "column_stack", "array", "asarray",
            "ascontiguousarray", "arange", "linspace", "meshgrid", "indices", "pad", "broadcast_to", "ndarray", "kron", "outer",
            "resize", "identity", "eye"}
IMAGE_ALLOC = {"new", "frombytes", "frombuffer", "fromarray", "merge", "open"}
METHOD_ALLOC = {"resize", "tobytes", "crop", "ljust", "rjust", "center", "zfill", "to_bytes", "expandtabs"}
NUMERIC_FUNCS = {"int", "len", "max", "min", "abs", "float", "round", "sum", "ord", "pad", "bool", "divmod", "pow"}
# decoders of the library whose output buffer has a declared size (called by name)
DECODERS = {"decompress", "decode_rle", "decode_prediction", "_inflate", "_decode_rle_row", "read_be_array", "be_array_from_bytes"}
RLE_MODULES = {"rle_impl", "_rle", "rle"}
FILE_NAMES = {"fp", "f", "file", "fh", "stream", "fileobj"}


def _literal(node) -> bool:
    """an integer literal or arithmetic over literals"""
    if isinstance(node, ast.Constant):
        return isinstance(node.value, (int, float)) and not isinstance(node.value, bool)
    if isinstance(node, ast.UnaryOp):
        return _literal(node.operand)
    if isinstance(node, ast.BinOp):
        return _literal(node.left) and _literal(node.right)
    return False


def _sequence_literal(node, reader_module: bool) -> bool:
    if isinstance(node, (ast.List, ast.Tuple, ast.ListComp, ast.JoinedStr)):
        return True
    if isinstance(node, ast.Constant) and isinstance(node.value, (bytes, str)):
        return True
    if isinstance(node, ast.Call) and isinstance(node.func, ast.Name) and node.func.id in ("bytes", "bytearray", "list", "tuple", "str"):
        return True
    if reader_module and isinstance(node, ast.Subscript) and isinstance(node.slice, ast.Slice):
        return True          # data[i:i + 1] * n
    if reader_module and isinstance(node, ast.Call):
        f = node.func        # pack(fmt, x) * n, b.join(...) * n: any call that is not plainly numeric
        nm = f.id if isinstance(f, ast.Name) else f.attr if isinstance(f, ast.Attribute) else ""
        return nm not in NUMERIC_FUNCS
    return False


def _is_reader_module(mod: str) -> bool:
    return mod == "utils.py" or mod.startswith(("psd/", "compression/"))


def sites_of(node, mod: str):
    """the (kind, expression) rows of one AST node"""
    out = []
    if isinstance(node, ast.BinOp) and isinstance(node.op, ast.Mult):
        rm = _is_reader_module(mod)
        for seq, cnt in ((node.left, node.right), (node.right, node.left)):
            if _sequence_literal(seq, rm) and not _literal(cnt) and not _sequence_literal(cnt, False):
                out.append(("repeat", _u(node)))
                break
        return out
    if not isinstance(node, ast.Call):
        return out
    f = node.func
    name = f.id if isinstance(f, ast.Name) else None
    attr = f.attr if isinstance(f, ast.Attribute) else None
    recv = _u(f.value) if isinstance(f, ast.Attribute) else None
    a = node.args
    if name in ("bytearray", "bytes") and (a or node.keywords):
        out.append((name, _args_text(node)))
    elif name in ("list", "tuple") and len(a) == 1 and isinstance(a[0], ast.Call) and _u(a[0].func) == "range":
        out.append(("list-range", _args_text(a[0])))
    elif attr is not None and recv in ("np", "numpy") and attr in NP_ALLOC:
        out.append(("np." + attr, _args_text(node)))
    elif (recv == "array" and attr == "array") or (name == "array" and a and isinstance(a[0], ast.Constant) and isinstance(a[0].value, str)):
        out.append(("array.array", _args_text(node)))
    elif (recv == "struct" and attr in ("pack", "unpack", "unpack_from", "pack_into")) or name in ("pack", "unpack"):
        if a and not isinstance(a[0], ast.Constant):
            out.append(("struct." + (attr or name), _u(a[0])))
    elif name == "read_fmt" or attr == "read_fmt":
        if a and not isinstance(a[0], ast.Constant):
            out.append(("read_fmt", _u(a[0])))
    elif name == "write_fmt" or attr == "write_fmt":
        if len(a) > 1 and not isinstance(a[1], ast.Constant):
            out.append(("write_fmt", _u(a[1])))
    elif recv == "zlib" and attr in ("decompress", "compress"):
        out.append(("zlib." + attr, _args_text(node)))
    elif attr == "decompress":
        out.append(("decompress", _args_text(node)))
    elif attr == "decode" and recv in RLE_MODULES:
        out.append(("rle.decode", _args_text(node)))
    elif name in DECODERS or (attr in DECODERS and recv not in ("self", "cls")):
        out.append(("call:" + (name or attr), _args_text(node)))
    elif attr == "read" and not node.keywords and len(a) <= 1 and not any(isinstance(x, ast.Starred) for x in a) \
            and not (a and isinstance(a[0], ast.Name) and a[0].id in FILE_NAMES) \
            and not (a and isinstance(a[0], ast.Attribute) and a[0].attr in FILE_NAMES):
        out.append(("read", _args_text(node)))
    elif (name == "BytesIO" or (recv == "io" and attr == "BytesIO")) and (a or node.keywords):
        out.append(("bytesio", _args_text(node)))
    elif recv in ("Image", "PIL.Image") and attr in IMAGE_ALLOC:
        out.append(("Image." + attr, _args_text(node)))
    elif attr in METHOD_ALLOC:
        out.append(("." + attr, _args_text(node)))
    return out


def alloc_sites(root: Path):
    rows = []
    for mod, path in modules(root):
        try:
            tree = ast.parse(path.read_text(encoding="utf-8"))
        except Exception as e:  # noqa
            rows.append(("?", "extractor", "failed", f"{mod}: {type(e).__name__}: {e}"))
            continue
        for qual, node, _isfn, _prop in scopes(tree):
            for n in _own(node):
                for kind, expr in sites_of(n, mod):
                    rows.append((mod, qual, kind, expr))
    rows.sort()
    return rows


# ------------------------------------------------------------------------------------------------ reader loops

WRITE_NAMES = {"write", "tobytes", "save", "__repr__", "__str__", "_repr_pretty_", "__format__"}
WRITE_PREFIXES = ("write", "_write", "encode", "_encode", "compress", "_compress")
WRITE_EXACT_HELPERS = {"_delta_encode", "_shuffle_byte_order", "be_array_to_bytes", "pack", "reserve_position", "trimmed_repr"}


def is_reader_function(qual: str, is_property: bool) -> bool:
    """inclusive: every function of the reader modules except writers, encoders, reprs and properties (a function nested
    in an excluded one is excluded with it)"""
    if is_property:
        return False
    for part in qual.split("."):
        if part in WRITE_NAMES or part in WRITE_EXACT_HELPERS or part.startswith(WRITE_PREFIXES):
            return False
    return True


def _range_call(it):
    """the `range(...)` call an iterable is, looking through reversed / enumerate / list / tuple / iter / sorted"""
    for _ in range(4):
        if isinstance(it, ast.Call) and isinstance(it.func, ast.Name):
            if it.func.id == "range":
                return it
            if it.func.id in ("reversed", "enumerate", "list", "tuple", "iter", "sorted") and it.args:
                it = it.args[0]
                continue
        break
    return None


def _iter_kind(it):
    r = _range_call(it)
    if r is None:
        return "for-in", _u(it)
    if all(_literal(x) for x in r.args) and not r.keywords:
        return "fixed", _args_text(r)
    return "count", _args_text(r)


def _body_nodes(stmts):
    """every node under the statements, nested function / class bodies excepted"""
    for s in stmts:
        if isinstance(s, SCOPE):
            continue
        yield s
        for n in _own(s):
            yield n


def _disposition(handler: ast.ExceptHandler) -> str:
    last = handler.body[-1] if handler.body else None
    if isinstance(last, ast.Raise):
        return "raise"
    if isinstance(last, ast.Return):
        return "return"
    if isinstance(last, ast.Break):
        return "break"
    return "continue"      # `continue`, `pass`, a log call, an assignment ...: the loop goes on


def _handlers_text(t: ast.Try, prefix: str, in_loop: bool = True):
    if not t.handlers:
        return [prefix + "finally-only:raise"]
    out = []
    for h in t.handlers:
        d = _disposition(h)
        if d == "continue" and not in_loop:
            d = "fallthrough"
        out.append(prefix + "except " + (_u(h.type) if h.type is not None else "<bare>") + ":" + d)
    return out


def _guard(body_stmts) -> str:
    found = []
    for n in _body_nodes(body_stmts):
        if isinstance(n, ast.Try) or n.__class__.__name__ == "TryStar":
            found.append(((n.lineno, n.col_offset), n))
    found.sort(key=lambda x: x[0])
    return ";".join(t for _, n in found for t in _handlers_text(n, "try:"))


def _callees(stmts) -> str:
    seen = []
    for n in _body_nodes(stmts):
        if isinstance(n, ast.Call):
            t = _u(n.func)
            if t not in seen:
                seen.append(t)
    return ",".join(seen)


def loops_of(fn):
    """(kind, header, guard) rows of one function in source order"""
    items = []
    in_loop = set()          # ids of nodes lying inside some loop of this function
    for n in _own(fn):
        if isinstance(n, LOOPS):
            for m in _body_nodes(n.body + n.orelse):
                in_loop.add(id(m))
        elif isinstance(n, COMPS):
            for m in _own(n):
                in_loop.add(id(m))
    for n in _own(fn):
        pos = (getattr(n, "lineno", 0), getattr(n, "col_offset", 0))
        if isinstance(n, (ast.For, ast.AsyncFor)):
            kind, header = _iter_kind(n.iter)
            items.append((pos, 0, (kind, header, _guard(n.body + n.orelse))))
        elif isinstance(n, ast.While):
            items.append((pos, 0, ("while", _u(n.test), _guard(n.body + n.orelse))))
        elif isinstance(n, COMPS):
            for i, g in enumerate(n.generators):
                kind, header = _iter_kind(g.iter)
                items.append((pos, 1 + i, (kind, header, "")))
        elif (isinstance(n, ast.Try) or n.__class__.__name__ == "TryStar") and id(n) not in in_loop:
            items.append((pos, 0, ("try", ";".join(_handlers_text(n, "", in_loop=False)), "wraps-call:" + _callees(n.body))))
    items.sort(key=lambda x: (x[0], x[1]))
    return [r for _, _, r in items]


def read_loops(root: Path):
    rows = []
    for mod, path in modules(root):
        if not _is_reader_module(mod):
            continue
        try:
            tree = ast.parse(path.read_text(encoding="utf-8"))
        except Exception as e:  # noqa
            rows.append(("?", "extractor", "failed", f"{mod}: {type(e).__name__}: {e}", ""))
            continue
        per_fn = []
        for i, (qual, node, isfn, prop) in enumerate(scopes(tree)):
            # module / class level statements run at import, not on the data; their loops are listed all the same
            if isfn and not is_reader_function(qual, prop):
                continue
            body_rows = loops_of(node)
            per_fn.append((qual, i, body_rows))
        per_fn.sort(key=lambda x: (x[0], x[1]))
        for qual, _, body_rows in per_fn:
            for kind, header, guard in body_rows:
                rows.append((mod, qual, kind, header, guard))
    return rows


def read_seeks(root: Path):
    """every cursor move other than reading in the reading functions (same modules / functions as `read_loops`):
    (module, function, call text, "loop" | "straight") - "loop" when the call lies in the body of a loop or comprehension
    of its function; rows of a function in source order.  The progress arguments of the cost model (an item of a
    count-driven loop consumes at least one byte or fails) assume that nothing inside a loop moves the cursor backwards."""
    rows = []
    for mod, path in modules(root):
        if not _is_reader_module(mod):
            continue
        try:
            tree = ast.parse(path.read_text(encoding="utf-8"))
        except Exception as e:  # noqa
            rows.append(("?", "extractor", f"failed: {mod}: {type(e).__name__}", ""))
            continue
        per = []
        for qual, node, isfn, prop in scopes(tree):
            if not isfn or not is_reader_function(qual, prop):
                continue
            in_loop = set()
            for n in _own(node):
                if isinstance(n, LOOPS):
                    for m in _body_nodes(n.body + n.orelse):
                        in_loop.add(id(m))
                elif isinstance(n, COMPS):
                    for m in _own(n):
                        in_loop.add(id(m))
            for n in _own(node):
                if isinstance(n, ast.Call) and isinstance(n.func, ast.Attribute) and n.func.attr in ("seek", "truncate"):
                    per.append((qual, n.lineno, n.col_offset, (mod, qual, n.func.attr + "(" + _args_text(n) + ")",
                                                               "loop" if id(n) in in_loop else "straight")))
        rows += [r for _, _, _, r in sorted(per, key=lambda x: x[:3])]
    return rows


def seeks_source(root: Path) -> tuple[str, list]:
    try:
        rows = read_seeks(root)
    except Exception as e:  # noqa
        rows = [("?", "extractor", f"failed: {type(e).__name__}: {e}", "")]
    src = ("namespace PsdVerif.Generated.ReadSeeks\n"
           "/-- every `seek` / `truncate` of the reading functions of psd/*.py, utils.py, compression/*.py:\n"
           "(module, function, call, \"loop\" when it lies inside a loop of its function else \"straight\") -/\n"
           f"def seeks : List (String × String × String × String) := {_rows(rows)}\n"
           "end PsdVerif.Generated.ReadSeeks\n")
    return src, rows


def gen_read_seeks(ctx):
    src, rows = seeks_source(_root_of_ctx())
    _note_sentinels(ctx, "gen_read_seeks", [(r[0], r[1], "", r[2]) for r in rows])
    ctx.write_generated("ReadSeeks", src)
    return {"seeks": len(rows), "in_loops": sum(1 for r in rows if r[3] == "loop")}


def loop_spans(root: Path):
    """the count-driven and while loops of `read_loops` (same modules, same functions, same kind / header text) with
    their line spans: what the malformed stream of C06 needs to find an INSTANCE of a loop of the table in a traced parse
    -> [dict(mod, path, qual, kind, header, fn_start, fn_end, line, body_start, end)]; never raises"""
    out = []
    try:
        for mod, path in modules(root):
            if not _is_reader_module(mod):
                continue
            try:
                tree = ast.parse(path.read_text(encoding="utf-8"))
            except Exception:  # noqa
                continue
            for qual, node, isfn, prop in scopes(tree):
                if not isfn or not is_reader_function(qual, prop):
                    continue
                for n in _own(node):
                    if isinstance(n, (ast.For, ast.AsyncFor)):
                        kind, header = _iter_kind(n.iter)
                        body_start = n.body[0].lineno
                    elif isinstance(n, ast.While):
                        kind, header, body_start = "while", _u(n.test), n.body[0].lineno
                    elif isinstance(n, COMPS) and n.generators:
                        kind, header = _iter_kind(n.generators[0].iter)
                        body_start = n.lineno
                    else:
                        continue
                    if kind not in ("count", "while"):
                        continue
                    out.append(dict(mod=mod, path=str(path), qual=qual, kind=kind, header=header, fn_start=node.lineno,
                                    fn_end=node.end_lineno, line=n.lineno, body_start=body_start, end=n.end_lineno))
    except Exception:  # noqa
        pass
    seen = {}
    for sp in sorted(out, key=lambda x: (x["mod"], x["qual"], x["line"])):
        k = (sp["mod"], sp["qual"], sp["kind"], sp["header"])
        sp["ord"] = seen.get(k, 0)          # 0 for the first loop with this row text, 1, 2 ... for its repetitions
        seen[k] = sp["ord"] + 1
    return out


# ------------------------------------------------------------------------------------------------ Lean sources

def alloc_source(root: Path) -> tuple[str, list]:
    try:
        rows = alloc_sites(root)
        if not rows:
            rows = [("?", "extractor", "failed", f"no allocation site found under {root}")]
    except Exception as e:  # noqa
        rows = [("?", "extractor", "failed", f"{type(e).__name__}: {e}")]
    src = ("namespace PsdVerif.Generated.AllocSites\n"
           "/-- every place of src/psd_tools where memory is allocated from a computed size:\n"
           "(module, function, kind, size expression), sorted -/\n"
           f"def sites : List (String × String × String × String) := {_rows(rows)}\n"
           "end PsdVerif.Generated.AllocSites\n")
    return src, rows


def loops_source(root: Path) -> tuple[str, list]:
    try:
        rows = read_loops(root)
        if not rows:
            rows = [("?", "extractor", "failed", f"no loop found under {root}", "")]
    except Exception as e:  # noqa
        rows = [("?", "extractor", "failed", f"{type(e).__name__}: {e}", "")]
    src = ("namespace PsdVerif.Generated.ReadLoops\n"
           "/-- every loop, and every `try` outside a loop, of the reading functions of psd/*.py, utils.py, compression/*.py:\n"
           "(module, function, kind, header, guard); rows of a function in source order -/\n"
           f"def loops : List (String × String × String × String × String) := {_rows(rows)}\n"
           "end PsdVerif.Generated.ReadLoops\n")
    return src, rows


def _root_of_ctx():
    import core
    return core.REPO / "src" / "psd_tools"


def _note_sentinels(ctx, what, rows):
    for r in rows:
        if r[0] == "?":
            ctx.notes.append(f"extract_c06.{what}: {r[3]}")


def gen_alloc_sites(ctx):
    src, rows = alloc_source(_root_of_ctx())
    _note_sentinels(ctx, "gen_alloc_sites", rows)
    ctx.write_generated("AllocSites", src)
    return {"sites": len(rows)}


def gen_read_loops(ctx):
    src, rows = loops_source(_root_of_ctx())
    _note_sentinels(ctx, "gen_read_loops", rows)
    ctx.write_generated("ReadLoops", src)
    return {"loops": len(rows), "guarded": sum(1 for r in rows if r[2] != "try" and r[4])}


# ------------------------------------------------------------------------------------------------ companion analysis
#
# (phase, verdict) of an allocation site - how `CostTables.siteVerdicts` was produced. Not used by the check: the Lean file
# lists every site explicitly, so a new site breaks `alloc_sites_tied` / `sites_all_classified` until somebody classifies it.
#
# phase    "open"    reachable from PSDImage.open -> PSD.read (the readers of psd/*.py, the read helpers of utils.py, engine data)
#          "export"  pixel decoding and rendering (api/, composite/, compression decoders, get_data)
#          "write"   only on write / save / tobytes / encode;  "other" constructors from user data (new, frompil)
# verdict  "bounded-by-data"  the size is the length of bytes / arrays that exist, or an fp.read(n) on an in-memory stream
#          "declared-size"    the size is a number of the file (or of the caller) not checked against the data available
#          "constant"         a literal, or bounded by a constant of the format (one length byte, a literal divisor, ...)
#
# Which streams are in memory (read off PSD.read): the caller's stream is seen by FileHeader, ColorModeData, ImageResources.read,
# LayerAndMaskInformation, LayerInfo, LayerRecords, LayerRecord.read, ChannelInfo, LayerFlags, ChannelImageData, ChannelDataList,
# ChannelData, GlobalLayerMaskInfo.read, TaggedBlocks.read, TaggedBlock.read, ImageData.read and the utils helpers they call.
# Every payload class (image resources, tagged blocks, descriptors, engine data, linked layers, patterns, filter effects, the
# extra data of a layer record) is parsed from `io.BytesIO(<block already read>)` through `frombytes`.

B, D, C = "bounded-by-data", "declared-size", "constant"

EXPLICIT = {
    # --- the caller's stream: io.BufferedReader.read(n) reserves n bytes before reading (returned bytes are bounded by the file)
    ("utils.py", "read_length_block", "read", "length"): ("open", D),
    ("psd/layer_and_mask.py", "ChannelData.read", "read", "length"): ("open", D),
    # --- utils
    ("utils.py", "read_fmt", "read", "fmt_size"): ("open", C),          # literal formats; '%dd' % count only in UnitFloats.read (in memory)
    ("utils.py", "read_fmt", "struct.unpack", "fmt"): ("open", B),        # only after exactly fmt_size bytes were read
    ("utils.py", "unpack", "struct.unpack", "fmt"): ("open", B),
    ("utils.py", "read_length_block", "read_fmt", "fmt"): ("open", C),
    ("utils.py", "read_padding", "read", "divisor - remainder"): ("open", C),   # < divisor, a literal 1 / 2 / 4 at every caller
    ("utils.py", "read_pascal_string", "read", "length"): ("open", C),   # one length byte: <= 255
    ("utils.py", "read_unicode_string", "read", "num_chars * 2"): ("open", B),  # callers are payload classes: in-memory stream
    ("utils.py", "is_readable", "read", "size"): ("open", C),            # literal at every caller
    ("utils.py", "read_be_array", "array.array", "str(fmt)"): ("export", C),
    ("utils.py", "read_be_array", "read", "count * arr.itemsize"): ("export", B),   # only caller decode_rle: in-memory stream
    ("utils.py", "be_array_from_bytes", "array.array", "str(fmt), data"): ("export", B),
    ("utils.py", "be_array_to_bytes", ".tobytes", ""): ("write", B),
    ("utils.py", "pack", "struct.pack", "fmt"): ("write", B),
    ("utils.py", "write_fmt", "struct.pack", "fmt"): ("write", B),
    ("utils.py", "write_padding", "struct.pack", "'%dx' % (divisor - remainder)"): ("write", C),
    ("utils.py", "write_position", "struct.pack", "str('>' + fmt)"): ("write", C),
    # --- compression (decoders run on get_data / topil / numpy / composite, never on open)
    ("compression/__init__.py", "_decode_rle_row", "rle.decode", "row, row_size"): ("export", B),   # row_size <= 64 * len(row) checked first
    ("compression/__init__.py", "_inflate", "decompress", "data, max(length, 1)"): ("export", D),   # capped by width*height*bytes, not by the data
    ("compression/__init__.py", "_inflate", "decompress", "decompressor.unconsumed_tail, 1"): ("export", C),
    ("compression/__init__.py", "decompress", "call:_inflate", "data, length"): ("export", D),
    ("compression/__init__.py", "decompress", "call:decode_rle", "data, width, height, depth, version"): ("export", B),
    ("compression/__init__.py", "decompress", "call:decode_prediction", "decompressed, width, height, depth"): ("export", B),
    ("compression/__init__.py", "decompress", "Image.new", "mode, (width, height), color=0"): ("export", D),   # `result is None`: dead as written
    ("compression/__init__.py", "decompress", ".tobytes", ""): ("export", D),
    ("compression/__init__.py", "decode_rle", "call:read_be_array", "('H', 'I')[version - 1], height, fp"): ("export", B),
    ("compression/rle.py", "decode", "repeat", "data[i:i + 1] * (1 + bit)"): ("export", C),          # <= 128
    # --- psd: export / other
    ("psd/image_data.py", "ImageData.get_data", "call:decompress",
     "self.data, self.compression, header.width, header.height * header.channels, header.depth, header.version"): ("export", D),
    ("psd/layer_and_mask.py", "ChannelData.get_data", "call:decompress", "self.data, self.compression, width, height, depth, version"): ("export", D),
    ("psd/patterns.py", "VirtualMemoryArray.get_data", "call:decompress", "self.data, self.compression, width, height, self.depth, version=1"): ("export", D),
    ("psd/image_data.py", "ImageData.new", "repeat", "(color,) * header.channels"): ("other", D),
    ("psd/image_data.py", "ImageData.new", "repeat", "pack(fmt, color[i]) * plane_size"): ("other", D),
    ("psd/image_data.py", "ImageData.new", "struct.pack", "fmt"): ("other", C),
    ("psd/color_mode_data.py", "ColorModeData.interleave", ".tobytes", ""): ("export", C),
    # --- psd: computed formats
    ("psd/descriptor.py", "UnitFloats.read", "read_fmt", "'%dd' % count"): ("open", B),   # in-memory; unpack only after 8*count bytes were read
    ("psd/header.py", "FileHeader.read", "read_fmt", "cls._FORMAT"): ("open", C),
    ("psd/layer_and_mask.py", "ChannelInfo.read", "read_fmt", "('hI', 'hQ')[version - 1]"): ("open", C),
    ("psd/layer_and_mask.py", "LayerAndMaskInformation.read", "read_fmt", "('I', 'Q')[version - 1]"): ("open", C),
    ("psd/layer_and_mask.py", "LayerInfo.read", "read_fmt", "('I', 'Q')[version - 1]"): ("open", C),
    ("psd/header.py", "FileHeader.write", "write_fmt", "self._FORMAT"): ("write", C),
    ("psd/layer_and_mask.py", "ChannelInfo.write", "write_fmt", "('hI', 'hQ')[version - 1]"): ("write", C),
    ("psd/layer_and_mask.py", "LayerInfo.write", "write_fmt", "fmt"): ("write", C),
    # --- api / composite exceptions to the defaults below
    ("api/layers.py", "PixelLayer.frompil", "Image.new", "'L', pil_im.size, 255"): ("other", B),
    ("api/psd_image.py", "PSDImage._merged_planes", "repeat", "[plane(np.ones_like(alpha))] * header.channels"): ("write", D),
    ("composite/__init__.py", "composite", "repeat", "(color,) * EXPECTED_CHANNELS[color_mode]"): ("export", C),
    ("composite/vector.py", "_make_noise_gradient_color", "np.linspace", "0, 1, 256, dtype=np.float32"): ("export", C),
}

_SIZE_OF_EXISTING = ("np.zeros_like", "np.ones_like", "np.empty_like", "np.full_like", "np.repeat", "np.stack", "np.concatenate",
                     "np.asarray", "np.array", "np.frombuffer", "Image.merge", "Image.fromarray", ".tobytes", "bytesio", "bytes",
                     "bytearray", "array.array", "zlib.compress", "zlib.decompress", "call:be_array_from_bytes", "call:_decode_rle_row",
                     "write_fmt", "struct.pack", "struct.unpack")
_FROM_DIMENSIONS = ("np.zeros", "np.ones", "np.empty", "np.full", "np.linspace", "np.meshgrid", "np.tile", "np.indices", "np.arange",
                    "Image.new", "Image.frombytes", "Image.frombuffer", "Image.open", ".resize", ".crop", "list-range")


def phase_of(mod: str, qual: str) -> str:
    parts = qual.split(".")
    writer = not is_reader_function(qual, False) or "_merged_planes" in parts
    if any(p in ("frompil", "new", "set_data") for p in parts):
        return "other"
    if mod.startswith(("api/", "composite/")):
        return "write" if writer and "_merged_planes" in parts else "export"
    if mod.startswith("compression/"):
        return "write" if writer else "export"
    if mod == "utils.py" or mod.startswith("psd/"):
        if writer:
            return "write"
        return "export" if any(p in ("get_data", "interleave") for p in parts) else "open"
    return "other"


def classify(site):
    """(phase, verdict) - ("?", "?") when no rule applies: somebody has to look"""
    mod, qual, kind, expr = site
    if site in EXPLICIT:
        return EXPLICIT[site]
    phase = phase_of(mod, qual)
    if kind == "read":
        if expr == "":
            return phase, B                      # fp.read(): what is there
        try:
            if _literal(ast.parse(expr, mode="eval").body):
                return phase, C
        except SyntaxError:
            pass
        if mod.startswith(("psd/", "compression/")):
            return phase, B                      # payload classes and decoders read from io.BytesIO(<block already read>)
        return "?", "?"
    if kind == "repeat" and phase == "write":
        return phase, B
    if kind.startswith("np.") and ".shape[" in expr and "height" not in expr and "width" not in expr:
        return phase, B                          # the shape of an array that exists
    if qual == "ColorModeData.interleave":
        return phase, C                          # 256 entries of 3 bytes
    if kind in _SIZE_OF_EXISTING:
        return phase, B
    if kind in _FROM_DIMENSIONS:
        return phase, D
    return "?", "?"


def model_source(root: Path) -> str:
    """lean/PsdVerif/Model/CostTables.lean for the current source (the snapshot somebody reviews and commits)"""
    _, sites = alloc_source(root)
    _, loops = loops_source(root)
    rows = []
    for s in sites:
        ph, vd = classify(s)
        rows.append("  ((" + ", ".join(_s(y) for y in s) + "), " + _s(ph) + ", " + _s(vd) + ")")
    return MODEL_HEAD + (
        "/-- snapshot of `Generated.AllocSites.sites` -/\n"
        f"def sites : List (String × String × String × String) := {_rows(sites)}\n\n"
        "/-- snapshot of `Generated.ReadLoops.loops` -/\n"
        f"def loops : List (String × String × String × String × String) := {_rows(loops)}\n\n"
        "/-- every allocation site with its (phase, verdict) -/\n"
        "def siteVerdicts : List ((String × String × String × String) × String × String) := [\n" + ",\n".join(rows) + "\n]\n\n"
        "end PsdVerif.CostTables\n")


MODEL_HEAD = """/-
C06 (malformed input fails safely) - what the counting model of the reader assumes about the source, in the shape of the two
tables `harness/extract_c06.py` regenerates from the working tree on every run:

* `sites`  every place of src/psd_tools where memory is allocated from a computed size (module, function, kind, size expression);
* `loops`  every loop - and every `try` outside a loop - of the reading functions of psd/*.py, utils.py, compression/*.py
           (module, function, kind, header, guard);
* `siteVerdicts`  the review of every site: phase "open" | "export" | "write" | "other" and verdict
           "bounded-by-data" | "declared-size" | "constant" (the rules and the reasons: `classify` in harness/extract_c06.py).

The ties (`decide`) are in Lemmas/CostTablesTied.lean. A new allocation site, a new loop, a new `try` in a reader changes a
regenerated table and breaks its tie until this snapshot is reviewed again (`python3 harness/extract_c06.py --emit-model`).

Streams: `PSD.read` hands the caller's stream to the section readers (header, colour mode data, image resources block, layer
and mask information, layer records, channel data, tagged-block framing, image data); every payload class is parsed from
`io.BytesIO(<block already read>)`. `fp.read(n)` on an in-memory stream returns at most what exists ("bounded-by-data");
on the caller's stream (an `io.BufferedReader` for a path) `read(n)` reserves `n` bytes before it reads, so the two sites
`utils.read_length_block` and `ChannelData.read` are "declared-size" at phase "open": the bytes RETURNED are bounded by the
file, the transient reservation is the declared length (4-byte lengths: < 4 GiB of untouched address space, MemoryError at
worst; 8-byte lengths of PSB: OverflowError / ValueError / MemoryError).
Core Lean only.
-/
import PsdVerif.Generated.AllocSites
import PsdVerif.Generated.ReadLoops

namespace PsdVerif.CostTables

/-- `pat` occurs in the character list (structural recursion: `String.splitOn` does not reduce in the kernel) -/
def hasSub (pat : List Char) : List Char → Bool
  | [] => pat.isEmpty
  | c :: cs => pat.isPrefixOf (c :: cs) || hasSub pat cs

/-- the string `s` mentions `pat` -/
def mentions (s pat : String) : Bool := hasSub pat.toList s.toList

"""


# ------------------------------------------------------------------------------------------------ command line

def main(argv):
    import argparse
    ap = argparse.ArgumentParser(description=__doc__.split("\n")[0])
    ap.add_argument("--root", help="the psd_tools package directory (default: core.REPO/src/psd_tools)")
    ap.add_argument("--write", action="store_true", help="write lean/PsdVerif/Generated/{AllocSites,ReadLoops}.lean")
    ap.add_argument("--lean", action="store_true", help="print the two Lean sources instead of the plain tables")
    ap.add_argument("--emit-model", action="store_true", help="print lean/PsdVerif/Model/CostTables.lean for the current source")
    ap.add_argument("--verdicts", action="store_true", help="print the sites with the (phase, verdict) of the companion analysis")
    a = ap.parse_args(argv)
    if a.root:
        root = Path(a.root)
        if (root / "psd_tools").is_dir():
            root = root / "psd_tools"
    else:
        sys.path.insert(0, str(Path(__file__).resolve().parent))
        root = _root_of_ctx()
    if a.emit_model:
        sys.stdout.write(model_source(root))
        return 0
    s_src, s_rows = alloc_source(root)
    l_src, l_rows = loops_source(root)
    if a.verdicts:
        for r in s_rows:
            print("  " + " | ".join(classify(r)) + " || " + " | ".join(r))
        return 0
    if a.write:
        gen = Path(__file__).resolve().parent.parent / "lean" / "PsdVerif" / "Generated"
        gen.mkdir(parents=True, exist_ok=True)
        for name, src in (("AllocSites", s_src), ("ReadLoops", l_src)):
            f = gen / (name + ".lean")
            if not f.exists() or f.read_text() != HEADER + src:
                f.write_text(HEADER + src)
                print("wrote", f)
    if a.lean:
        print(HEADER + s_src)
        print(HEADER + l_src)
    elif not a.write:
        print(f"# alloc sites ({len(s_rows)}) under {root}")
        for r in s_rows:
            print("  " + " | ".join(r))
        print(f"# reader loops ({len(l_rows)})")
        for r in l_rows:
            print("  " + " | ".join(r))
    return 0


if __name__ == "__main__":
    sys.exit(main(sys.argv[1:]))
