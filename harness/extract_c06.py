"""C06 (malformed input fails safely) extractor: where the library ALLOCATES from a computed size and where its readers LOOP,
read from the AST of the working tree on every run (pure `ast`, psd_tools is never imported)

    -> lean/PsdVerif/Generated/AllocSites.lean   `sites : List (String × String × String × String)`
    -> lean/PsdVerif/Generated/ReadLoops.lean    `loops : List (String × String × String × String × String)`

`sites`  (module relative to psd_tools, qualified function, kind, size expression as `ast.unparse` writes it), sorted; one row
         per occurrence (two `fp.read(4)` in one function are two rows), no line numbers.
`loops`  (module, qualified function, kind, header, guard) for every loop of every function of `psd/*.py`, `utils.py`,
         `compression/*.py` that is not a writer / `__repr__` / property:
           kind "count"  `for .. in range(e)` with `e` not literal arithmetic (also through `reversed` / `enumerate` / `list`),
                "fixed"  `range(<literals>)`, "for-in" any other iterable, "while"; comprehensions and generator expressions
                are loops too (header prefixed by nothing, same kinds);
           header = the `range` arguments / the iterable / the `while` test;
           guard  = "" when no `try` lies inside the loop (nested function bodies excepted), else
                    "try:except <types>:<continue|raise|return|break>" per handler, joined by ";" - "continue" means the handler
                    falls through, i.e. the loop goes on to its next iteration after the exception.
         and kind "try" rows (header = "except <types>:<disposition>;...", guard = "wraps-call:<callees>") for every `try`
         of such a function that is not inside a loop.
         Rows of one function are in source order; functions are ordered by (module, qualified name).

The committed snapshots are `PsdVerif.CostTables.sites` / `.loops` (lean/PsdVerif/Model/CostTables.lean); the ties are in
lean/PsdVerif/Lemmas/CostTablesTied.lean. `classify` below is the companion analysis (phase, verdict) that produced
`CostTables.siteVerdicts`; `python3 harness/extract_c06.py --emit-model` prints the Model file for the current source.

A source this extractor cannot read is not an infrastructure error: a sentinel row ("?", "extractor", "failed", msg[, ""])
is emitted, the tie theorem then fails, and the run goes on.
"""
from __future__ import annotations

import ast
import sys
from pathlib import Path

HEADER = "-- REGENERATED from /repo by harness/extract.py on every run. Do not edit.\n"

FUNC = (ast.FunctionDef, ast.AsyncFunctionDef)
SCOPE = FUNC + (ast.ClassDef,)
LOOPS = (ast.For, ast.AsyncFor, ast.While)
COMPS = (ast.ListComp, ast.SetComp, ast.DictComp, ast.GeneratorExp)


def _s(x: str) -> str:
    out = []
    for ch in x:
        if ch == "\\":
            out.append("\\\\")
        elif ch == '"':
            out.append('\\"')
        elif ch == "\n":
            out.append("\\n")
        elif ch == "\t":
            out.append("\\t")
        elif ch == "\r":
            out.append("\\r")
        elif ord(ch) < 32 or ord(ch) == 127:
            out.append("\\x%02x" % ord(ch))
        else:
            out.append(ch)
    return '"' + "".join(out) + '"'


def _rows(xs) -> str:
    return "[\n  " + ",\n  ".join("(" + ", ".join(_s(y) for y in x) + ")" for x in xs) + "\n]" if xs else "[]"


def _u(node) -> str:
    return " ".join(ast.unparse(node).split())


def _args_text(call: ast.Call) -> str:
    parts = [_u(a) for a in call.args] + [(k.arg + "=" if k.arg else "**") + _u(k.value) for k in call.keywords]
    return ", ".join(parts)


# ------------------------------------------------------------------------------------------------ scopes

def _own(node):
    """descendants of `node` that belong to its own scope: nested function / class bodies are left to their own row
    (their decorators and argument defaults, evaluated in this scope, are kept)"""
    stack = list(reversed(list(ast.iter_child_nodes(node))))
    while stack:
        n = stack.pop()
        if isinstance(n, SCOPE):
            outer = list(n.decorator_list)
            if isinstance(n, FUNC):
                outer += [d for d in n.args.defaults + n.args.kw_defaults if d is not None]
            else:
                outer += list(n.bases)
            for d in outer:
                yield d
                stack.extend(reversed(list(ast.iter_child_nodes(d))))
            continue
        yield n
        stack.extend(reversed(list(ast.iter_child_nodes(n))))


def _is_property(fn) -> bool:
    for d in fn.decorator_list:
        t = _u(d)
        if t in ("property", "cached_property", "functools.cached_property") or t.endswith((".setter", ".getter", ".deleter")):
            return True
    return False


def scopes(tree):
    """(qualified name, node, is_function, is_property) for the module, every class body and every function (nested ones
    as outer.inner), in source order"""
    out = [("<module>", tree, False, False)]

    def go(node, prefix):
        for n in ast.iter_child_nodes(node):
            if isinstance(n, ast.ClassDef):
                q = prefix + n.name
                out.append((q + ".<class>", n, False, False))
                go(n, q + ".")
            elif isinstance(n, FUNC):
                q = prefix + n.name
                out.append((q, n, True, _is_property(n)))
                go(n, q + ".")
            else:
                go(n, prefix)
    go(tree, "")
    return out


def modules(root: Path):
    return sorted((p.relative_to(root).as_posix(), p) for p in root.rglob("*.py"))


# ------------------------------------------------------------------------------------------------ allocation sites

NP_ALLOC = {"zeros", "ones", "empty", "full", "zeros_like", "ones_like", "empty_like", "full_like", "frombuffer", "fromstring",
            "fromiter", "tile", "repeat", "stack", "concatenate", "hstack", "vstack", "dstack", "column_stack", "array", "asarray",
            "ascontiguousarray", "arange", "linspace", "meshgrid", "indices", "pad", "broadcast_to", "ndarray", "kron", "outer",
            "resize", "identity", "eye"}
IMAGE_ALLOC = {"new", "frombytes", "frombuffer", "fromarray", "merge", "open"}
METHOD_ALLOC = {"resize", "tobytes", "crop", "ljust", "rjust", "center", "zfill", "to_bytes", "expandtabs"}
NUMERIC_FUNCS = {"int", "len", "max", "min", "abs", "float", "round", "sum", "ord", "pad", "bool", "divmod", "pow"}
# decoders of the library whose output buffer has a declared size (called by name)
DECODERS = {"decompress", "decode_rle", "decode_prediction", "_inflate", "_decode_rle_row", "read_be_array", "be_array_from_bytes"}
RLE_MODULES = {"rle_impl", "_rle", "rle"}
FILE_NAMES = {"fp", "f", "file", "fh", "stream", "fileobj"}


def _literal(node) -> bool:
    """an integer literal or arithmetic over literals"""
    if isinstance(node, ast.Constant):
        return isinstance(node.value, (int, float)) and not isinstance(node.value, bool)
    if isinstance(node, ast.UnaryOp):
        return _literal(node.operand)
    if isinstance(node, ast.BinOp):
        return _literal(node.left) and _literal(node.right)
    return False


def _sequence_literal(node, reader_module: bool) -> bool:
    if isinstance(node, (ast.List, ast.Tuple, ast.ListComp, ast.JoinedStr)):
        return True
    if isinstance(node, ast.Constant) and isinstance(node.value, (bytes, str)):
        return True
    if isinstance(node, ast.Call) and isinstance(node.func, ast.Name) and node.func.id in ("bytes", "bytearray", "list", "tuple", "str"):
        return True
    if reader_module and isinstance(node, ast.Subscript) and isinstance(node.slice, ast.Slice):
        return True          # data[i:i + 1] * n
    if reader_module and isinstance(node, ast.Call):
        f = node.func        # pack(fmt, x) * n, b.join(...) * n: any call that is not plainly numeric
        nm = f.id if isinstance(f, ast.Name) else f.attr if isinstance(f, ast.Attribute) else ""
        return nm not in NUMERIC_FUNCS
    return False


def _is_reader_module(mod: str) -> bool:
    return mod == "utils.py" or mod.startswith(("psd/", "compression/"))


def sites_of(node, mod: str):
    """the (kind, expression) rows of one AST node"""
    out = []
    if isinstance(node, ast.BinOp) and isinstance(node.op, ast.Mult):
        rm = _is_reader_module(mod)
        for seq, cnt in ((node.left, node.right), (node.right, node.left)):
            if _sequence_literal(seq, rm) and not _literal(cnt) and not _sequence_literal(cnt, False):
                out.append(("repeat", _u(node)))
                break
        return out
    if not isinstance(node, ast.Call):
        return out
    f = node.func
    name = f.id if isinstance(f, ast.Name) else None
    attr = f.attr if isinstance(f, ast.Attribute) else None
    recv = _u(f.value) if isinstance(f, ast.Attribute) else None
    a = node.args
    if name in ("bytearray", "bytes") and (a or node.keywords):
        out.append((name, _args_text(node)))
    elif name in ("list", "tuple") and len(a) == 1 and isinstance(a[0], ast.Call) and _u(a[0].func) == "range":
        out.append(("list-range", _args_text(a[0])))
    elif attr is not None and recv in ("np", "numpy") and attr in NP_ALLOC:
        out.append(("np." + attr, _args_text(node)))
    elif (recv == "array" and attr == "array") or (name == "array" and a and isinstance(a[0], ast.Constant) and isinstance(a[0].value, str)):
        out.append(("array.array", _args_text(node)))
    elif (recv == "struct" and attr in ("pack", "unpack", "unpack_from", "pack_into")) or name in ("pack", "unpack"):
        if a and not isinstance(a[0], ast.Constant):
            out.append(("struct." + (attr or name), _u(a[0])))
    elif name == "read_fmt" or attr == "read_fmt":
        if a and not isinstance(a[0], ast.Constant):
            out.append(("read_fmt", _u(a[0])))
    elif name == "write_fmt" or attr == "write_fmt":
        if len(a) > 1 and not isinstance(a[1], ast.Constant):
            out.append(("write_fmt", _u(a[1])))
    elif recv == "zlib" and attr in ("decompress", "compress"):
        out.append(("zlib." + attr, _args_text(node)))
    elif attr == "decompress":
        out.append(("decompress", _args_text(node)))
    elif attr == "decode" and recv in RLE_MODULES:
        out.append(("rle.decode", _args_text(node)))
    elif name in DECODERS or (attr in DECODERS and recv not in ("self", "cls")):
        out.append(("call:" + (name or attr), _args_text(node)))
    elif attr == "read" and not node.keywords and len(a) <= 1 and not any(isinstance(x, ast.Starred) for x in a) \
            and not (a and isinstance(a[0], ast.Name) and a[0].id in FILE_NAMES) \
            and not (a and isinstance(a[0], ast.Attribute) and a[0].attr in FILE_NAMES):
        out.append(("read", _args_text(node)))
    elif (name == "BytesIO" or (recv == "io" and attr == "BytesIO")) and (a or node.keywords):
        out.append(("bytesio", _args_text(node)))
    elif recv in ("Image", "PIL.Image") and attr in IMAGE_ALLOC:
        out.append(("Image." + attr, _args_text(node)))
    elif attr in METHOD_ALLOC:
        out.append(("." + attr, _args_text(node)))
    return out


def alloc_sites(root: Path):
    rows = []
    for mod, path in modules(root):
        try:
            tree = ast.parse(path.read_text(encoding="utf-8"))
        except Exception as e:  # noqa
            rows.append(("?", "extractor", "failed", f"{mod}: {type(e).__name__}: {e}"))
            continue
        for qual, node, _isfn, _prop in scopes(tree):
            for n in _own(node):
                for kind, expr in sites_of(n, mod):
                    rows.append((mod, qual, kind, expr))
    rows.sort()
    return rows


# ------------------------------------------------------------------------------------------------ reader loops

WRITE_NAMES = {"write", "tobytes", "save", "__repr__", "__str__", "_repr_pretty_", "__format__"}
WRITE_PREFIXES = ("write", "_write", "encode", "_encode", "compress", "_compress")
WRITE_EXACT_HELPERS = {"_delta_encode", "_shuffle_byte_order", "be_array_to_bytes", "pack", "reserve_position", "trimmed_repr"}


def is_reader_function(qual: str, is_property: bool) -> bool:
    """inclusive: every function of the reader modules except writers, encoders, reprs and properties (a function nested
    in an excluded one is excluded with it)"""
    if is_property:
        return False
    for part in qual.split("."):
        if part in WRITE_NAMES or part in WRITE_EXACT_HELPERS or part.startswith(WRITE_PREFIXES):
            return False
    return True


def _range_call(it):
    """the `range(...)` call an iterable is, looking through reversed / enumerate / list / tuple / iter / sorted"""
    for _ in range(4):
        if isinstance(it, ast.Call) and isinstance(it.func, ast.Name):
            if it.func.id == "range":
                return it
            if it.func.id in ("reversed", "enumerate", "list", "tuple", "iter", "sorted") and it.args:
                it = it.args[0]
                continue
        break
    return None


def _iter_kind(it):
    r = _range_call(it)
    if r is None:
        return "for-in", _u(it)
    if all(_literal(x) for x in r.args) and not r.keywords:
        return "fixed", _args_text(r)
    return "count", _args_text(r)


def _body_nodes(stmts):
    """every node under the statements, nested function / class bodies excepted"""
    for s in stmts:
        if isinstance(s, SCOPE):
            continue
        yield s
        for n in _own(s):
            yield n


def _disposition(handler: ast.ExceptHandler) -> str:
    last = handler.body[-1] if handler.body else None
    if isinstance(last, ast.Raise):
        return "raise"
    if isinstance(last, ast.Return):
        return "return"
    if isinstance(last, ast.Break):
        return "break"
    return "continue"      # `continue`, `pass`, a log call, an assignment ...: the loop goes on


def _handlers_text(t: ast.Try, prefix: str):
    if not t.handlers:
        return [prefix + "finally-only:raise"]
    return [prefix + "except " + (_u(h.type) if h.type is not None else "<bare>") + ":" + _disposition(h) for h in t.handlers]


def _guard(body_stmts) -> str:
    found = []
    for n in _body_nodes(body_stmts):
        if isinstance(n, ast.Try) or n.__class__.__name__ == "TryStar":
            found.append(((n.lineno, n.col_offset), n))
    found.sort(key=lambda x: x[0])
    return ";".join(t for _, n in found for t in _handlers_text(n, "try:"))


def _callees(stmts) -> str:
    seen = []
    for n in _body_nodes(stmts):
        if isinstance(n, ast.Call):
            t = _u(n.func)
            if t not in seen:
                seen.append(t)
    return ",".join(seen)


def loops_of(fn):
    """(kind, header, guard) rows of one function in source order"""
    items = []
    in_loop = set()          # ids of nodes lying inside some loop of this function
    for n in _own(fn):
        if isinstance(n, LOOPS):
            for m in _body_nodes(n.body + n.orelse):
                in_loop.add(id(m))
        elif isinstance(n, COMPS):
            for m in _own(n):
                in_loop.add(id(m))
    for n in _own(fn):
        pos = (getattr(n, "lineno", 0), getattr(n, "col_offset", 0))
        if isinstance(n, (ast.For, ast.AsyncFor)):
            kind, header = _iter_kind(n.iter)
            items.append((pos, 0, (kind, header, _guard(n.body + n.orelse))))
        elif isinstance(n, ast.While):
            items.append((pos, 0, ("while", _u(n.test), _guard(n.body + n.orelse))))
        elif isinstance(n, COMPS):
            for i, g in enumerate(n.generators):
                kind, header = _iter_kind(g.iter)
                items.append((pos, 1 + i, (kind, header, "")))
        elif (isinstance(n, ast.Try) or n.__class__.__name__ == "TryStar") and id(n) not in in_loop:
            items.append((pos, 0, ("try", ";".join(_handlers_text(n, "")), "wraps-call:" + _callees(n.body))))
    items.sort(key=lambda x: (x[0], x[1]))
    return [r for _, _, r in items]


def read_loops(root: Path):
    rows = []
    for mod, path in modules(root):
        if not _is_reader_module(mod):
            continue
        try:
            tree = ast.parse(path.read_text(encoding="utf-8"))
        except Exception as e:  # noqa
            rows.append(("?", "extractor", "failed", f"{mod}: {type(e).__name__}: {e}", ""))
            continue
        per_fn = []
        for i, (qual, node, isfn, prop) in enumerate(scopes(tree)):
            # module / class level statements run at import, not on the data; their loops are listed all the same
            if isfn and not is_reader_function(qual, prop):
                continue
            body_rows = loops_of(node)
            per_fn.append((qual, i, body_rows))
        per_fn.sort(key=lambda x: (x[0], x[1]))
        for qual, _, body_rows in per_fn:
            for kind, header, guard in body_rows:
                rows.append((mod, qual, kind, header, guard))
    return rows


# ------------------------------------------------------------------------------------------------ Lean sources

def alloc_source(root: Path) -> tuple[str, list]:
    try:
        rows = alloc_sites(root)
        if not rows:
            rows = [("?", "extractor", "failed", f"no allocation site found under {root}")]
    except Exception as e:  # noqa
        rows = [("?", "extractor", "failed", f"{type(e).__name__}: {e}")]
    src = ("namespace PsdVerif.Generated.AllocSites\n"
           "/-- every place of src/psd_tools where memory is allocated from a computed size:\n"
           "(module, function, kind, size expression), sorted -/\n"
           f"def sites : List (String × String × String × String) := {_rows(rows)}\n"
           "end PsdVerif.Generated.AllocSites\n")
    return src, rows


def loops_source(root: Path) -> tuple[str, list]:
    try:
        rows = read_loops(root)
        if not rows:
            rows = [("?", "extractor", "failed", f"no loop found under {root}", "")]
    except Exception as e:  # noqa
        rows = [("?", "extractor", "failed", f"{type(e).__name__}: {e}", "")]
    src = ("namespace PsdVerif.Generated.ReadLoops\n"
           "/-- every loop, and every `try` outside a loop, of the reading functions of psd/*.py, utils.py, compression/*.py:\n"
           "(module, function, kind, header, guard); rows of a function in source order -/\n"
           f"def loops : List (String × String × String × String × String) := {_rows(rows)}\n"
           "end PsdVerif.Generated.ReadLoops\n")
    return src, rows


def _root_of_ctx():
    import core
    return core.REPO / "src" / "psd_tools"


def _note_sentinels(ctx, what, rows):
    for r in rows:
        if r[0] == "?":
            ctx.notes.append(f"extract_c06.{what}: {r[3]}")


def gen_alloc_sites(ctx):
    src, rows = alloc_source(_root_of_ctx())
    _note_sentinels(ctx, "gen_alloc_sites", rows)
    ctx.write_generated("AllocSites", src)
    return {"sites": len(rows)}


def gen_read_loops(ctx):
    src, rows = loops_source(_root_of_ctx())
    _note_sentinels(ctx, "gen_read_loops", rows)
    ctx.write_generated("ReadLoops", src)
    return {"loops": len(rows), "guarded": sum(1 for r in rows if r[2] != "try" and r[4])}


# ------------------------------------------------------------------------------------------------ command line

def main(argv):
    import argparse
    ap = argparse.ArgumentParser(description=__doc__.split("\n")[0])
    ap.add_argument("--root", help="the psd_tools package directory (default: core.REPO/src/psd_tools)")
    ap.add_argument("--write", action="store_true", help="write lean/PsdVerif/Generated/{AllocSites,ReadLoops}.lean")
    ap.add_argument("--lean", action="store_true", help="print the two Lean sources instead of the plain tables")
    a = ap.parse_args(argv)
    if a.root:
        root = Path(a.root)
        if (root / "psd_tools").is_dir():
            root = root / "psd_tools"
    else:
        sys.path.insert(0, str(Path(__file__).resolve().parent))
        root = _root_of_ctx()
    s_src, s_rows = alloc_source(root)
    l_src, l_rows = loops_source(root)
    if a.write:
        gen = Path(__file__).resolve().parent.parent / "lean" / "PsdVerif" / "Generated"
        gen.mkdir(parents=True, exist_ok=True)
        for name, src in (("AllocSites", s_src), ("ReadLoops", l_src)):
            f = gen / (name + ".lean")
            if not f.exists() or f.read_text() != HEADER + src:
                f.write_text(HEADER + src)
                print("wrote", f)
    if a.lean:
        print(HEADER + s_src)
        print(HEADER + l_src)
    elif not a.write:
        print(f"# alloc sites ({len(s_rows)}) under {root}")
        for r in s_rows:
            print("  " + " | ".join(r))
        print(f"# reader loops ({len(l_rows)})")
        for r in l_rows:
            print("  " + " | ".join(r))
    return 0


if __name__ == "__main__":
    sys.exit(main(sys.argv[1:]))
