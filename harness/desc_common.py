"""C01 (descriptors): model of psd/descriptor.py vs the real classes.

* `regenerate(ctx)`  : rewrites Generated/Descriptor.lean (+ Generated/Terms.lean) from the working tree and
                       returns the property module to build (called from the `ctx.prove([...])` list of C01.py)
* `run(ctx)`         : correspondence (byte for byte / token for token) and the Python-only search oracle on
                       (i) every descriptor value harvested from the fixtures, (ii) generated descriptors
                       (every class, depth <= 4, boundary values, every terminology key, non-term keys of length
                       0..12), (iii) truncated / mutated encodings for the error paths, (iv) block wrappers.

A value of the real classes is canonicalised to the token form of lean/Driver/Descriptor.lean (`to_tokens`); the
same function canonicalises what `frombytes` returns, so "equal structure" is equality of token strings: class
identity, key bytes and how the key was stored, strings as code points, doubles as IEEE bit patterns (Python's `==`
is weaker: it ignores the unit of a unit float, and is false on NaN).
"""
from __future__ import annotations

import collections
import enum
import io
import struct
import time

import core
from core import hx, err_class


class NotRep(Exception):
    """the Python object has no counterpart in the model's DVal (e.g. a key that is not bytes)"""


def _D():
    import importlib
    return importlib.import_module("psd_tools.psd.descriptor")


def _T():
    import importlib
    return importlib.import_module("psd_tools.terminology")


# ---------------------------------------------------------------------------------------------
# regeneration (before the build)
# ---------------------------------------------------------------------------------------------
def regenerate(ctx):
    import extract
    import extract_desc
    ctx.extra["descriptor_generated_tables"] = ctx.regenerate(extract_desc.gen_descriptor)
    ctx.regenerate(extract.gen_terms)
    return ["PsdVerif.Props.C01Descriptor"]


# ---------------------------------------------------------------------------------------------
# canonicalisation: real object -> tokens
# ---------------------------------------------------------------------------------------------
def bits_of(x) -> int:
    return struct.unpack(">Q", struct.pack(">d", x))[0]


def float_of(bits: int) -> float:
    return struct.unpack(">d", struct.pack(">Q", bits))[0]


def t_str(s, out):
    if not isinstance(s, str):
        raise NotRep("not a str: %r" % type(s).__name__)
    out.append(str(len(s)))
    out.extend(str(ord(c)) for c in s)


def t_key(k, out):
    D = _D()
    if not isinstance(k, (bytes, bytearray)):
        raise NotRep("key is not bytes: %r" % type(k).__name__)
    out.append(hx(bytes(k)))
    out.append("1" if isinstance(k, D._ImplicitKey) else "0")


def t_unit(u, out):
    T = _T()
    if isinstance(u, T.Unit):
        out.append("1")
    elif isinstance(u, T.Enum):
        out.append("0")
    else:
        raise NotRep("unit is neither Unit nor Enum: %r" % (u,))
    out.append(hx(bytes(u.value)))


def t_int(x, out):
    if isinstance(x, bool) or not isinstance(x, int):
        raise NotRep("not an int: %r" % type(x).__name__)
    out.append(str(x))


def raw_bytes(v):
    """what RawData.write puts inside the length block"""
    val = v.value
    if hasattr(val, "write"):
        with io.BytesIO() as f:
            val.write(f)
            return f.getvalue()
    if not isinstance(val, (bytes, bytearray)):
        raise NotRep("RawData.value is %r" % type(val).__name__)
    return bytes(val)


def t_items(v, out):
    items = list(v._items.items())
    out.append(str(len(items)))
    for k, x in items:
        t_key(k, out)
        t_val(x, out)


def t_val(v, out, depth=0):
    D = _D()
    K = type(v)
    ost = D.TYPES and getattr(K, "ostype", None)
    if ost is None or D.TYPES.get(ost) is not K:
        raise NotRep("not an instance of a registered class: %s" % K.__name__)
    tag = bytes(ost.value)
    out.append(tag.hex())
    nm = K.__name__
    if nm in ("Integer", "Identifier", "Index", "LargeInteger"):
        t_int(v.value, out)
    elif nm == "Bool":
        out.append("1" if v.value else "0")
    elif nm == "Double":
        out.append(str(bits_of(v.value)))
    elif nm == "UnitFloat":
        t_unit(v.unit, out)
        out.append(str(bits_of(v.value)))
    elif nm == "UnitFloats":
        t_unit(v.unit, out)
        out.append(str(len(v.values)))
        out.extend(str(bits_of(x)) for x in v.values)
    elif nm == "String":
        t_str(v.value, out)
    elif nm == "Enumerated":
        t_key(v.typeID, out)
        t_key(v.enum, out)
    elif nm == "EnumeratedReference":
        t_str(v.name, out)
        t_key(v.classID, out)
        t_key(v.typeID, out)
        t_key(v.enum, out)
    elif nm in ("Class1", "Class2", "Class3"):
        t_str(v.name, out)
        t_key(v.classID, out)
    elif nm == "Property":
        t_str(v.name, out)
        t_key(v.classID, out)
        t_key(v.keyID, out)
    elif nm == "Name":
        t_str(v.name, out)
        t_key(v.classID, out)
        t_str(v.value, out)
    elif nm == "Offset":
        t_str(v.name, out)
        t_key(v.classID, out)
        t_int(v.value, out)
    elif nm in ("RawData", "Alias", "Path"):
        out.append(hx(raw_bytes(v)))
    elif nm in ("List", "Reference"):
        items = list(v)
        out.append(str(len(items)))
        for x in items:
            t_val(x, out, depth + 1)
    elif nm in ("Descriptor", "GlobalObject"):
        t_str(v.name, out)
        t_key(v.classID, out)
        t_items(v, out)
    elif nm == "ObjectArray":
        t_int(v.items_count, out)
        t_str(v.name, out)
        t_key(v.classID, out)
        t_items(v, out)
    else:
        raise NotRep("class without a model constructor: " + nm)


def to_tokens(v) -> str:
    out: list = []
    t_val(v, out)
    return " ".join(out)


def block_kind(x):
    """1 for DescriptorBlock, 2 for DescriptorBlock2 (exact read/write of descriptor.py), else None"""
    D = _D()
    K = type(x)
    for k, B in ((1, D.DescriptorBlock), (2, D.DescriptorBlock2)):
        if isinstance(x, B) and K.read.__func__ is B.read.__func__ and K.write is B.write:
            return k
    return None


def block_tokens(x, kind) -> str:
    out: list = []
    t_int(x.version, out)
    if kind == 2:
        t_int(x.data_version, out)
    t_str(x.name, out)
    t_key(x.classID, out)
    t_items(x, out)
    return " ".join(out)


# ---------------------------------------------------------------------------------------------
# running the real code
# ---------------------------------------------------------------------------------------------
def py_write(v, **kw):
    try:
        with io.BytesIO() as f:
            n = v.write(f, **kw)
            return ("ok", f.getvalue(), n)
    except RecursionError:
        return ("err", "RecursionError")
    except Exception as e:  # noqa
        return ("err", err_class(e))


def py_read(K, data, pos=0, **kw):
    try:
        with io.BytesIO(data) as f:
            f.seek(pos)
            y = K.read(f, **kw)
            return ("ok", y, f.tell())
    except RecursionError:
        return ("err", "RecursionError")
    except Exception as e:  # noqa
        return ("err", err_class(e))


def tag_hex(K) -> str:
    return bytes(K.ostype.value).hex()


# ---------------------------------------------------------------------------------------------
# harvest
# ---------------------------------------------------------------------------------------------
def harvest(files):
    """every instance of a descriptor class reachable in the parsed fixtures, distinct by (class, bytes written)
    -> (values: {class name: [(instance, bytes)]}, blocks: [(instance, kind)], totals)"""
    import codec_common as cc
    import payload_oracle as po
    D = _D()
    reg = set(D.TYPES.values())
    sink: dict = {}
    for f in files:
        r = cc.read_doc(f.read_bytes())
        if r[0] == "ok":
            po.walk(r[1], sink)
    values: dict = collections.defaultdict(list)
    blocks = []
    seen = set()
    total = 0
    for K, xs in sorted(sink.items(), key=lambda kv: kv[0].__name__):
        if K in reg:
            for x in xs:
                total += 1
                w = py_write(x)
                if w[0] != "ok":
                    continue
                key = (K.__name__, w[1])
                if key in seen:
                    continue
                seen.add(key)
                values[K.__name__].append((x, w[1]))
        else:
            for x in xs:
                k = block_kind(x)
                if k is None:
                    continue
                total += 1
                w = py_write(x, padding=1)
                if w[0] != "ok":
                    continue
                key = (K.__name__, w[1])
                if key in seen:
                    continue
                seen.add(key)
                blocks.append((x, k))
    return values, blocks, total


# ---------------------------------------------------------------------------------------------
# generator
# ---------------------------------------------------------------------------------------------
STRINGS = ["", "a", "ab", "Layer 1", "\u00e9\u3042", "\U0001F600x", "x\U0010FFFF", "\ud800", "\udc00\ud800", "\udbff",
           "a\x00", "\x00", "\uffff\ufffe", "z" * 300]
PAIR_STRINGS = [chr(0xD800) + chr(0xDC00), "a" + chr(0xDBFF) + chr(0xDFFF) + "b"]   # adjacent surrogate pair: excluded by StrWF (C19's law)


class Gen:
    def __init__(self, rng):
        self.rng = rng
        self.D = _D()
        self.T = T = _T()
        self.terms = sorted(self.D._TERMS)
        self.term_set = set(self.terms)
        self.all_terminology = sorted({bytes(m.value) for E in (T.Klass, T.Enum, T.Event, T.Form, T.Key, T.Type, T.Unit) for m in E})
        self.long_keys = [k for k in self.all_terminology if len(k) != 4]
        self.units = list(T.Unit)
        self.enums = list(T.Enum)
        self.scalar_makers = [self.integer, self.identifier, self.index, self.large, self.boolean, self.double, self.unit_float,
                              self.unit_floats, self.string, self.enumerated, self.enum_ref, self.class1, self.class2,
                              self.class3, self.property, self.name, self.offset, self.raw, self.alias, self.path]
        self.container_makers = [self.list_, self.reference, self.descriptor, self.global_object, self.object_array]

    # ---- leaves
    def nonterm(self, n):
        while True:
            b = bytes(self.rng.choice(b"abcdefghijklmnopqrstuvwxyzABCXYZ0189 _\x00\xff") for _ in range(n))
            if b not in self.term_set:
                return b

    def key(self, allow_zero=False):
        r = self.rng.random()
        if r < 0.35:
            return self.rng.choice(self.terms)
        if r < 0.45:
            return self.rng.choice(self.long_keys)
        if r < 0.55:
            return self.D._ImplicitKey(self.nonterm(4))
        if r < 0.65:
            return self.nonterm(4)
        n = self.rng.randrange(0 if allow_zero else 1, 13)
        return self.nonterm(n)

    def s(self):
        return self.rng.choice(STRINGS)

    def i32(self):
        return self.rng.choice([0, 1, -1, 2 ** 31 - 1, -2 ** 31, 2 ** 31 - 2, self.rng.randrange(-2 ** 31, 2 ** 31)])

    def dbl(self):
        r = self.rng.random()
        if r < 0.5:
            return self.rng.choice([0.0, -0.0, 1.5, -2.25, 1e308, 5e-324, float("inf"), float("-inf"), 72.0, 0.1])
        if r < 0.6:
            return float_of(self.rng.choice([0x7FF8000000000000, 0x7FF8000000000001, 0xFFF0000000000001, 0x7FF0000000000001]))
        if r < 0.7:
            return self.rng.randrange(-1000, 1000)          # an int where a float is expected: struct packs it
        return float_of(self.rng.randrange(2 ** 64))

    def unit(self):
        if self.rng.random() < 0.7:
            return self.rng.choice(self.units)
        return self.rng.choice(self.enums)

    def blob(self):
        n = self.rng.choice([0, 1, 2, 3, 4, 5, 7, 8, 255, 256, 1000])
        return bytes(self.rng.randrange(256) for _ in range(n))

    def integer(self): return self.D.Integer(self.i32())
    def identifier(self): return self.D.Identifier(self.i32())
    def index(self): return self.D.Index(self.i32())
    def large(self): return self.D.LargeInteger(self.rng.choice([0, -1, 2 ** 63 - 1, -2 ** 63, self.rng.randrange(-2 ** 63, 2 ** 63)]))
    def boolean(self): return self.D.Bool(self.rng.random() < 0.5)
    def double(self): return self.D.Double(self.dbl())
    def unit_float(self): return self.D.UnitFloat(unit=self.unit(), value=self.dbl())
    def unit_floats(self): return self.D.UnitFloats(unit=self.unit(), values=[self.dbl() for _ in range(self.rng.choice([0, 1, 2, 3, 9]))])
    def string(self): return self.D.String(self.s())
    def enumerated(self): return self.D.Enumerated(self.key(), self.key())
    def enum_ref(self): return self.D.EnumeratedReference(self.s(), self.key(), self.key(), self.key())
    def class1(self): return self.D.Class1(self.s(), self.key())
    def class2(self): return self.D.Class2(self.s(), self.key())
    def class3(self): return self.D.Class3(self.s(), self.key())
    def property(self): return self.D.Property(self.s(), self.key(), self.key())
    def name(self): return self.D.Name(self.s(), self.key(), self.s())
    def offset(self): return self.D.Offset(self.s(), self.key(), self.rng.choice([0, 1, 2 ** 32 - 1, self.rng.randrange(2 ** 32)]))
    def raw(self): return self.D.RawData(self.blob())
    def alias(self): return self.D.Alias(self.blob())
    def path(self): return self.D.Path(self.blob())

    # ---- containers
    def items(self, depth, n=None):
        n = self.rng.choice([0, 1, 2, 3, 5]) if n is None else n
        out, used = [], set()
        while len(out) < n:
            k = self.key()
            if bytes(k) in used:
                continue
            used.add(bytes(k))
            out.append((k, self.value(depth - 1)))
        return out

    def list_(self, depth=1): return self.D.List([self.value(depth - 1) for _ in range(self.rng.choice([0, 1, 2, 4]))])
    def reference(self, depth=1): return self.D.Reference([self.value(depth - 1) for _ in range(self.rng.choice([0, 1, 2, 4]))])
    def descriptor(self, depth=1): return self.D.Descriptor(self.items(depth), name=self.s(), classID=self.key())
    def global_object(self, depth=1): return self.D.GlobalObject(self.items(depth), name=self.s(), classID=self.key())

    def object_array(self, depth=1):
        return self.D.ObjectArray(self.items(depth), items_count=self.rng.choice([0, 1, 2 ** 32 - 1, self.rng.randrange(2 ** 32)]),
                                  name=self.s(), classID=self.key())

    def value(self, depth):
        if depth <= 0 or self.rng.random() < 0.55:
            return self.rng.choice(self.scalar_makers)()
        return self.rng.choice(self.container_makers)(depth)

    def scalar_of_every_class(self):
        return [mk() for mk in self.scalar_makers]


def boundary_values(g: Gen):
    """hand-listed boundary instances: every width at 0 / max, empty strings and lists, every terminology key,
    non-term keys of every length 0..12 (each as dict key, classID, typeID, enum), excluded points"""
    D, T = g.D, g.T
    out = []
    for v in (0, 1, -1, 2 ** 31 - 1, -2 ** 31):
        out += [D.Integer(v), D.Identifier(v), D.Index(v)]
    for v in (0, 1, -1, 2 ** 63 - 1, -2 ** 63):
        out.append(D.LargeInteger(v))
    out += [D.Bool(True), D.Bool(False)]
    for b in (0, 0x8000000000000000, 0x3FF0000000000000, 0x7FEFFFFFFFFFFFFF, 1, 0x7FF0000000000000, 0xFFF0000000000000,
              0x7FF8000000000000, 0x7FF0000000000001, 0xFFFFFFFFFFFFFFFF):
        out += [D.Double(float_of(b)), D.UnitFloat(unit=T.Unit.Pixels, value=float_of(b))]
    for u in list(T.Unit) + g.enums[:3] + g.enums[-3:]:
        out += [D.UnitFloat(unit=u, value=1.0), D.UnitFloats(unit=u, values=[]), D.UnitFloats(unit=u, values=[0.0, 3, float("nan")])]
    for s in STRINGS + PAIR_STRINGS:
        out += [D.String(s), D.Name(s, b"Lyr ", s), D.Class1(s, b"null"), D.Descriptor(name=s)]
    for v in (0, 1, 2 ** 32 - 1):
        out += [D.Offset("", b"Lyr ", v), D.ObjectArray(items_count=v)]
    for n in (0, 1, 2, 3, 4, 255, 256, 65535):
        out += [D.RawData(b"\x01" * n), D.Alias(b"\x00" * n), D.Path(b"\xff" * n)]
    out += [D.List(), D.Reference(), D.Descriptor(), D.GlobalObject(), D.ObjectArray(), D.List([D.List([D.List([D.List()])])])]
    # every terminology value as a dict key (200 per descriptor), as classID, typeID, enum
    keys = g.all_terminology
    for i in range(0, len(keys), 200):
        chunk = keys[i:i + 200]
        out.append(D.Descriptor([(k, D.Bool(j % 2 == 0)) for j, k in enumerate(chunk)], classID=chunk[0]))
    for k in g.long_keys:
        out += [D.Enumerated(k, k), D.Class2("", k), D.Descriptor([(k, D.Integer(1))], classID=k), D.Property("", k, k)]
    # non-term keys of length 0..12
    for n in range(0, 13):
        k = g.nonterm(n)
        out += [D.Enumerated(k, b"Nrml"), D.Enumerated(b"Nrml", k), D.Class3("n", k), D.Descriptor([(k, D.Integer(n))]),
                D.Descriptor(classID=k), D.EnumeratedReference("", k, k, k)]
        if n == 4:
            ik = D._ImplicitKey(k)
            out += [D.Enumerated(ik, ik), D.Descriptor([(ik, D.Integer(4))], classID=ik), D.Property("", ik, b"Nrml")]
    return out


def breaking_values(g: Gen):
    """values one field of which does not fit its on-disk width: the writer must reject (struct.error)"""
    D = g.D
    big = D.Descriptor([(b"Nm  ", D.Integer(2 ** 31))])
    return [D.Integer(2 ** 31), D.Integer(-2 ** 31 - 1), D.Identifier(2 ** 31), D.Index(-2 ** 40), D.LargeInteger(2 ** 63),
            D.LargeInteger(-2 ** 63 - 1), D.Offset("", b"Lyr ", 2 ** 32), D.Offset("", b"Lyr ", -1),
            D.ObjectArray(items_count=2 ** 32), D.ObjectArray(items_count=-1), big, D.List([D.Bool(True), D.Integer(2 ** 35)]),
            D.Reference([D.Offset("x", b"Lyr ", -5)]), D.GlobalObject([(b"abcde", D.List([D.LargeInteger(2 ** 64)]))])]


def nested(g: Gen, depth):
    D = g.D
    v = D.Integer(7)
    for i in range(depth):
        v = D.List([v]) if i % 2 == 0 else D.Descriptor([(b"Nm  ", v)])
    return v


# ---------------------------------------------------------------------------------------------
# mutation of encodings (error paths)
# ---------------------------------------------------------------------------------------------
def mutations(rng, b: bytes, n: int):
    D = _D()
    tags = [bytes(k.value) for k in D.TYPES]
    out = []
    for _ in range(n):
        r = rng.random()
        if not b:
            out.append(("empty", b))
            continue
        if r < 0.35:
            out.append(("truncate", b[: rng.randrange(0, len(b))]))
        elif r < 0.6 and len(b) >= 4:
            i = rng.randrange(0, len(b) - 3)
            w = rng.choice([b"\xff\xff\xff\xff", b"\x00\x00\x00\x00", b"\x00\x00\x00\x01", b"\x00\x00\x00\x05", b"\x7f\xff\xff\xff",
                            rng.choice(tags), b"XXXX", b"#Pxl", b"#Foo"])
            out.append(("word", b[:i] + w + b[i + 4:]))
        elif r < 0.8:
            i = rng.randrange(len(b))
            out.append(("byte", b[:i] + bytes([rng.randrange(256)]) + b[i + 1:]))
        elif r < 0.9:
            i = rng.randrange(len(b) + 1)
            out.append(("insert", b[:i] + bytes(rng.randrange(256) for _ in range(rng.choice([1, 2, 4]))) + b[i:]))
        else:
            i = rng.randrange(len(b))
            out.append(("delete", b[:i] + b[i + rng.choice([1, 2, 4]):]))
    return out


# ---------------------------------------------------------------------------------------------
# the check
# ---------------------------------------------------------------------------------------------
MODEL_CLASSES = ["Descriptor", "GlobalObject", "ObjectArray", "List", "Reference", "Property", "Class1", "Class2", "Class3",
                 "Enumerated", "EnumeratedReference", "Identifier", "Index", "Name", "Offset", "Alias", "Bool", "Double",
                 "Integer", "LargeInteger", "UnitFloat", "UnitFloats", "String", "RawData", "Path", "DescriptorBlock",
                 "DescriptorBlock2"]


def _short(s, n=600):
    return s if len(s) <= n else s[:n] + "…(%d chars)" % len(s)


def _excluded_reason(v):
    """which WF clause a Python value violates, decided on the Python side (independent of the model's WF):
    None when none does"""
    D = _D()
    import payload_oracle as po
    sink: dict = {}
    po.walk(v, sink)
    terms = D._TERMS

    def badkey(k):
        if isinstance(k, D._ImplicitKey):
            return len(k) != 4 or bytes(k) in terms
        return len(k) == 0

    def badstr(s):
        return any(0xD800 <= ord(a) < 0xDC00 and 0xDC00 <= ord(b) < 0xE000 for a, b in zip(s, s[1:]))
    for K, xs in sink.items():
        for x in xs:
            for a in ("classID", "typeID", "enum", "keyID"):
                k = getattr(x, a, None)
                if isinstance(k, (bytes, bytearray)) and not isinstance(k, enum.Enum) and badkey(k):
                    return "key-of-length-0-or-bad-implicit"
            if isinstance(x, D._DescriptorMixin):
                for k in x._items.keys():
                    if badkey(k):
                        return "key-of-length-0-or-bad-implicit"
            for a in ("name", "value"):
                s = getattr(x, a, None)
                if isinstance(s, str) and badstr(s):
                    return "adjacent-surrogate-pair"
    return None


def _has_nan(v):
    import payload_oracle as po
    sink: dict = {}
    po.walk(v, sink)
    for xs in sink.values():
        for x in xs:
            vals = getattr(x, "values", None)
            for val in ([getattr(x, "value", None)] + (list(vals) if isinstance(vals, (list, tuple)) else [])):
                if isinstance(val, float) and val != val:
                    return True
    return False


def _holds_decoded_raw(v):
    import payload_oracle as po
    sink: dict = {}
    po.walk(v, sink)
    return any(not isinstance(x.value, (bytes, bytearray)) for K, xs in sink.items() if K.__name__ in ("RawData", "Alias", "Path")
               for x in xs)


def run(ctx):
    """A change of the source is never an infrastructure error: when the harness can no longer drive the descriptor
    classes (renamed class, changed constructor, ...) the correspondence is broken, which is what gets recorded."""
    try:
        _run(ctx)
    except core.Infra:
        raise
    except Exception as e:  # noqa
        import traceback
        tb = traceback.extract_tb(e.__traceback__)
        ctx.disagree("descriptor check aborted: the harness could not drive psd/descriptor.py as modelled (%s: %s)"
                     % (type(e).__name__, str(e)[:200]),
                     {"traceback_tail": [f"{fr.filename.rsplit('/', 1)[-1]}:{fr.lineno} {fr.name}" for fr in tb[-5:]]})
        ctx.notes.append("descriptor correspondence did not complete (see the disagreement)")


def _run(ctx):
    import codec_common as cc
    t0 = time.time()
    D = _D()
    quick = ctx.quick
    rng = ctx.rng
    g = Gen(rng)
    seen_cls = collections.Counter()
    fail_cls = collections.Counter()

    # ------------------------------------------------------------------ cases
    files = cc.fixtures()
    values, blocks, total = harvest(files)
    n_distinct = sum(len(v) for v in values.values())
    ctx.hist("descriptor_harvest", "instances_in_fixtures", total)
    ctx.hist("descriptor_harvest", "distinct_values", n_distinct)
    ctx.hist("descriptor_harvest", "distinct_blocks", len(blocks))
    cases = []                                    # (origin, instance)
    if quick:
        budget = 1500
        rare = [(nm, xs) for nm, xs in values.items() if len(xs) <= 60]
        common = [(nm, xs) for nm, xs in values.items() if len(xs) > 60]
        for nm, xs in sorted(rare):
            cases += [("fixture", x) for x, _ in xs]
        share = max(1, (budget - len(cases)) // max(1, len(common)))
        for nm, xs in sorted(common):
            pick = xs if len(xs) <= share else rng.sample(xs, share)
            cases += [("fixture", x) for x, _ in pick]
    else:
        for nm, xs in sorted(values.items()):
            cases += [("fixture", x) for x, _ in xs]
    n_fixture_cases = len(cases)
    cases += [("boundary", v) for v in boundary_values(g)]
    for _ in range(12 if quick else 400):
        cases += [("generated", v) for v in g.scalar_of_every_class()]
    for i in range(300 if quick else 20000):
        mk = g.container_makers[i % len(g.container_makers)]
        cases.append(("generated", mk(1 + i % 4)))
    for dp in (5, 40, 150):
        cases.append(("nested", nested(g, dp)))
    breaks = breaking_values(g)

    # ------------------------------------------------------------------ writer: tobytes vs enc, count, WF
    live, reqs = [], []
    for origin, v in cases + [("breaking", b) for b in breaks]:
        try:
            toks = to_tokens(v)
        except NotRep as e:
            ctx.hist("descriptor_not_representable", str(e)[:60])
            continue
        w = py_write(v)
        live.append([origin, v, toks, w])
        reqs.append(("desc.enc", toks))
    enc_ans = cc.pbatch(reqs)
    wf_ans = cc.pbatch([("desc.wf", c[2]) for c in live])
    dec_reqs, dec_cases = [], []
    for c, a, wf in zip(live, enc_ans, wf_ans):
        origin, v, toks, w = c
        nm = type(v).__name__
        ctx.corr_cases += 1
        ctx.count(("desc-enc", nm, toks), nontrivial=True)
        ctx.hist("descriptor_class_x_origin", f"{nm}/{origin}")
        seen_cls[nm] += 1
        if w[0] == "ok":
            if a[0] != "ok" or a[1] != hx(w[1]):
                ctx.disagree("descriptor: tobytes() != model enc", {"class": nm, "value": _short(toks), "model": a[:1], "py": hx(w[1])[:200]})
            elif int(a[2]) != w[2]:
                ctx.disagree("descriptor: count returned by write != model encW count", {"class": nm, "value": _short(toks), "py": w[2], "model": a[2]})
            elif a[3] != "1":
                ctx.disagree("descriptor model: encW bytes != enc bytes", {"class": nm, "value": _short(toks)})
            c.append(len(wf) > 1 and wf[1] == "1")
            dec_cases.append(c)
            pre = bytes(rng.randrange(256) for _ in range(rng.choice([0, 0, 1, 3])))
            post = bytes(rng.randrange(256) for _ in range(rng.choice([0, 0, 2, 9])))
            c.append((pre, post))
            dec_reqs.append(("desc.dec", tag_hex(type(v)), hx(pre + w[1] + post), len(pre)))
        else:
            ctx.hist("descriptor_writer_rejects", f"{nm}:{w[1]}")
            if a[0] != "err" or a[1] != w[1]:
                ctx.disagree("descriptor: exception class of write != model enc", {"class": nm, "value": _short(toks), "py": w[1], "model": a[:2]})
    # ------------------------------------------------------------------ reader: frombytes vs dec; search oracle
    dec_ans = cc.pbatch(dec_reqs)
    excluded = collections.Counter()
    for c, a in zip(dec_cases, dec_ans):
        origin, v, toks, w, iswf, (pre, post) = c
        K = type(v)
        nm = K.__name__
        ctx.corr_cases += 1
        r = py_read(K, pre + w[1] + post, len(pre))
        rt = None
        if r[0] == "ok":
            try:
                rt = to_tokens(r[1])
            except NotRep as e:
                ctx.disagree("descriptor: re-read value is not representable in the model", {"class": nm, "why": str(e)})
                continue
            if a[0] != "ok" or a[1] != rt or int(a[2]) != r[2]:
                ctx.disagree("descriptor: frombytes() structure / cursor != model dec",
                             {"class": nm, "value": _short(toks), "py": _short(rt), "model": _short(a[1]) if len(a) > 1 else a,
                              "py_pos": r[2], "model_pos": a[2] if len(a) > 2 else None})
        else:
            ctx.hist("descriptor_reader_rejects_own_output", f"{nm}:{r[1]}")
            if a[0] != "err" or a[1] != r[1]:
                ctx.disagree("descriptor: exception class of read != model dec", {"class": nm, "value": _short(toks), "py": r[1], "model": a[:2]})
        # ---- the property itself on the real code (Python only): equal structure, identical re-write
        ctx.count(("desc-oracle", nm, toks), nontrivial=True)
        r0 = py_read(K, w[1]) if (pre or post) else r
        ok, obs = False, None
        if r0[0] == "ok":
            try:
                rt0 = to_tokens(r0[1])
            except NotRep:
                rt0 = None
            w2 = py_write(r0[1])
            same = rt0 == toks
            ok = same and w2[0] == "ok" and w2[1] == w[1] and r0[2] == len(w[1])
            obs = {"reread_equal": same, "rewrite_identical": w2[0] == "ok" and w2[1] == w[1], "cursor_at_end": r0[2] == len(w[1]),
                   "reread": _short(rt0 or "?")}
        else:
            obs = {"read": r0[1]}
        why = _excluded_reason(v)
        if iswf != (why is None):
            ctx.disagree("descriptor: model WF disagrees with the harness's own reading of the WF clauses",
                         {"class": nm, "value": _short(toks), "model_wf": iswf, "harness": why})
        if ok:
            ctx.hist("descriptor_oracle", "round-trips" if why is None else "excluded-by-WF-but-round-trips")
            try:
                pyeq = bool(r0[1] == v)
            except Exception:  # noqa
                pyeq = None
            ctx.hist("descriptor_python_eq_on_round_tripping_values", str(pyeq) if pyeq is not False else
                     ("False (holds a NaN)" if _has_nan(v) else
                      "False (RawData.value is a decoded EngineData object; the bare class re-reads bytes; C18)"
                      if _holds_decoded_raw(v) else "False (unexplained)"))
        elif why is not None:
            excluded[why] += 1
            ctx.hist("descriptor_oracle", "excluded-by-WF:" + why)
        else:
            fail_cls[nm] += 1
            kind = "read-raises" if r0[0] != "ok" else ("reread-differs" if not obs["reread_equal"] else "rewrite-differs")
            ctx.fail(f"C01/descriptor/{nm}/{kind}",
                     f"{nm}.frombytes(x.tobytes()) is not x / does not re-write identically ({origin} value)",
                     {"class": f"{K.__module__}.{nm}", "kwargs": {}, "bytes": hx(w[1]), "repr": _short(toks, 1500)}, obs,
                     "equal structure (token form) and identical second tobytes()")
    ctx.extra["descriptor_points_excluded_by_WF (information; format-excluded, see notes)"] = dict(excluded)

    # ------------------------------------------------------------------ error paths: mutated encodings, outcome class
    pool = [c for c in dec_cases if len(c[3][1]) <= 1500]
    rng.shuffle(pool)
    pool = pool[: (250 if quick else 8000)]
    mreqs, mexp = [], []
    for c in pool:
        K = type(c[1])
        for how, bb in mutations(rng, c[3][1], 6 if quick else 10):
            r = py_read(K, bb)
            mreqs.append(("desc.dec", tag_hex(K), hx(bb), 0))
            mexp.append((K, how, bb, r))
    for (K, how, bb, r), a in zip(mexp, cc.pbatch(mreqs)):
        ctx.corr_cases += 1
        ctx.count(("desc-mut", K.__name__, bb), nontrivial=True)
        ctx.hist("descriptor_mutation_outcome", f"{how}:{r[1] if r[0] == 'err' else 'accepted'}")
        if r[0] == "ok":
            try:
                rt = to_tokens(r[1])
            except NotRep as e:
                ctx.disagree("descriptor (mutated bytes): value read is not representable", {"class": K.__name__, "why": str(e)})
                continue
            if a[0] != "ok" or a[1] != rt or int(a[2]) != r[2]:
                ctx.disagree("descriptor (mutated bytes): frombytes() structure / cursor != model dec",
                             {"class": K.__name__, "bytes": hx(bb)[:400], "py": _short(rt), "model": _short(a[1]) if len(a) > 1 else a})
        elif a[0] != "err" or a[1] != r[1]:
            ctx.disagree("descriptor (mutated bytes): exception class of read != model dec",
                         {"class": K.__name__, "bytes": hx(bb)[:400], "py": r[1], "model": a[:2], "mutation": how})

    # ------------------------------------------------------------------ an item as a container stores it (OSType + value)
    tsel = [c for c in dec_cases if len(c[3][1]) <= 4000 and c[4]]        # well-formed values: read back as themselves
    tsel = tsel[:: max(1, len(tsel) // (200 if quick else 3000))]
    treqs, texp = [], []
    for c in tsel:
        lw = py_write(D.List([c[1]]))                 # count (4 bytes), OSType, value
        if lw[0] == "ok":
            treqs.append(("desc.decTagged", hx(lw[1]), 4))
            texp.append((c, len(lw[1])))
    for (c, end), a in zip(texp, cc.pbatch(treqs)):
        ctx.corr_cases += 1
        ctx.count(("desc-tagged", c[2]), nontrivial=True)
        if a[0] != "ok" or a[1] != c[2] or int(a[2]) != end:
            ctx.disagree("descriptor: an item written by List.write is not read back by the model's OSType dispatch",
                         {"class": type(c[1]).__name__, "value": _short(c[2]), "model": a[:1]})

    # ------------------------------------------------------------------ block wrappers
    bcases = []
    bsel = blocks if not quick else (rng.sample(blocks, 150) if len(blocks) > 150 else blocks)
    for x, k in bsel:
        bcases.append(("fixture", x, k))
    for i in range(30 if quick else 600):
        body = g.descriptor(1 + i % 3)
        if i % 2 == 0:
            x = D.DescriptorBlock(body._items, name=body.name, classID=body.classID)
            bcases.append(("generated", x, 1))
        else:
            x = D.DescriptorBlock2(body._items, name=body.name, classID=body.classID,
                                   version=rng.choice([0, 1, 2, 2 ** 32 - 1]))
            bcases.append(("generated", x, 2))
    # validators do not run on assignment: versions the reader rejects, versions that do not fit
    for ver, k in ((15, 1), (17, 1), (2 ** 32, 1), (-1, 1), (15, 2), (0, 2), (2 ** 32, 2)):
        x = D.DescriptorBlock() if k == 1 else D.DescriptorBlock2()
        if k == 1:
            x.version = ver
        else:
            x.data_version = ver
        bcases.append(("bad-version", x, k))
    breq, blive = [], []
    for origin, x, k in bcases:
        try:
            toks = block_tokens(x, k)
        except NotRep as e:
            ctx.hist("descriptor_not_representable", str(e)[:60])
            continue
        pad = rng.choice([1, 2, 4])
        w = py_write(x, padding=pad)
        blive.append((origin, x, k, toks, pad, w))
        breq.append(("desc.blockEnc", k, pad, toks))
    benc = cc.pbatch(breq)
    bwf = cc.pbatch([("desc.blockWf", c[2], c[3]) for c in blive])
    bdreq, bdlive = [], []
    for c, a, wf in zip(blive, benc, bwf):
        origin, x, k, toks, pad, w = c
        nm = "DescriptorBlock" if k == 1 else "DescriptorBlock2"
        ctx.corr_cases += 1
        ctx.count(("block-enc", k, pad, toks), nontrivial=True)
        ctx.hist("descriptor_class_x_origin", f"{nm}/{origin}")
        seen_cls[nm] += 1
        if w[0] == "ok":
            if a[0] != "ok" or a[1] != hx(w[1]) or int(a[2]) != w[2] or a[3] != "1":
                ctx.disagree("descriptor block: bytes / count of write != model", {"class": nm, "value": _short(toks), "pad": pad, "model": a[:1]})
            bdreq.append(("desc.blockDec", k, hx(w[1]), 0))
            bdlive.append((c, len(wf) > 1 and wf[1] == "1"))
        else:
            ctx.hist("descriptor_writer_rejects", f"{nm}:{w[1]}")
            if a[0] != "err" or a[1] != w[1]:
                ctx.disagree("descriptor block: exception class of write != model", {"class": nm, "py": w[1], "model": a[:2]})
    for (c, iswf), a in zip(bdlive, cc.pbatch(bdreq)):
        origin, x, k, toks, pad, w = c
        K = type(x)
        nm = "DescriptorBlock" if k == 1 else "DescriptorBlock2"
        ctx.corr_cases += 1
        r = py_read(K, w[1])
        if r[0] == "ok":
            try:
                rt = block_tokens(r[1], k)
            except NotRep as e:
                ctx.disagree("descriptor block: re-read value not representable", {"why": str(e)})
                continue
            if a[0] != "ok" or a[1] != rt or int(a[2]) != r[2]:
                ctx.disagree("descriptor block: read structure / cursor != model", {"class": nm, "value": _short(toks), "model": a[:1]})
            w2 = py_write(r[1], padding=pad)
            same = rt == toks
            ok = same and w2[0] == "ok" and w2[1] == w[1]
            obs = {"reread_equal": same, "rewrite_identical": w2[0] == "ok" and w2[1] == w[1]}
        else:
            ctx.hist("descriptor_reader_rejects_own_output", f"{nm}:{r[1]}")
            if a[0] != "err" or a[1] != r[1]:
                ctx.disagree("descriptor block: exception class of read != model", {"class": nm, "py": r[1], "model": a[:2]})
            ok, obs = False, {"read": r[1]}
        why = _excluded_reason(x)
        if origin == "bad-version":
            why = why or "version-rejected-by-validator"
        ctx.count(("block-oracle", k, toks), nontrivial=True)
        if iswf != (why is None):
            ctx.disagree("descriptor block: model WF disagrees with the harness's reading of the clauses",
                         {"class": nm, "value": _short(toks), "model_wf": iswf, "harness": why})
        if ok:
            ctx.hist("descriptor_oracle", "round-trips" if why is None else "excluded-by-WF-but-round-trips")
        elif why is not None:
            ctx.hist("descriptor_oracle", "excluded-by-WF:" + why)
        else:
            fail_cls[nm] += 1
            ctx.fail(f"C01/descriptor/{nm}/not-round-trip", f"{nm} does not survive write -> read ({origin} value)",
                     {"class": f"{K.__module__}.{K.__name__}", "kwargs": {"padding": pad}, "bytes": hx(w[1]), "repr": _short(toks, 1500)},
                     obs, "equal structure and identical second tobytes()")

    # ------------------------------------------------------------------ witnesses of Props/C01Descriptor.lean on the real code
    e = D.Enumerated(b"", b"")
    we = py_write(e)
    re_ = py_read(D.Enumerated, we[1]) if we[0] == "ok" else ("err", "write:" + we[1])
    if not (we[0] == "ok" and we[1] == b"\x00" * 8 and re_ == ("err", "IOError")):
        ctx.disagree("witness zero_length_key_not_roundtrip does not replay on the real code", {"write": we[:2], "read": re_[:2]})
    s = D.String(chr(0xD800) + chr(0xDC00))
    ws = py_write(s)
    rs = py_read(D.String, ws[1]) if ws[0] == "ok" else ("err",)
    if not (ws[0] == "ok" and ws[1] == bytes([0, 0, 0, 2, 0xD8, 0, 0xDC, 0]) and rs[0] == "ok" and rs[1].value == "\U00010000"):
        ctx.disagree("witness surrogate_pair_string_not_roundtrip does not replay on the real code", {"write": ws[:2]})

    # ------------------------------------------------------------------ bookkeeping
    cov = ctx.model_coverage if isinstance(ctx.model_coverage, dict) else {}
    opaque = cov.get("opaque: searched, not proved")
    if isinstance(opaque, dict):
        for nm in MODEL_CLASSES:
            opaque.pop(nm, None)
    none_seen = cov.get("opaque_classes_with_no_fixture_or_variant_instance")
    if isinstance(none_seen, list):
        cov["opaque_classes_with_no_fixture_or_variant_instance"] = [n for n in none_seen if n not in MODEL_CLASSES]
    cov["modelled_and_proved (descriptors: psd/descriptor.py)"] = {
        nm: {"cases": seen_cls.get(nm, 0), "failures": fail_cls.get(nm, 0)} for nm in MODEL_CLASSES}
    cov["descriptor_classes_with_no_case"] = sorted(nm for nm in MODEL_CLASSES if seen_cls.get(nm, 0) == 0)
    ctx.model_coverage = cov
    ctx.assumptions[:] = [a.replace("image-resource data, descriptors, effects", "image-resource data, effects") for a in ctx.assumptions]
    ctx.trusted_base += [
        "Model/Descriptor.lean: hand transliteration of psd/descriptor.py (25 registered classes, DescriptorBlock, DescriptorBlock2); "
        "tied by this run's correspondence check (tobytes vs enc byte for byte incl. the returned count, frombytes vs dec token for "
        "token incl. the cursor, exception classes on mutated bytes) and by the regenerated tables (TYPES, OSType, Unit, Enum, "
        "_TERMS, validator options, struct format literals)",
        "harness/desc_common.py to_tokens: conversion of the real descriptor objects to the model's token form",
    ]
    ctx.assumptions += [
        "descriptors: IEEE doubles are compared as 64-bit patterns (struct.pack('>d') is a bijection on them); a NaN survives bit "
        "for bit but Python's == is false on it, so 'equal structure' for descriptors is equality of the canonical token form "
        "(class, key bytes and storage form, code points, bit patterns), which is stronger than Python's == elsewhere "
        "(ValueElement.__eq__ ignores the unit of a UnitFloat)",
        "descriptors: CPython's recursion limit is not modelled: the model reader recurses on fuel and provably never runs out "
        "(dec_never_out_of_fuel), Python raises RecursionError for a descriptor nested several hundred levels deep; nesting depth "
        "<= 150 is exercised",
        "descriptors: the payload of RawData/Alias/Path is opaque bytes (an EngineData object placed there by TypeToolObjectSetting "
        "is what it writes; its text is C18's)",
    ]
    ctx.notes += [
        "Descriptors (psd/descriptor.py) are modelled and proved (Props/C01Descriptor.lean): descriptor_roundtrip, "
        "descriptor_item_roundtrip, descriptor_rewrite_identical, written_is_length, descriptor_enc_rejects, dec_never_out_of_fuel, "
        "dec_cursor_bounds, the block wrappers (round trip, rewrite, written count) and their composition with the skeleton's tagged "
        "block (tagged_block_descriptor(2)_payload_roundtrip: TaggedBlock.read hands the length block to kls.frombytes), "
        "ties to TYPES/OSType/Unit/Enum/validators/format literals, a decide-checked sample using all 25 classes. Inside the "
        "file-skeleton model (Model/Psd.lean) a tagged block that holds a descriptor is still an opaque payload: the descriptor "
        "theorems are about the value classes and block wrappers on their own streams; the whole-file theorem psd_roundtrip still "
        "treats the payload as bytes (what the payload object writes).",
        "Stated in DESIGN section 3, not proved for descriptors: the `sound` law (what dec returns can be written) and the `framed` "
        "law (C03's walker); the lenient reading of malformed descriptors is correspondence-only (exception classes and accepted "
        "structures on mutated encodings).",
        "Descriptor WF clauses beyond validators/widths: Key.WF (C20; a non-term key of length 0 is written as length 0 and no "
        "bytes: write succeeds, read differs/raises - format-excluded, witness zero_length_key_not_roundtrip, replayed on the real "
        "code by this run), NoPair (C19's unicode law; witness surrogate_pair_string_not_roundtrip), one occurrence per dict key "
        "(a Python dict cannot hold two equal keys). The Unit/Enum overlap clause is vacuous for the regenerated tables "
        "(unit_enum_tables).",
        "Not in the descriptor model: ColorLookup and VectorStrokeContentSetting (subclasses with their own read/write in other "
        "modules), values of unregistered classes placed inside a descriptor, negative/oversized Python ints in double fields.",
    ]
    ctx.extra["descriptor_phase_seconds"] = round(time.time() - t0, 1)
    ctx.extra["descriptor_cases"] = {"fixture_values": n_fixture_cases, "fixture_distinct_total": n_distinct,
                                     "all_cases": len(live), "blocks": len(blive), "mutations": len(mreqs)}
    ctx.rule += (
        " Descriptors: every distinct (class, bytes written) value of the 25 registered classes and of DescriptorBlock(2) reachable "
        "in the parsed fixtures (quick: all of the rare classes and a seeded sample of the others, about 1300 of %d; thorough: all), "
        "hand-listed boundary values (each width at 0/max, empty strings/lists, lone surrogates, every terminology value as a key, "
        "non-term keys of length 0..12, implicit keys), seeded generated values of every class with nesting depth <= 4, lists nested "
        "5/40/150 deep, values that do not fit a width; each is one writer case (bytes, returned count, WF) and one reader case "
        "(structure and cursor, with random bytes before and after) plus the Python-only oracle; up to 10 structural mutations "
        "(truncate, overwrite a 4-byte word with a count/OSType/unit, flip, insert, delete) of each of %d encodings are reader cases "
        "(exception class, or structure and cursor when accepted)." % (n_distinct, len(pool)))
    if ctx.tier == "thorough":
        prev = ctx.extra.get("leanchecker")
        ctx.recheck(["PsdVerif.Props.C01Descriptor"])
        mine = ctx.extra.get("leanchecker")
        if isinstance(prev, dict) and isinstance(mine, dict):
            ctx.extra["leanchecker"] = {"modules": prev.get("modules", []) + mine.get("modules", []),
                                        "ok": bool(prev.get("ok")) and bool(mine.get("ok")),
                                        "tail": (prev.get("tail", "") + mine.get("tail", ""))[-400:]}
