#!/bin/bash
# usage: harness/sweep.sh <tier> <seeds...>   — every registered check, every seed, on $PSD_REPO (default /repo); prints one line per run
tier="$1"; shift
cd "$(dirname "$0")/.."
( cd lean && lake build > /dev/null 2>&1 )
props=$(python3 -c "import json; print(' '.join(c['property_id'] for c in json.load(open('MANIFEST.json'))['checks']))")
for s in "$@"; do
  for p in $props; do
    t0=$(date +%s)
    VERIF_SEED=$s ./check $p --tier $tier > sweep.$p.$s.out 2>&1; rc=$?
    echo "$p tier=$tier seed=$s exit=$rc $(( $(date +%s) - t0 ))s $(grep -c '^KNOWN' sweep.$p.$s.out) known $(grep -E '^VIOLATION|INFRA' sweep.$p.$s.out | head -2 | tr '\n' ' ')"
  done
done
