"""C20 translator: AST of src/psd_tools/**/*.py -> the global-state footprint table.

A *cell* is a piece of process-wide mutable state:
  * a module-level name bound to a mutable object (dict/list/set literal or
    comprehension, or a call to set/dict/list/OrderedDict/defaultdict/Counter/
    deque/bytearray/array, or a registry from `new_registry`),
  * a class-level attribute bound to such an object,
  * a class attribute that some function assigns through `cls.X = …` / `Class.X = …`,
  * a memoising decorator (`functools.lru_cache` / `cache`) — its table is a cell.
For every cell the walk records whether a *function body* (code that runs after
import) mutates it (`writtenAtRuntime`) and whether a function body reads it
(`readObservably`). Import-time statements (module top level, class bodies,
decorators) are registration and do not count as run-time writes.
Also recorded: every `attr.ib(default=<mutable expression>)` (a default object
shared by all instances).
"""
from __future__ import annotations

import ast
from pathlib import Path

MUT_CALLS = {"set", "dict", "list", "OrderedDict", "defaultdict", "Counter", "deque", "bytearray", "array"}
MUTATORS = {
    "add", "append", "update", "pop", "popitem", "clear", "setdefault", "extend", "remove", "discard",
    "insert", "sort", "reverse", "move_to_end", "appendleft", "popleft", "__setitem__", "__delitem__",
    "difference_update", "intersection_update", "symmetric_difference_update",
}
MEMO = {"lru_cache", "cache", "cached"}


def call_name(node):
    f = node.func
    if isinstance(f, ast.Name):
        return f.id
    if isinstance(f, ast.Attribute):
        return f.attr
    return None


def is_mutable_expr(v) -> bool:
    if isinstance(v, (ast.Dict, ast.List, ast.Set, ast.ListComp, ast.SetComp, ast.DictComp)):
        return True
    if isinstance(v, ast.Call):
        n = call_name(v)
        if n in MUT_CALLS:
            return True
    return False


class Cell:
    def __init__(self, module, name, kind, line):
        self.module, self.name, self.kind, self.line = module, name, kind, line
        self.writers: list[str] = []
        self.readers: list[str] = []

    @property
    def key(self):
        return f"{self.module}:{self.name}"


def modname(root: Path, f: Path) -> str:
    rel = f.relative_to(root).with_suffix("")
    parts = list(rel.parts)
    if parts[-1] == "__init__":
        parts.pop()
    return ".".join(["psd_tools", *parts])


def extract(src_root: Path):
    """Returns (cells: list[Cell], attr_defaults: list[dict])."""
    files = sorted(src_root.rglob("*.py"))
    trees = {}
    for f in files:
        trees[f] = ast.parse(f.read_text())
    cells: dict[str, Cell] = {}
    # registries: module -> {register function name: cell key}
    reg_funcs: dict[str, dict[str, str]] = {}
    attr_defaults = []

    # ---- pass 1: declarations
    for f, tree in trees.items():
        mod = modname(src_root, f)

        def declare(targets, value, prefix, line, kind):
            if isinstance(value, ast.Call) and call_name(value) == "new_registry":
                for t in targets:
                    if isinstance(t, ast.Tuple) and len(t.elts) == 2 and all(isinstance(e, ast.Name) for e in t.elts):
                        c = Cell(mod, prefix + t.elts[0].id, "registry", line)
                        cells[c.key] = c
                        reg_funcs.setdefault(mod, {})[t.elts[1].id] = c.key
                return
            if not is_mutable_expr(value):
                return
            for t in targets:
                if isinstance(t, ast.Name) and not (t.id.startswith("__") and t.id.endswith("__")):
                    c = Cell(mod, prefix + t.id, kind, line)
                    cells[c.key] = c

        for node in tree.body:
            if isinstance(node, ast.Assign):
                declare(node.targets, node.value, "", node.lineno, "moduleMutable")
            elif isinstance(node, ast.AnnAssign) and node.value is not None:
                declare([node.target], node.value, "", node.lineno, "moduleMutable")
        for node in ast.walk(tree):
            if isinstance(node, ast.ClassDef):
                for st in node.body:
                    if isinstance(st, ast.Assign):
                        declare(st.targets, st.value, node.name + ".", st.lineno, "classMutable")
                    elif isinstance(st, ast.AnnAssign) and st.value is not None:
                        declare([st.target], st.value, node.name + ".", st.lineno, "classMutable")
            if isinstance(node, ast.Call) and call_name(node) in ("ib", "attrib", "field"):
                for kw in node.keywords:
                    if kw.arg == "default" and is_mutable_expr(kw.value):
                        attr_defaults.append({"module": mod, "line": node.lineno, "kind": "sharedMutable",
                                              "expr": ast.unparse(kw.value)[:60]})
            if isinstance(node, (ast.FunctionDef, ast.AsyncFunctionDef)):
                for d in node.decorator_list:
                    n = call_name(d) if isinstance(d, ast.Call) else (d.id if isinstance(d, ast.Name) else getattr(d, "attr", None))
                    if n in MEMO:
                        c = Cell(mod, f"{node.name}.<memo>", "memo", node.lineno)
                        c.writers.append(f"{mod}.{node.name}")
                        c.readers.append(f"{mod}.{node.name}")
                        cells[c.key] = c

    # names of classes per module (for Class.X access) and import maps
    class_names = {}
    for f, tree in trees.items():
        mod = modname(src_root, f)
        class_names[mod] = {n.name for n in ast.walk(tree) if isinstance(n, ast.ClassDef)}

    # ---- pass 2: uses inside function bodies
    for f, tree in trees.items():
        mod = modname(src_root, f)
        # name -> cell key visible in this module
        visible: dict[str, str] = {}
        for k, c in cells.items():
            if c.module == mod and "." not in c.name:
                visible[c.name] = k
        modalias: dict[str, str] = {}
        for node in tree.body:
            if isinstance(node, ast.ImportFrom) and node.module:
                for a in node.names:
                    k = f"{node.module}:{a.name}"
                    if k in cells:
                        visible[a.asname or a.name] = k
                    if f"{node.module}.{a.name}" in class_names or any(
                        m == f"{node.module}.{a.name}" for m in class_names
                    ):
                        modalias[a.asname or a.name] = f"{node.module}.{a.name}"
            elif isinstance(node, ast.Import):
                for a in node.names:
                    modalias[a.asname or a.name.split(".")[0]] = a.name

        def resolve(expr):
            """cell key for an expression naming a cell, or None."""
            if isinstance(expr, ast.Name):
                return visible.get(expr.id)
            if isinstance(expr, ast.Attribute):
                v = expr.value
                if isinstance(v, ast.Name):
                    if v.id in modalias:  # module.NAME
                        k = f"{modalias[v.id]}:{expr.attr}"
                        if k in cells:
                            return k
                    # Class.NAME / cls.NAME / self.NAME for class-level cells (any class of any module with that attr)
                    cands = [k for k, c in cells.items() if c.kind == "classMutable" and c.name.split(".")[-1] == expr.attr]
                    if v.id in ("cls", "self") or any(v.id in class_names[m] for m in class_names):
                        if cands:
                            same = [k for k in cands if cells[k].module == mod]
                            return (same or cands)[0]
            return None

        class V(ast.NodeVisitor):
            def __init__(self):
                self.stack = []

            def visit_FunctionDef(self, node):
                if node.name == "new_registry":
                    return
                self.stack.append(node.name)
                for st in node.body:
                    self.visit(st)
                self.stack.pop()
                # decorators and defaults run at import time: not visited as run-time code

            visit_AsyncFunctionDef = visit_FunctionDef

            def visit_Lambda(self, node):
                self.stack.append("<lambda>")
                self.generic_visit(node)
                self.stack.pop()

            def where(self):
                return f"{mod}.{'.'.join(self.stack)}"

            def visit_Call(self, node):
                if self.stack:
                    fn = node.func
                    if isinstance(fn, ast.Attribute) and fn.attr in MUTATORS:
                        k = resolve(fn.value)
                        if k:
                            cells[k].writers.append(self.where())
                    if isinstance(fn, ast.Name) and fn.id in reg_funcs.get(mod, {}):
                        cells[reg_funcs[mod][fn.id]].writers.append(self.where())
                self.generic_visit(node)

            def _target(self, t):
                if not self.stack:
                    return
                if isinstance(t, ast.Subscript):
                    k = resolve(t.value)
                    if k:
                        cells[k].writers.append(self.where())
                elif isinstance(t, ast.Attribute) and isinstance(t.value, ast.Name):
                    v = t.value.id
                    if v == "cls" or any(v in class_names[m] for m in class_names):
                        owner = v if v != "cls" else "<cls>"
                        k = f"{mod}:{owner}.{t.attr}"
                        if k not in cells:
                            cells[k] = Cell(mod, f"{owner}.{t.attr}", "classAttrAssigned", t.lineno)
                        cells[k].writers.append(self.where())
                elif isinstance(t, ast.Name) and self._globals and t.id in self._globals:
                    k = visible.get(t.id) or f"{mod}:{t.id}"
                    if k not in cells:
                        cells[k] = Cell(mod, t.id, "globalRebound", t.lineno)
                    cells[k].writers.append(self.where())
                elif isinstance(t, (ast.Tuple, ast.List)):
                    for e in t.elts:
                        self._target(e)

            _globals: set = set()

            def visit_Global(self, node):
                self._globals = set(self._globals) | set(node.names)

            def visit_Assign(self, node):
                for t in node.targets:
                    self._target(t)
                self.generic_visit(node)

            def visit_AugAssign(self, node):
                self._target(node.target)
                if self.stack and isinstance(node.target, ast.Name):
                    k = visible.get(node.target.id)
                    if k and node.target.id in self._globals:
                        cells[k].writers.append(self.where())
                self.generic_visit(node)

            def visit_Delete(self, node):
                for t in node.targets:
                    self._target(t)
                self.generic_visit(node)

            def visit_Name(self, node):
                if self.stack and isinstance(node.ctx, ast.Load):
                    k = visible.get(node.id)
                    if k:
                        cells[k].readers.append(self.where())

            def visit_Attribute(self, node):
                if self.stack and isinstance(node.ctx, ast.Load):
                    k = resolve(node)
                    if k:
                        cells[k].readers.append(self.where())
                        return
                self.generic_visit(node)

        V().visit(tree)

    # class attributes assigned at run time are read wherever that attribute name is loaded
    for k, c in cells.items():
        if c.kind in ("classAttrAssigned", "globalRebound"):
            attr = c.name.split(".")[-1]
            for f, tree in trees.items():
                for node in ast.walk(tree):
                    if isinstance(node, ast.Attribute) and node.attr == attr and isinstance(node.ctx, ast.Load):
                        c.readers.append(modname(src_root, f))
                        break
    out = sorted(cells.values(), key=lambda c: c.key)
    return out, attr_defaults


def to_lean(cells, attr_defaults) -> str:
    def b(x):
        return "true" if x else "false"

    def s(x):
        return '"' + x.replace("\\", "\\\\").replace('"', '\\"') + '"'

    lines = [
        "import PsdVerif.Model.Globals",
        "namespace PsdVerif.Generated.Globals",
        "open PsdVerif.Globals",
        "/-- module-level / class-level mutable objects of src/psd_tools with their run-time writers and readers -/",
        "def cells : List Cell := [",
    ]
    rows = []
    for c in cells:
        rows.append(
            f"  {{ name := {s(c.key)}, kind := .{c.kind}, writtenAtRuntime := {b(bool(c.writers))}, "
            f"readObservably := {b(bool(c.readers))} }}"
        )
    lines.append(",\n".join(rows))
    lines.append("]")
    lines.append("/-- `attr.ib(default=<mutable>)` occurrences (a default object shared by all instances) -/")
    lines.append("def sharedDefaults : List String := [" + ", ".join(s(f"{d['module']}:{d['line']}") for d in attr_defaults) + "]")
    lines.append("end PsdVerif.Generated.Globals")
    return "\n".join(lines) + "\n"


if __name__ == "__main__":
    import sys
    cs, ds = extract(Path(sys.argv[1]))
    for c in cs:
        print(c.key, c.kind, "W:", sorted(set(c.writers))[:3], "R:", len(set(c.readers)))
    print(ds)
