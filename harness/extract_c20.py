"""C20 translator: AST of src/psd_tools/**/*.py -> the global-state footprint tables.

Table 1, `cells`.  A *cell* is a piece of process-wide state owned by psd_tools:
  * a module-level name bound to a mutable object (dict/list/set literal or
    comprehension, or a call to set/dict/list/OrderedDict/defaultdict/Counter/
    deque/bytearray/array, or a registry from `new_registry`),
  * a class-level attribute bound to such an object,
  * ANY module-level or class-level name (whatever it is bound to: a counter, a flag, a
    cache object, a logger ...) that code inside a function or method anywhere under
    src/psd_tools assigns, augments, deletes or mutates:
      - `global X` followed by `X = ...` / `X += ...` / `del X`,
      - `module.X = ...` / `setattr(module, "X", ...)` through an imported psd_tools module,
      - `cls.X = ...` / `Class.X = ...` / `type(self).X = ...` / `self.__class__.X = ...`,
      - `X[k] = ...`, `X.attr = ...`, `X.append(...)` (any mutator) on a module-level name X
        that is not rebound locally in that function,
  * a memoising decorator (`functools.lru_cache` / `cache`) - its table is a cell,
  * a module-level or class-level name bound at import to the result of a CALL whose callee is not known to return an
    immutable object (IMMUTABLE_CTORS: loggers, compiled patterns, frozenset/tuple/str/int..., enum `auto`, TypeVar,
    struct.Struct ...): `np.random.RandomState(0)`, `random.Random()`, an instance of a class, a cache object,
    `copy.copy(x)` ... (kind `moduleObject`).  Its type is unknown, so EVERY use of the name inside a function body
    (a method call on it - drawing from a generator advances it -, passing it on, returning it) is a potential mutation
    and a read.
Aliases: inside a function a local name bound to an expression that NAMES such state (`options = _DEFAULTS`,
`t = TABLE[k]`, `o = mod.X or {}`, `a if c else b`, a parameter default `def f(o=_DEFAULTS)`) stands for it: an in-place
change through the local (`options.update(..)`, `options[k] = v`, `t.append(..)`, `o.attr = v`) is a write of the cell
(flow-insensitive: any such binding anywhere in the function counts).
For every cell the walk records whether a *function body* (code that runs after
import) mutates it (`writtenAtRuntime`) and whether a function body reads it
(`readObservably`). Import-time statements (module top level, class bodies,
decorators) are registration and do not count as run-time writes.
Also recorded: every `attr.ib(default=<mutable expression>)` (a default object
shared by all instances).

Table 2, `switches`.  Process-wide state owned by SOMEBODY ELSE (the standard library,
attrs, numpy, PIL ...) that psd_tools code flips:
  * a call `ext.path.f(...)` whose root is an imported non-psd_tools module (or a name
    imported from one) and whose last component looks like a switch (`set*`, `disable*`,
    `enable*`, `register*`, `simplefilter`, `filterwarnings`, `seterr`, `seed`, `basicConfig`,
    `setlocale`, `chdir`, `putenv` ... see SWITCH_RE / SWITCH_NAMES),
  * an assignment / augmented assignment / deletion whose target is rooted in such a module
    (`os.environ[k] = v`, `Image.MAX_IMAGE_PIXELS = None`, `decimal.getcontext().prec = 9`,
    monkey-patching `np.something = f`), `setattr(ext, ...)`,
  * a mutator call on a container of such a module (`sys.path.append`, `os.environ.update`,
    `warnings.filters.insert`).
Each site records whether it runs after import (`atRuntime`: inside a function body) and
whether it is *scoped* (the `with` item of a restoring context manager such as
`np.errstate(...)`, `warnings.catch_warnings()`, `decimal.localcontext()`,
`attr.validators.disabled()`, or a `warnings.*` call lexically inside
`with warnings.catch_warnings():`): a scoped site restores the switch before the operation
returns, so it is not a write in the before/after semantics of Model/Globals.lean.
"""
from __future__ import annotations

import ast
import re
from pathlib import Path

MUT_CALLS = {"set", "dict", "list", "OrderedDict", "defaultdict", "Counter", "deque", "bytearray", "array"}
MUTATORS = {
    "add", "append", "update", "pop", "popitem", "clear", "setdefault", "extend", "remove", "discard",
    "insert", "sort", "reverse", "move_to_end", "appendleft", "popleft", "__setitem__", "__delitem__",
    "difference_update", "intersection_update", "symmetric_difference_update",
    # objects that are not containers but carry state (caches); the level / handlers of psd_tools' OWN loggers are
    # deliberately not cells: they steer log output only, which is not part of a document's observable behaviour
    "cache_clear", "__setattr__",
}
MEMO = {"lru_cache", "cache", "cached"}
# callees (last component) whose result is immutable or carries no document-observable state
IMMUTABLE_CTORS = {
    "getLogger", "TypeVar", "ParamSpec", "NewType", "TypeAliasType", "frozenset", "tuple", "str", "bytes", "int", "float",
    "bool", "complex", "compile", "auto", "namedtuple", "NamedTuple", "Struct", "dtype", "object", "range", "slice",
    "Fraction", "Decimal", "Path", "PurePath", "PurePosixPath", "MappingProxyType", "partial", "property", "staticmethod",
    "classmethod", "cast", "Enum", "IntEnum", "Flag", "IntFlag", "unique", "field", "ib", "attrib", "new_registry",
    "float32", "float64", "uint8", "uint16", "uint32", "int8", "int16", "int32", "int64", "finfo", "iinfo", "len", "min",
    "max", "sum", "abs", "round", "ord", "chr", "repr", "format", "join", "encode", "decode", "version", "getenv",
}

# last component of a call into a foreign module that flips process-wide behaviour
SWITCH_RE = re.compile(
    r"^(set_[a-z0-9_]+|set[a-z0-9]+|seterr[a-z]*|disable[a-z_]*|enable[a-z_]*|register[a-z_]*|unregister[a-z_]*|"
    r"simplefilter|filterwarnings|resetwarnings|basicConfig|captureWarnings|seed|putenv|unsetenv|chdir|umask|"
    r"install[a-z_]*|use|addaudithook|add_type|errstate|catch_warnings|localcontext|disabled|printoptions|"
    r"set|cache_clear|_clear_cache)$"
)
NOT_SWITCH = {"setdiff1d", "setxor1d", "setdefaultencoding", "set_trace", "setup", "settings"}
SCOPED_MANAGERS = {"errstate", "catch_warnings", "localcontext", "disabled", "printoptions", "local_context"}


def call_name(node):
    f = node.func
    if isinstance(f, ast.Name):
        return f.id
    if isinstance(f, ast.Attribute):
        return f.attr
    return None


def is_mutable_expr(v) -> bool:
    if isinstance(v, (ast.Dict, ast.List, ast.Set, ast.ListComp, ast.SetComp, ast.DictComp)):
        return True
    if isinstance(v, ast.Call):
        n = call_name(v)
        if n in MUT_CALLS:
            return True
    return False


class Cell:
    def __init__(self, module, name, kind, line):
        self.module, self.name, self.kind, self.line = module, name, kind, line
        self.writers: list[str] = []
        self.readers: list[str] = []

    @property
    def key(self):
        return f"{self.module}:{self.name}"


def modname(root: Path, f: Path) -> str:
    rel = f.relative_to(root).with_suffix("")
    parts = list(rel.parts)
    if parts[-1] == "__init__":
        parts.pop()
    return ".".join(["psd_tools", *parts])


def _abs_module(mod: str, is_pkg: bool, node: ast.ImportFrom) -> str:
    """absolute dotted name of the module an ImportFrom refers to"""
    if not node.level:
        return node.module or ""
    parts = mod.split(".")
    if not is_pkg:
        parts = parts[:-1]
    if node.level > 1:
        parts = parts[: len(parts) - (node.level - 1)]
    return ".".join(parts + ([node.module] if node.module else []))


def _local_names(fn) -> set:
    """names bound locally in a function (parameters, plain assignments, loop / with / except targets,
    comprehension variables, local imports, nested defs) minus the ones it declares `global`."""
    out, glob = set(), set()
    a = fn.args
    for x in a.posonlyargs + a.args + a.kwonlyargs + ([a.vararg] if a.vararg else []) + ([a.kwarg] if a.kwarg else []):
        out.add(x.arg)

    def targets(t):
        if isinstance(t, ast.Name):
            out.add(t.id)
        elif isinstance(t, (ast.Tuple, ast.List)):
            for e in t.elts:
                targets(e)
        elif isinstance(t, ast.Starred):
            targets(t.value)

    def walk(n):
        for c in ast.iter_child_nodes(n):
            if isinstance(c, (ast.FunctionDef, ast.AsyncFunctionDef, ast.ClassDef)):
                out.add(c.name)
                continue                      # its own scope
            if isinstance(c, ast.Lambda):
                continue
            if isinstance(c, ast.Global):
                glob.update(c.names)
            elif isinstance(c, ast.Assign):
                for t in c.targets:
                    targets(t)
            elif isinstance(c, (ast.AugAssign, ast.AnnAssign)):
                targets(c.target)
            elif isinstance(c, (ast.For, ast.AsyncFor)):
                targets(c.target)
            elif isinstance(c, (ast.With, ast.AsyncWith)):
                for it in c.items:
                    if it.optional_vars is not None:
                        targets(it.optional_vars)
            elif isinstance(c, ast.ExceptHandler) and c.name:
                out.add(c.name)
            elif isinstance(c, (ast.Import, ast.ImportFrom)):
                for al in c.names:
                    out.add((al.asname or al.name).split(".")[0])
            elif isinstance(c, ast.NamedExpr):
                targets(c.target)
            elif isinstance(c, ast.comprehension):
                targets(c.target)
            walk(c)

    walk(fn)
    return (out - glob), glob


def _alias_sources(v):
    """the expressions a value may be (through `or` / `and` / conditional expressions) that name an existing object"""
    if isinstance(v, ast.BoolOp):
        return [x for e in v.values for x in _alias_sources(e)]
    if isinstance(v, ast.IfExp):
        return _alias_sources(v.body) + _alias_sources(v.orelse)
    if isinstance(v, ast.NamedExpr):
        return _alias_sources(v.value)
    if isinstance(v, (ast.Name, ast.Attribute, ast.Subscript)):
        root, parts = _chain(v)
        if root is not None and "()" not in parts:
            return [v]
    return []


def _aliases(fn) -> dict:
    """local name -> expressions it is bound to somewhere in the function (not in nested scopes) that name an
    existing object; parameter defaults included"""
    out: dict[str, list] = {}
    a = fn.args
    pos = a.posonlyargs + a.args
    for arg, d in zip(pos[len(pos) - len(a.defaults):], a.defaults):
        for src in _alias_sources(d):
            out.setdefault(arg.arg, []).append(src)
    for arg, d in zip(a.kwonlyargs, a.kw_defaults):
        if d is not None:
            for src in _alias_sources(d):
                out.setdefault(arg.arg, []).append(src)

    def walk(n):
        for c in ast.iter_child_nodes(n):
            if isinstance(c, (ast.FunctionDef, ast.AsyncFunctionDef, ast.ClassDef, ast.Lambda)):
                continue
            if isinstance(c, ast.Assign):
                for t in c.targets:
                    if isinstance(t, ast.Name):
                        for src in _alias_sources(c.value):
                            if not (isinstance(src, ast.Name) and src.id == t.id):
                                out.setdefault(t.id, []).append(src)
            elif isinstance(c, ast.AnnAssign) and c.value is not None and isinstance(c.target, ast.Name):
                for src in _alias_sources(c.value):
                    out.setdefault(c.target.id, []).append(src)
            elif isinstance(c, ast.NamedExpr) and isinstance(c.target, ast.Name):
                for src in _alias_sources(c.value):
                    out.setdefault(c.target.id, []).append(src)
            walk(c)

    walk(fn)
    return out


def _subst_root(expr, src):
    """`expr` with the Name at the root of its access path replaced by `src`"""
    if isinstance(expr, ast.Name):
        return src
    if isinstance(expr, ast.Attribute):
        return ast.copy_location(ast.Attribute(value=_subst_root(expr.value, src), attr=expr.attr, ctx=expr.ctx), expr)
    if isinstance(expr, ast.Subscript):
        return ast.copy_location(ast.Subscript(value=_subst_root(expr.value, src), slice=expr.slice, ctx=expr.ctx), expr)
    if isinstance(expr, ast.Call):
        return ast.copy_location(ast.Call(func=_subst_root(expr.func, src), args=expr.args, keywords=expr.keywords), expr)
    return expr


def _chain(expr):
    """(root Name id | None, [attribute / '[]' / '()' components]) of an access path"""
    parts = []
    while True:
        if isinstance(expr, ast.Attribute):
            parts.append(expr.attr)
            expr = expr.value
        elif isinstance(expr, ast.Subscript):
            parts.append("[]")
            expr = expr.value
        elif isinstance(expr, ast.Call):
            parts.append("()")
            expr = expr.func
        elif isinstance(expr, ast.Name):
            return expr.id, list(reversed(parts))
        else:
            return None, list(reversed(parts))


def extract(src_root: Path):
    """Returns (cells: list[Cell], attr_defaults: list[dict]); `extract_all` also returns the switch sites."""
    cells, defaults, _ = extract_all(src_root)
    return cells, defaults


def extract_all(src_root: Path):
    files = sorted(src_root.rglob("*.py"))
    trees = {}
    for f in files:
        trees[f] = ast.parse(f.read_text())
    mods = {f: modname(src_root, f) for f in files}
    all_mods = set(mods.values())
    cells: dict[str, Cell] = {}
    # registries: module -> {register function name: cell key}
    reg_funcs: dict[str, dict[str, str]] = {}
    attr_defaults = []
    # every name assigned at module level / class level (whatever its value): candidate cells, emitted only
    # when some function body writes them
    top_names: dict[str, dict[str, int]] = {}
    class_attrs: dict[str, dict[str, dict[str, int]]] = {}
    # names bound at import to the result of a call of unknown (possibly mutable) type: cells as soon as a function uses them
    obj_names: dict[str, dict[str, int]] = {}
    obj_class_attrs: dict[str, dict[str, tuple]] = {}     # module -> attribute name -> (class, line)

    # ---- pass 1: declarations
    for f, tree in trees.items():
        mod = mods[f]
        top_names[mod] = {}
        class_attrs[mod] = {}
        obj_names[mod] = {}
        obj_class_attrs[mod] = {}

        # module-level helper functions all of whose `return`s are calls of immutable constructors / constants
        # (`def compile_re(p): return re.compile(p.encode(..), re.S)`) are immutable constructors themselves
        imm_local = set()
        for node in tree.body:
            if isinstance(node, ast.FunctionDef):
                rets = [r for r in ast.walk(node) if isinstance(r, ast.Return)]
                if rets and all(r.value is None or isinstance(r.value, ast.Constant) or
                                (isinstance(r.value, ast.Call) and call_name(r.value) in IMMUTABLE_CTORS) for r in rets):
                    imm_local.add(node.name)

        def declare(targets, value, prefix, line, kind):
            if isinstance(value, ast.Call) and not is_mutable_expr(value) and call_name(value) not in IMMUTABLE_CTORS \
                    and call_name(value) is not None and not (isinstance(value.func, ast.Name) and value.func.id in imm_local):
                for t in targets:
                    if isinstance(t, ast.Name) and not (t.id.startswith("__") and t.id.endswith("__")):
                        if prefix:
                            obj_class_attrs[mod][t.id] = (prefix[:-1], line)
                        else:
                            obj_names[mod][t.id] = line
            if isinstance(value, ast.Call) and call_name(value) == "new_registry":
                for t in targets:
                    if isinstance(t, ast.Tuple) and len(t.elts) == 2 and all(isinstance(e, ast.Name) for e in t.elts):
                        c = Cell(mod, prefix + t.elts[0].id, "registry", line)
                        cells[c.key] = c
                        reg_funcs.setdefault(mod, {})[t.elts[1].id] = c.key
                return
            if not is_mutable_expr(value):
                return
            for t in targets:
                if isinstance(t, ast.Name) and not (t.id.startswith("__") and t.id.endswith("__")):
                    c = Cell(mod, prefix + t.id, kind, line)
                    cells[c.key] = c

        def names_of(t, into, line):
            if isinstance(t, ast.Name):
                into.setdefault(t.id, line)
            elif isinstance(t, (ast.Tuple, ast.List)):
                for e in t.elts:
                    names_of(e, into, line)

        def top_level(body, into):
            for node in body:
                if isinstance(node, ast.Assign):
                    for t in node.targets:
                        names_of(t, into, node.lineno)
                elif isinstance(node, (ast.AnnAssign, ast.AugAssign)):
                    names_of(node.target, into, node.lineno)
                elif isinstance(node, (ast.If, ast.Try, ast.With, ast.For, ast.While)):
                    for fld in ("body", "orelse", "finalbody"):
                        top_level(getattr(node, fld, []) or [], into)
                    for h in getattr(node, "handlers", []) or []:
                        top_level(h.body, into)

        top_level(tree.body, top_names[mod])
        for node in tree.body:
            if isinstance(node, ast.Assign):
                declare(node.targets, node.value, "", node.lineno, "moduleMutable")
            elif isinstance(node, ast.AnnAssign) and node.value is not None:
                declare([node.target], node.value, "", node.lineno, "moduleMutable")
        for node in ast.walk(tree):
            if isinstance(node, ast.ClassDef):
                top_level(node.body, class_attrs[mod].setdefault(node.name, {}))
                for st in node.body:
                    if isinstance(st, ast.Assign):
                        declare(st.targets, st.value, node.name + ".", st.lineno, "classMutable")
                    elif isinstance(st, ast.AnnAssign) and st.value is not None:
                        declare([st.target], st.value, node.name + ".", st.lineno, "classMutable")
            if isinstance(node, ast.Call) and call_name(node) in ("ib", "attrib", "field"):
                for kw in node.keywords:
                    if kw.arg == "default" and is_mutable_expr(kw.value):
                        attr_defaults.append({"module": mod, "line": node.lineno, "kind": "sharedMutable",
                                              "expr": ast.unparse(kw.value)[:60]})
            if isinstance(node, (ast.FunctionDef, ast.AsyncFunctionDef)):
                for d in node.decorator_list:
                    n = call_name(d) if isinstance(d, ast.Call) else (d.id if isinstance(d, ast.Name) else getattr(d, "attr", None))
                    if n in MEMO:
                        c = Cell(mod, f"{node.name}.<memo>", "memo", node.lineno)
                        c.writers.append(f"{mod}.{node.name}")
                        c.readers.append(f"{mod}.{node.name}")
                        cells[c.key] = c

    # names of classes per module (for Class.X access)
    class_names = {}
    for f, tree in trees.items():
        class_names[mods[f]] = {n.name for n in ast.walk(tree) if isinstance(n, ast.ClassDef)}
    any_class = set().union(*class_names.values()) if class_names else set()

    # ---- import maps (whole module, function-level imports included)
    imports = {}
    for f, tree in trees.items():
        mod = mods[f]
        is_pkg = f.name == "__init__.py"
        own_mod: dict[str, str] = {}      # alias -> psd_tools module
        own_name: dict[str, tuple] = {}   # alias -> (psd_tools module, name)
        ext: dict[str, str] = {}          # alias -> dotted name in a foreign module
        for node in ast.walk(tree):
            if isinstance(node, ast.Import):
                for a in node.names:
                    if a.name == "psd_tools" or a.name.startswith("psd_tools."):
                        if a.asname:
                            own_mod[a.asname] = a.name
                        else:
                            own_mod["psd_tools"] = "psd_tools"
                    else:
                        if a.asname:
                            ext[a.asname] = a.name
                        else:
                            ext[a.name.split(".")[0]] = a.name.split(".")[0]
            elif isinstance(node, ast.ImportFrom):
                base = _abs_module(mod, is_pkg, node)
                own = base == "psd_tools" or base.startswith("psd_tools.")
                for a in node.names:
                    alias = a.asname or a.name
                    if own:
                        if f"{base}.{a.name}" in all_mods:
                            own_mod[alias] = f"{base}.{a.name}"
                        else:
                            own_name[alias] = (base, a.name)
                    elif base != "__future__":
                        ext[alias] = f"{base}.{a.name}"
        imports[mod] = (own_mod, own_name, ext)

    def own_module_of(mod, root, parts):
        """(psd_tools module, remaining parts) when root.parts starts with a path to a psd_tools module"""
        own_mod = imports[mod][0]
        if root not in own_mod:
            return None
        cur = own_mod[root]
        rest = list(parts)
        while rest and f"{cur}.{rest[0]}" in all_mods:
            cur = f"{cur}.{rest.pop(0)}"
        return cur, rest

    def ensure(mod_of_cell, name, kind, line):
        k = f"{mod_of_cell}:{name}"
        if k not in cells:
            cells[k] = Cell(mod_of_cell, name, kind, line)
        return k

    switches = []

    # ---- pass 2: writes inside function bodies (declares the cells that only exist because they are written)
    #      and foreign switch sites (at import time and at run time)
    for f, tree in trees.items():
        mod = mods[f]
        own_mod, own_name, ext = imports[mod]

        class W(ast.NodeVisitor):
            def __init__(self):
                self.stack = []          # function names
                self.scopes = []         # (locals, globals) per function
                self.classes = []        # enclosing class names
                self.withs = []          # dotted names of the context managers we are lexically inside
                self.aliases = []        # per function: local name -> [expressions it may stand for]

            # -- scope bookkeeping
            def visit_FunctionDef(self, node):
                if node.name == "new_registry":
                    return
                for d in node.decorator_list:        # decorators and defaults run where the def statement runs
                    self.visit(d)
                for d in node.args.defaults + [x for x in node.args.kw_defaults if x is not None]:
                    self.visit(d)
                self.stack.append(node.name)
                self.scopes.append(_local_names(node))
                self.aliases.append(_aliases(node))
                for st in node.body:
                    self.visit(st)
                self.aliases.pop()
                self.scopes.pop()
                self.stack.pop()

            visit_AsyncFunctionDef = visit_FunctionDef

            def visit_Lambda(self, node):
                self.stack.append("<lambda>")
                a = node.args
                loc = {x.arg for x in a.posonlyargs + a.args + a.kwonlyargs}
                self.scopes.append((loc, set()))
                self.aliases.append({})
                self.visit(node.body)
                self.aliases.pop()
                self.scopes.pop()
                self.stack.pop()

            def alias_of(self, name):
                """expressions a local name may stand for (innermost function that binds it)"""
                for (loc, _), al in zip(reversed(self.scopes), reversed(self.aliases)):
                    if name in loc:
                        return al.get(name) or []
                return []

            def object_use(self, node, m2, n2, line):
                k = ensure(m2, n2, "moduleObject", line)
                cells[k].writers.append(self.where())

            def visit_Name(self, node):
                # any use, inside a function, of a module-level object of unknown type
                if self.stack and isinstance(node.ctx, ast.Load) and not self.is_local(node.id):
                    if node.id in obj_names[mod]:
                        self.object_use(node, mod, node.id, obj_names[mod][node.id])
                    elif node.id in own_name and own_name[node.id][1] in obj_names.get(own_name[node.id][0], {}):
                        m2, n2 = own_name[node.id]
                        self.object_use(node, m2, n2, obj_names[m2][n2])

            def visit_Attribute(self, node):
                if self.stack and isinstance(node.ctx, ast.Load):
                    root, parts = _chain(node)
                    if root is not None and "()" not in parts and "[]" not in parts:
                        om = own_module_of(mod, root, parts) if not self.is_local(root) else None
                        if om is not None and len(om[1]) >= 1 and om[1][0] in obj_names.get(om[0], {}):
                            self.object_use(node, om[0], om[1][0], obj_names[om[0]][om[1][0]])
                    v = node.value
                    if isinstance(v, ast.Name) and (v.id in ("self", "cls") or v.id in any_class):
                        for m2 in ([mod] + [m for m in obj_class_attrs if m != mod]):
                            if node.attr in obj_class_attrs.get(m2, {}):
                                cname, line = obj_class_attrs[m2][node.attr]
                                if v.id in ("self", "cls") and m2 != mod:
                                    continue
                                self.object_use(node, m2, f"{cname}.{node.attr}", line)
                                break
                self.generic_visit(node)

            def visit_ClassDef(self, node):
                self.classes.append(node.name)
                self.generic_visit(node)
                self.classes.pop()

            def where(self):
                return f"{mod}.{'.'.join(self.stack)}" if self.stack else f"{mod}.<import>"

            def is_local(self, name):
                # a name bound in ANY enclosing function scope hides the module-level one
                return any(name in loc for loc, _ in self.scopes)

            def is_global_decl(self, name):
                return bool(self.scopes) and name in self.scopes[-1][1]

            # -- classification of one access path
            def foreign(self, root, parts):
                """dotted name in a foreign module, or None"""
                if root is None or self.is_local(root) or root not in ext:
                    return None
                return ".".join([ext[root]] + [p for p in parts])

            def site(self, node, dotted, how, scoped=False):
                scoped = scoped or any(w.split(".")[0] == dotted.split(".")[0] and w.endswith("catch_warnings")
                                       for w in self.withs)
                switches.append({"module": mod, "line": node.lineno, "callee": dotted, "how": how,
                                 "where": self.where(), "atRuntime": bool(self.stack), "scoped": bool(scoped)})

            def write_path(self, node, target, how, depth=0):
                """`target` is stored to / deleted / mutated in place"""
                root, parts = _chain(target)
                if root is None:
                    return
                if self.stack and depth < 3 and root not in ("self", "cls") and self.is_local(root) and \
                        (parts or how == "mutate"):
                    # a local name standing for module- / class-level state: the change goes through to what it names
                    srcs = self.alias_of(root)
                    for src in srcs:
                        self.write_path(node, _subst_root(target, src), how, depth + 1)
                    if srcs:
                        return
                fd = self.foreign(root, parts)
                if fd is not None and parts:
                    self.site(node, fd.replace(".()", "()").replace(".[]", "[]"), how)
                    return
                if not self.stack:
                    return               # import-time code of psd_tools itself is registration
                # psd_tools module attribute: module.X = ...
                om = own_module_of(mod, root, parts) if not self.is_local(root) else None
                if om is not None:
                    m2, rest = om
                    if rest and rest[0] not in ("[]", "()"):
                        kind = "globalRebound" if len(rest) == 1 and how == "assign" else "moduleMutable"
                        if rest[0] in class_names.get(m2, ()) and len(rest) >= 2 and rest[1] not in ("[]", "()"):
                            k = ensure(m2, f"{rest[0]}.{rest[1]}", "classAttrAssigned", node.lineno)
                        else:
                            k = ensure(m2, rest[0], kind, node.lineno)
                        cells[k].writers.append(self.where())
                    return
                # class attribute: cls.X / Class.X / type(self).X / self.__class__.X
                owner = None
                if root == "cls" and parts and parts[0] not in ("[]", "()"):
                    owner, attr, deeper = (self.classes[-1] if self.classes else "<cls>"), parts[0], parts[1:]
                elif root in any_class and not self.is_local(root) and parts and parts[0] not in ("[]", "()"):
                    owner, attr, deeper = root, parts[0], parts[1:]
                elif root in own_name and own_name[root][1] in any_class and parts and parts[0] not in ("[]", "()"):
                    owner, attr, deeper = own_name[root][1], parts[0], parts[1:]
                elif root == "self" and len(parts) >= 2 and parts[0] == "__class__" and parts[1] not in ("[]", "()"):
                    owner, attr, deeper = (self.classes[-1] if self.classes else "<cls>"), parts[1], parts[2:]
                elif root == "type" and len(parts) >= 2 and parts[0] == "()" and parts[1] not in ("[]", "()"):
                    owner, attr, deeper = (self.classes[-1] if self.classes else "<cls>"), parts[1], parts[2:]
                elif root == "self" and parts and parts[0] not in ("[]", "()", "__class__") and \
                        (len(parts) > 1 or how != "assign"):
                    # in-place mutation THROUGH an instance of an object that lives on the class
                    # (`self.X[k] = v`, `self.X.append(v)`); `self.X = v` makes an instance attribute instead
                    a0 = parts[0]
                    cands = [k for k, c in cells.items() if c.kind == "classMutable" and c.name.split(".")[-1] == a0]
                    if cands:
                        same = [k for k in cands if cells[k].module == mod]
                        cells[(same or cands)[0]].writers.append(self.where())
                    return
                if owner is not None:
                    # an existing class-level mutable of that name (any class of this module first)
                    cands = [k for k, c in cells.items() if c.kind == "classMutable" and c.name.split(".")[-1] == attr]
                    same = [k for k in cands if cells[k].module == mod and cells[k].name == f"{owner}.{attr}"] or \
                           [k for k in cands if cells[k].module == mod]
                    if (same or cands) and (deeper or how != "assign"):
                        k = (same or cands)[0]
                    else:
                        owner_mod = mod
                        if root in own_name:
                            owner_mod = own_name[root][0]
                        k = ensure(owner_mod, f"{owner}.{attr}", "classAttrAssigned", node.lineno)
                    cells[k].writers.append(self.where())
                    return
                # module-level name of this module (or imported from another psd_tools module)
                if self.is_local(root):
                    return
                if not parts and how != "mutate":
                    # plain rebinding needs `global`
                    if self.is_global_decl(root):
                        k = ensure(mod, root, "globalRebound", node.lineno)
                        cells[k].writers.append(self.where())
                    return
                if root in top_names[mod]:
                    k = f"{mod}:{root}"
                    if k not in cells:
                        k = ensure(mod, root, "moduleMutable", top_names[mod][root])
                    cells[k].writers.append(self.where())
                elif root in own_name:
                    m2, n2 = own_name[root]
                    if n2 in top_names.get(m2, {}):
                        k = ensure(m2, n2, "moduleMutable", top_names[m2][n2])
                        cells[k].writers.append(self.where())

            # -- statements
            def _targets(self, node, t, how="assign"):
                if isinstance(t, (ast.Tuple, ast.List)):
                    for e in t.elts:
                        self._targets(node, e, how)
                elif isinstance(t, ast.Starred):
                    self._targets(node, t.value, how)
                else:
                    self.write_path(node, t, how)

            def visit_Assign(self, node):
                for t in node.targets:
                    self._targets(node, t)
                self.generic_visit(node)

            def visit_AnnAssign(self, node):
                if node.value is not None:
                    self._targets(node, node.target)
                self.generic_visit(node)

            def visit_AugAssign(self, node):
                self._targets(node, node.target, "augment")
                self.generic_visit(node)

            def visit_Delete(self, node):
                for t in node.targets:
                    self._targets(node, t, "delete")
                self.generic_visit(node)

            def visit_With(self, node):
                pushed = 0
                for it in node.items:
                    ce = it.context_expr
                    if isinstance(ce, ast.Call):
                        root, parts = _chain(ce.func)
                        fd = self.foreign(root, parts)
                        if fd is not None and fd.split(".")[-1] in SCOPED_MANAGERS:
                            self.site(ce, fd, "with", scoped=True)
                            self.withs.append(fd)
                            pushed += 1
                            for a in list(ce.args) + [k.value for k in ce.keywords]:
                                self.visit(a)
                            if it.optional_vars is not None:
                                self.visit(it.optional_vars)
                            continue
                    self.visit(it)
                for st in node.body:
                    self.visit(st)
                for _ in range(pushed):
                    self.withs.pop()

            visit_AsyncWith = visit_With

            def visit_Call(self, node):
                fn = node.func
                root, parts = _chain(fn)
                fd = self.foreign(root, parts)
                if fd is not None and parts:
                    last = parts[-1]
                    if last in MUTATORS and len(parts) >= 2 and "()" not in parts:
                        self.site(node, fd.replace(".[]", "[]"), "mutate")
                    elif SWITCH_RE.match(last) and last not in NOT_SWITCH and "()" not in parts[:-1] or \
                            (last in ("setattr", "delattr")):
                        self.site(node, fd.replace(".()", "()").replace(".[]", "[]"), "call")
                elif isinstance(fn, ast.Name) and fn.id in ("setattr", "delattr") and node.args:
                    # setattr(<module or class>, "X", v)
                    tgt = node.args[0]
                    name = node.args[1].value if len(node.args) > 1 and isinstance(node.args[1], ast.Constant) else "<dynamic>"
                    r2, p2 = _chain(tgt)
                    fd2 = self.foreign(r2, p2)
                    if fd2 is not None:
                        self.site(node, f"{fd2}.{name}", "setattr")
                    elif self.stack:
                        fake = ast.Attribute(value=tgt, attr=str(name), ctx=ast.Store())
                        ast.copy_location(fake, node)
                        if not (isinstance(tgt, ast.Name) and (tgt.id == "self" or self.is_local(tgt.id)) and tgt.id != "cls"):
                            self.write_path(node, fake, "assign")
                elif fd is not None and not parts and SWITCH_RE.match(ext[root].split(".")[-1]) and \
                        ext[root].split(".")[-1] not in NOT_SWITCH:
                    # `from numpy import seterr; seterr(...)`
                    self.site(node, ext[root], "call")
                if self.stack and isinstance(fn, ast.Attribute) and fn.attr in MUTATORS and fd is None:
                    self.write_path(node, fn.value, "mutate")
                if self.stack and isinstance(fn, ast.Name) and fn.id in reg_funcs.get(mod, {}) and not self.is_local(fn.id):
                    cells[reg_funcs[mod][fn.id]].writers.append(self.where())
                self.generic_visit(node)

        W().visit(tree)

    # a mutator call on a plain module-level name that was never declared mutable and is never otherwise written is
    # kept (it IS a write); but calls like `logger.update`-style false friends do not exist in MUTATORS.

    # ---- pass 3: reads inside function bodies
    for f, tree in trees.items():
        mod = mods[f]
        own_mod, own_name, ext = imports[mod]
        visible: dict[str, str] = {}
        for k, c in cells.items():
            if c.module == mod and "." not in c.name:
                visible[c.name] = k
        for alias, (m2, n2) in own_name.items():
            k = f"{m2}:{n2}"
            if k in cells:
                visible[alias] = k

        def resolve(expr, is_local):
            """cell key for an expression naming a cell, or None."""
            if isinstance(expr, ast.Name):
                return None if is_local(expr.id) else visible.get(expr.id)
            if isinstance(expr, ast.Attribute):
                root, parts = _chain(expr)
                if root is None or "()" in parts or "[]" in parts:
                    return None
                if not is_local(root):
                    om = own_module_of(mod, root, parts)
                    if om is not None:
                        m2, rest = om
                        if len(rest) == 1 and f"{m2}:{rest[0]}" in cells:
                            return f"{m2}:{rest[0]}"
                        if len(rest) == 2 and f"{m2}:{rest[0]}.{rest[1]}" in cells:
                            return f"{m2}:{rest[0]}.{rest[1]}"
                        return None
                v = expr.value
                if isinstance(v, ast.Name):
                    # Class.NAME / cls.NAME / self.NAME for class-level cells (any class of any module with that attr)
                    cands = [k for k, c in cells.items()
                             if (c.kind in ("classMutable", "classAttrAssigned") or (c.kind == "moduleObject" and "." in c.name))
                             and c.name.split(".")[-1] == expr.attr]
                    if v.id in ("cls", "self") or v.id in any_class:
                        if cands:
                            same = [k for k in cands if cells[k].module == mod]
                            return (same or cands)[0]
            return None

        class R(ast.NodeVisitor):
            def __init__(self):
                self.stack = []
                self.scopes = []

            def visit_FunctionDef(self, node):
                if node.name == "new_registry":
                    return
                self.stack.append(node.name)
                # a parameter default naming a cell is handed to every call that omits the argument: a read by the function
                for d in node.args.defaults + [x for x in node.args.kw_defaults if x is not None]:
                    for src in _alias_sources(d):
                        k = resolve(src, lambda n: False) if isinstance(src, (ast.Name, ast.Attribute)) else None
                        if k:
                            cells[k].readers.append(self.where())
                self.scopes.append(_local_names(node))
                for st in node.body:
                    self.visit(st)
                self.scopes.pop()
                self.stack.pop()

            visit_AsyncFunctionDef = visit_FunctionDef

            def visit_Lambda(self, node):
                self.stack.append("<lambda>")
                a = node.args
                self.scopes.append(({x.arg for x in a.posonlyargs + a.args + a.kwonlyargs}, set()))
                self.generic_visit(node)
                self.scopes.pop()
                self.stack.pop()

            def where(self):
                return f"{mod}.{'.'.join(self.stack)}"

            def is_local(self, name):
                return any(name in loc for loc, _ in self.scopes)

            def visit_Name(self, node):
                if self.stack and isinstance(node.ctx, ast.Load):
                    k = resolve(node, self.is_local)
                    if k:
                        cells[k].readers.append(self.where())

            def visit_AugAssign(self, node):
                # `X += 1` reads X as well
                if self.stack and isinstance(node.target, ast.Name):
                    k = resolve(node.target, self.is_local)
                    if k:
                        cells[k].readers.append(self.where())
                self.generic_visit(node)

            def visit_Attribute(self, node):
                if self.stack and isinstance(node.ctx, ast.Load):
                    k = resolve(node, self.is_local)
                    if k:
                        cells[k].readers.append(self.where())
                        return
                self.generic_visit(node)

        R().visit(tree)

    # class attributes assigned at run time are read wherever that attribute name is loaded
    for k, c in cells.items():
        if c.kind in ("classAttrAssigned",):
            attr = c.name.split(".")[-1]
            for f, tree in trees.items():
                for node in ast.walk(tree):
                    if isinstance(node, ast.Attribute) and node.attr == attr and isinstance(node.ctx, ast.Load):
                        c.readers.append(mods[f])
                        break
    out = sorted(cells.values(), key=lambda c: c.key)
    switches.sort(key=lambda s: (s["module"], s["line"], s["callee"]))
    return out, attr_defaults, switches


def _b(x):
    return "true" if x else "false"


def _s(x):
    return '"' + x.replace("\\", "\\\\").replace('"', '\\"') + '"'


def to_lean(cells, attr_defaults) -> str:
    lines = [
        "import PsdVerif.Model.Globals",
        "namespace PsdVerif.Generated.Globals",
        "open PsdVerif.Globals",
        "/-- module-level / class-level state of src/psd_tools with its run-time writers and readers -/",
        "def cells : List Cell := [",
    ]
    rows = []
    for c in cells:
        rows.append(
            f"  {{ name := {_s(c.key)}, kind := .{c.kind}, writtenAtRuntime := {_b(bool(c.writers))}, "
            f"readObservably := {_b(bool(c.readers))} }}"
        )
    lines.append(",\n".join(rows))
    lines.append("]")
    lines.append("/-- `attr.ib(default=<mutable>)` occurrences (a default object shared by all instances) -/")
    lines.append("def sharedDefaults : List String := [" + ", ".join(_s(f"{d['module']}:{d['line']}") for d in attr_defaults) + "]")
    lines.append("end PsdVerif.Generated.Globals")
    return "\n".join(lines) + "\n"


def switches_to_lean(switches) -> str:
    lines = [
        "import PsdVerif.Model.Switches",
        "namespace PsdVerif.Generated.Switches",
        "open PsdVerif.Switches",
        "/-- every place where src/psd_tools flips process-wide state that belongs to another module "
        "(stdlib, attrs, numpy, PIL ...) -/",
        "def sites : List Site := [",
    ]
    rows = []
    for s in switches:
        rows.append(
            f"  {{ site := {_s('%s:%d' % (s['module'], s['line']))}, callee := {_s(s['callee'])}, "
            f"atRuntime := {_b(s['atRuntime'])}, restored := {_b(s['scoped'])} }}"
        )
    lines.append(",\n".join(rows))
    lines.append("]")
    lines.append("end PsdVerif.Generated.Switches")
    return "\n".join(lines) + "\n"


if __name__ == "__main__":
    import sys
    cs, ds, sw = extract_all(Path(sys.argv[1]))
    for c in cs:
        print(c.key, c.kind, "W:", sorted(set(c.writers))[:3], "R:", len(set(c.readers)))
    print(ds)
    for s in sw:
        print("SWITCH", s)
