"""C12: regenerate lean/PsdVerif/Generated/Blend.lean from the working tree.

* `blendModes`            every member name of `constants.BlendMode` (live enum, definition order)
* `blendFuncModeKeys`     `BLEND_FUNC` entries keyed by a BlendMode: (member name, function __name__)
* `blendFuncOtherKeys`    the remaining (descriptor) keys: (repr of the key, function __name__)
* `nonSeparableK`         for each `@non_separable(...)`-decorated function the `k` it is wrapped with
                          (AST: decorator argument, else the default of `non_separable`)
* `numericConstants`      per function of blend.py the sorted distinct numeric literals (AST), as
                          decimal strings -- the eps / threshold / luminosity weights the model hard-codes
"""
from __future__ import annotations

import ast
import importlib

from core import REPO, Infra
from extract import lean_str

BLEND_PY = REPO / "src" / "psd_tools" / "composite" / "blend.py"


def _lean_pairs(ps):
    return "[" + ", ".join(f"({lean_str(a)}, {lean_str(b)})" for a, b in ps) + "]"


def _lean_strs(xs):
    return "[" + ", ".join(lean_str(x) for x in xs) + "]"


def _num(v):
    if isinstance(v, bool):
        return None
    if isinstance(v, int):
        return str(v)
    if isinstance(v, float):
        return repr(v)
    return None


def gen_blend(ctx):
    from psd_tools.constants import BlendMode
    blend = importlib.import_module("psd_tools.composite.blend")
    if not str(blend.__file__).startswith(str(REPO)):
        raise Infra(f"psd_tools.composite.blend imported from {blend.__file__}, not from {REPO}")
    modes = [m.name for m in BlendMode]
    mode_keys, other_keys = [], []
    for k, f in blend.BLEND_FUNC.items():
        name = getattr(f, "__name__", repr(f))
        if isinstance(k, BlendMode):
            mode_keys.append((k.name, name))
        else:
            other_keys.append((f"{type(k).__name__}.{k.name}" if hasattr(k, "name") else repr(k), name))

    tree = ast.parse(BLEND_PY.read_text())
    default_k = None
    ns_k = []
    consts = []
    for node in tree.body:
        if not isinstance(node, ast.FunctionDef):
            continue
        if node.name == "non_separable":
            d = node.args.defaults
            default_k = d[0].value if d and isinstance(d[0], ast.Constant) else None
        nums = set()
        for sub in ast.walk(node):
            if isinstance(sub, ast.Constant):
                s = _num(sub.value)
                if s is not None:
                    nums.add(s)
        consts.append((node.name, sorted(nums, key=lambda s: (float(s), s))))
    for node in tree.body:
        if not isinstance(node, ast.FunctionDef):
            continue
        for dec in node.decorator_list:
            if isinstance(dec, ast.Call) and getattr(dec.func, "id", None) == "non_separable":
                if dec.args and isinstance(dec.args[0], ast.Constant):
                    k = dec.args[0].value
                elif dec.keywords and isinstance(dec.keywords[0].value, ast.Constant):
                    k = dec.keywords[0].value.value
                else:
                    k = default_k
                ns_k.append((node.name, str(k)))
    if default_k is None:
        raise Infra("blend.py: default of non_separable(k=...) not found")

    src = (
        "namespace PsdVerif.Generated.Blend\n"
        "/-- member names of `constants.BlendMode` -/\n"
        f"def blendModes : List String := {_lean_strs(modes)}\n"
        "/-- `BLEND_FUNC` entries keyed by a `BlendMode`: (member, function name) -/\n"
        f"def blendFuncModeKeys : List (String × String) := {_lean_pairs(mode_keys)}\n"
        "/-- the other (descriptor) keys of `BLEND_FUNC` -/\n"
        f"def blendFuncOtherKeys : List (String × String) := {_lean_pairs(other_keys)}\n"
        "/-- `k` of the `non_separable(k)` wrapper per decorated function -/\n"
        f"def nonSeparableK : List (String × String) := {_lean_pairs(ns_k)}\n"
        "/-- numeric literals per function of blend.py -/\n"
        "def numericConstants : List (String × List String) := ["
        + ", ".join(f"({lean_str(n)}, {_lean_strs(c)})" for n, c in consts)
        + "]\n"
        "end PsdVerif.Generated.Blend\n"
    )
    ctx.write_generated("Blend", src)
    return {"blendModes": modes, "blendFuncModeKeys": mode_keys, "blendFuncOtherKeys": other_keys,
            "nonSeparableK": ns_k, "numericConstants": consts}
