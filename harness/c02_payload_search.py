"""C02 on the payload layer: correspondence and search on accepted NON-writer-produced encodings of every payload class.

Called from harness/c02_payload.py (`run(ctx)`, `replay(ctx, data)`).

For every payload class that has a `Spec` (payload_common unit2..unit6, payload3_common unit7..unit10, plus the descriptor
blocks as tagged-block payloads):

* candidates: (a) the ORIGINAL payload bytes of the fixtures (documents parsed with the payloads kept raw: document-level and
  layer-level tagged blocks, also inside Lr16 / Lr32 / Layr, and image resources; the payload files of the repo's own tests),
  (b) mutants at the field offsets of a base encoding (the real reader is traced with the recording BytesIO of
  lenient_common): per `read_fmt` item sign bit / all ones / zero / one / signed max (2 and 0xFF for `?`; 1.0, inf, -1.5 for
  floats), the pad bytes of a format set, trailing bytes, a truncation at every field boundary, every other member of an attrs
  `in_` validator, 0..8 on version-like first fields, descriptor keys re-encoded (explicit length, terminology terms of
  another length), random field values. Bases are the fixture originals and - for classes that never are a block of their
  own, or that no fixture holds - `tobytes()` of harvested / generated objects (mutation base only).
* correspondence: model `dec` vs real read (tokens, cursor, exception class), model `enc` of the decoded value vs real
  `tobytes`, model `dec` of those bytes vs the real re-read -> `ctx.disagree`.
* search: the three clauses of C02 on the real code only - standalone, inside TaggedBlock / ImageResource, inside a whole
  document (`lenient_common.resave_oracle`) -> `ctx.fail("C02/payload/<Class>/<clause>/<mechanism>", ...)`.

Every class is one job of a process pool; a job runs the real code, the model driver and the document oracle for its class.
All randomness derives from one draw of ctx.rng (one seed per job). The model side is bounded per job by a byte budget
(deterministic) and by a wall-time valve (histogram `c02p_other`: what was skipped, if anything).
"""
from __future__ import annotations

import collections
import contextlib
import hashlib
import importlib
import io
import json
import os
import random
import re
import signal
import struct
import sys
import time
import warnings
from concurrent.futures import ProcessPoolExecutor

import core
import lenient_common as lc
import skel
from core import hx, unhx, err_class

WORKERS = min(14, os.cpu_count() or 4)
CORR_MAX_BYTES = 60_000             # the model works on List UInt8
CLAUSES = ("write-raises", "reread-raises", "reread-differs", "second-save-differs")
_RealBytesIO = lc._RealBytesIO

# per-tier limits (quick: the whole module in well under a minute; thorough: a few minutes)
LIMITS = {
    True: dict(orig=24, wbase=6, harvest=400, fields=48, second_pool=24, second=6, rand=24, cuts=40, blocks=6, keys=3, key_terms=2,
               base_bytes=4000, bases=8, byte_budget=6000, corr_bytes=20_000_000, model_secs=24, few_bases=4, gen_bases=4, norm_docs=6, cont_bytes=20_000, fail_docs=12),
    False: dict(orig=80, wbase=12, harvest=4000, fields=120, second_pool=60, second=12, rand=60, cuts=100, blocks=16, keys=8, key_terms=4,
                base_bytes=20_000, bases=14, byte_budget=30_000, corr_bytes=120_000_000, model_secs=150, few_bases=8, gen_bases=8, norm_docs=24, cont_bytes=300_000, fail_docs=60),
}


# ---------------------------------------------------------------------------------------------
# the spec table
# ---------------------------------------------------------------------------------------------
def _mods():
    import payload_common as pc
    import payload3_common as p3
    return pc, p3


def _extra_specs():
    """descriptor blocks as tagged-block payloads (driver classes `DescriptorBlock` / `DescriptorBlock2` of pl3)"""
    pc, p3 = _mods()
    import desc_common as dc

    class DescBlockSpec(p3.Spec3):
        name = "DescriptorBlock"
        unit = 11
        offsets = (0, 3, 4, 8, 12, 16)

        def K(self):
            return dc._D().DescriptorBlock

        def tokens(self, x):
            return " ".join(pc.desc_block_tokens(x))

        def contexts(self):
            return [(1, 4, None), (1, 1, None)]

        def instances(self, rng, quick):
            return [("generated", pc.gen_desc_block(rng)) for _ in range(4 if quick else 30)]

    class DescBlock2Spec(DescBlockSpec):
        name = "DescriptorBlock2"

        def K(self):
            return dc._D().DescriptorBlock2

        def tokens(self, x):
            return " ".join(pc.desc_block2_tokens(x))

        def instances(self, rng, quick):
            return [("generated", pc.gen_desc_block(rng, 2)) for _ in range(4 if quick else 30)]

    return [DescBlockSpec(), DescBlock2Spec()]


def all_specs(rng, quick):
    """[(unit label, spec)] in a fixed order (the same list is rebuilt inside every worker process)"""
    pc, p3 = _mods()
    out = []
    for label, specs in (("unit2", pc.unit2_specs()), ("unit3", pc.unit3_specs(rng, quick)), ("unit4", pc.unit4_specs()),
                         ("unit5", pc.unit5_specs()), ("unit6", pc.unit6_specs()), ("unit7", p3.unit7_specs()),
                         ("unit8", p3.unit8_specs()), ("unit9", p3.unit9_specs()), ("unit10", p3.unit10_specs()),
                         ("unit11", _extra_specs())):
        out += [(label, s) for s in specs]
    return out


def _cmd(spec):
    _, p3 = _mods()
    return "pl3" if isinstance(spec, p3.Spec3) else "pl"


def _pyname(spec):
    try:
        return spec.K().__name__
    except Exception:  # noqa
        return spec.pyname or spec.name


def _registries():
    import psd_tools.psd.image_resources as IR
    import psd_tools.psd.tagged_blocks as TB
    return dict(TB.TYPES), dict(IR.TYPES)


def _kv(k):
    return getattr(k, "value", k)


# payload files of the repo's own tests: real class name -> files under tests/
DAT = {
    "Slices": ["image_resources/slices_0.dat"],
    "Curves": ["tagged_blocks/curves.dat", "tagged_blocks/curves_2.dat"],
    "FilterEffects": ["tagged_blocks/filter_effects_1.dat", "tagged_blocks/filter_effects_2.dat"],
    "DescriptorBlock": ["tagged_blocks/cinf.dat", "tagged_blocks/extn_1.dat", "tagged_blocks/PxSc_1.dat", "tagged_blocks/frgb_1.dat"],
    "PixelSourceData2": ["tagged_blocks/pixel_source_data2.dat"],
    "MetadataSettings": ["tagged_blocks/shmd_1.dat", "tagged_blocks/shmd_2.dat"],
    "Pattern": ["tagged_blocks/Patt_1.dat", "tagged_blocks/Patt_2.dat"],
}


# ---------------------------------------------------------------------------------------------
# (a) original payload bytes of the fixtures
# ---------------------------------------------------------------------------------------------
def _fx_payloads(path):
    """one fixture -> [("tb"|"ir", key, bytes, version, where)] (payloads kept raw)"""
    import logging
    logging.disable(logging.CRITICAL)
    warnings.simplefilter("ignore")
    import codec_common as cc
    from psd_tools.psd.layer_and_mask import LayerInfoBlock
    out = []
    try:
        data = open(path, "rb").read()
        with skel.raw_payloads():
            r = cc.read_doc(data)
            if r[0] != "ok":
                return path, out
            doc = r[1]
            v = doc.header.version

            def blocks(tbs, where, depth=0):
                if not tbs:
                    return
                for k in tbs:
                    t = tbs[k]
                    d = t.data
                    if not isinstance(d, (bytes, bytearray)):
                        continue
                    key = bytes(_kv(t.key))
                    out.append(("tb", key, bytes(d), v, where))
                    if key in (b"Lr16", b"Lr32", b"Layr") and depth == 0:
                        try:
                            li = LayerInfoBlock.frombytes(bytes(d), version=v)
                            for rec in li.layer_records or []:
                                blocks(rec.tagged_blocks, "layer-in-" + key.decode(), depth + 1)
                        except Exception:  # noqa
                            pass

            lam = doc.layer_and_mask_information
            blocks(lam.tagged_blocks, "document")
            if lam.layer_info is not None:
                for rec in lam.layer_info.layer_records or []:
                    blocks(rec.tagged_blocks, "layer")
            for k in doc.image_resources:
                res = doc.image_resources[k]
                if isinstance(res.data, (bytes, bytearray)):
                    out.append(("ir", int(_kv(res.key)), bytes(res.data), v, "resource"))
    except Exception:  # noqa
        pass
    return path, out


def collect(ctx, specs, pool):
    """-> per spec index: dict(originals=[(bytes, note)], bases=[(bytes, note)], tb_keys=[...], ir_ids=[...])"""
    import codec_common as cc
    import payload_common as pc
    quick = ctx.quick
    rng = random.Random(ctx.rng.getrandbits(64))          # one draw from the run's generator; everything below derives from it
    tbt, irt = _registries()
    max_bytes = 300_000 if quick else None
    files = cc.fixtures(max_bytes)
    root = core.REPO / "tests" / "psd_files"
    by_key = collections.defaultdict(dict)            # ("tb", key) -> {bytes: note}
    n_payloads = 0
    for path, items in pool.map(_fx_payloads, [str(f) for f in files], chunksize=4):
        name = os.path.relpath(path, root)
        for kind, key, data, v, where in items:
            n_payloads += 1
            d = by_key[(kind, key)]
            if data not in d:
                d[data] = "fixture %s (version %d, %s %s)" % (name, v, where, key.decode("latin1") if kind == "tb" else key)
    # typed harvest for the classes that never are a block of their own
    sink = pc.harvest_by_class(files)
    per = []
    cap_orig, cap_base = LIMITS[quick]["orig"], LIMITS[quick]["wbase"]
    for idx, (label, spec) in enumerate(specs):
        K = spec.K()
        nm = K.__name__
        tb_keys = [bytes(_kv(k)) for k, Kl in tbt.items() if Kl is K]
        ir_ids = [int(_kv(k)) for k, Kl in irt.items() if Kl is K]
        if spec.name == "DescriptorResource":
            tb_keys = []
        elif spec.name == "DescriptorBlock":
            ir_ids = []
        origs = {}
        seen_keys = []
        for kind, keys in (("tb", tb_keys), ("ir", ir_ids)):
            for key in keys:
                for data, note in by_key.get((kind, key), {}).items():
                    if data not in origs:
                        origs[data] = note
                    if (kind, key) not in seen_keys:
                        seen_keys.append((kind, key))
        for rel in DAT.get(nm, []) if spec.name != "DescriptorResource" else []:
            try:
                data = (core.REPO / "tests" / rel).read_bytes()
                origs.setdefault(data, "tests/" + rel)
            except OSError:
                pass
        olist = sorted(origs.items(), key=lambda kv: (len(kv[0]), kv[0]))
        if len(olist) > cap_orig:
            # the payload files of the tests, one original per distinct length (smallest lengths first), then a random fill
            keep = [kv for kv in olist if kv[1].startswith("tests/")][:cap_orig // 3]
            seen_len = set()
            for kv in olist:
                if len(keep) >= (2 * cap_orig) // 3:
                    break
                if len(kv[0]) not in seen_len and kv not in keep:
                    seen_len.add(len(kv[0]))
                    keep.append(kv)
            rest = [kv for kv in olist if kv not in keep]
            keep += rng.sample(rest, min(len(rest), cap_orig - len(keep)))
            olist = sorted(keep, key=lambda kv: (len(kv[0]), kv[0]))
        # keys the class was seen under come first (realistic containers)
        tb_keys = [k for kd, k in seen_keys if kd == "tb"] + [k for k in sorted(tb_keys) if ("tb", k) not in seen_keys]
        ir_ids = [k for kd, k in seen_keys if kd == "ir"] + [k for k in sorted(ir_ids) if ("ir", k) not in seen_keys]
        # writer-produced bases (mutation base only): harvested objects of the class, then generated instances
        bases = {}
        ctxs = spec.contexts()
        wkw = spec.write_kw(ctxs[0][0], ctxs[0][1])
        objs = [x for x in sink.get(K, []) if type(x) is K]
        for x in objs[:LIMITS[quick]["harvest"]]:
            try:
                b = x.tobytes(**wkw)
            except Exception:  # noqa
                continue
            if b not in origs and b not in bases and len(b) <= LIMITS[quick]["base_bytes"]:
                bases[b] = "harvested %s object, tobytes(%s)" % (nm, json.dumps(wkw, sort_keys=True))
        blist = sorted(bases.items(), key=lambda kv: (len(kv[0]), kv[0]))
        if len(blist) > cap_base:
            blist = blist[:cap_base // 2] + rng.sample(blist[cap_base // 2:], cap_base - cap_base // 2)
        per.append(dict(index=idx, unit=label, name=spec.name, pyname=nm, module=K.__module__, originals=olist, bases=blist,
                        tb_keys=tb_keys[:2], ir_ids=ir_ids[:2], registered=bool(tb_keys or ir_ids),
                        n_fixture_distinct=len(origs), n_harvested=len(objs)))
    for p_ in per:
        p_["seed"] = rng.getrandbits(48)
    return per, {"fixtures_parsed_raw": len(files), "payload_blocks_seen": n_payloads,
                 "distinct_(key,bytes)": sum(len(d) for d in by_key.values())}


# ---------------------------------------------------------------------------------------------
# (b) field offsets from a traced read, and the mutants
# ---------------------------------------------------------------------------------------------
class Item:
    __slots__ = ("off", "size", "code", "label", "site")

    def __init__(self, off, size, code, label, site):
        self.off, self.size, self.code, self.label, self.site = off, size, code, label, site


def trace_read(K, data: bytes, read_kw):
    """the real reader on `data` under the recording BytesIO -> (raw fields, accepted?)"""
    t = lc._Trace(data)
    lc._cur = t
    io.BytesIO = lc._TBytesIO
    struct.unpack = lc._t_unpack
    ok = False
    try:
        try:
            with warnings.catch_warnings():
                warnings.simplefilter("ignore")
                fp = lc._TBytesIO(data)
                K.read(fp, **read_kw)
                ok = True
        except RecursionError:
            ok = False
        except Exception:  # noqa
            ok = False
    finally:
        io.BytesIO = _RealBytesIO
        struct.unpack = lc._real_unpack
        lc._cur = None
    return t.fields, ok


def field_map(fields, n):
    """raw fields -> (items: one per read_fmt item, pads: [(off, size)] pad bytes of formats, keys: [(length item, key off,
    key size, explicit)], bounds: sorted field boundaries, short_key: a key read cut short by the end of the stream)"""
    items, pads, raws, seen = [], [], [], set()
    short_key = False
    for f in fields:
        if f.fmt is None:
            if f.site and "read_length_and_key" in f.site and f.got < f.size:
                short_key = True
            if f.got == f.size and f.size > 0:
                raws.append(f)
            continue
        if f.got != f.size or f.size == 0 or (f.off, f.size) in seen:
            continue
        seen.add((f.off, f.size))
        parts = lc.split_fmt(f)
        if len(parts) == 1 and parts[0] is f:
            continue                                   # a format this module does not understand: left alone
        covered = 0
        for g in parts:
            items.append(Item(g.off, g.size, g.code, f.label, g.site))
            covered += g.size
        if covered < f.size:
            # pad bytes: what the items do not cover
            used = set()
            for g in parts:
                used.update(range(g.off, g.off + g.size))
            run = None
            for o in range(f.off, f.off + f.size + 1):
                if o < f.off + f.size and o not in used:
                    run = o if run is None else run
                elif run is not None:
                    pads.append((run, o - run))
                    run = None
    keys = []
    raw_at = {}
    for f in raws:
        raw_at.setdefault(f.off, f)
    for it in items:
        if it.code == "I" and it.site and "read_length_and_key" in it.site:
            g = raw_at.get(it.off + 4)
            if g is not None and g.site and "read_length_and_key" in g.site:
                keys.append((it, g.off, g.size))
    b = {0, n}
    for it in items:
        b.add(it.off)
        b.add(it.off + it.size)
    for f in raws:
        b.add(f.off)
        b.add(min(n, f.off + f.got))
    return items, pads, keys, sorted(x for x in b if 0 <= x <= n), short_key


def length_blocks(fields, items, data):
    """length-prefixed regions seen in the trace: an integer item whose value is the size of the raw read that follows it
    -> [(item, body start, body end)]"""
    raw_at = {}
    for f in fields:
        if f.fmt is None and f.got == f.size and f.size > 0:
            raw_at.setdefault(f.off, f)
    out = []
    for it in items:
        if it.code in _INT_CODES and it.size >= 1:
            v = int.from_bytes(data[it.off:it.off + it.size], "big")
            g = raw_at.get(it.off + it.size)
            if g is not None and v > 0 and g.size == v and not (it.site and "read_length_and_key" in it.site):
                out.append((it, it.off + it.size, it.off + it.size + v))
    return out


def last_raw(fields, n):
    """the raw (lenient) read that ends the stream, if the last thing the reader consumed is one"""
    got = [f for f in fields if f.got > 0]
    if got and got[-1].fmt is None and got[-1].off + got[-1].got == n and got[-1].got >= 2:
        return got[-1]
    return None


_VALIDATORS = None


def validator_table():
    """class name -> [options list] of every attrs `in_` validator of the classes of psd_tools.psd"""
    global _VALIDATORS
    if _VALIDATORS is not None:
        return _VALIDATORS
    import attr
    import pkgutil
    import psd_tools.psd as P
    tab = collections.defaultdict(list)
    for m in pkgutil.iter_modules(P.__path__):
        try:
            mod = importlib.import_module("psd_tools.psd." + m.name)
        except Exception:  # noqa
            continue
        for obj in vars(mod).values():
            if isinstance(obj, type) and attr.has(obj) and obj.__module__ == mod.__name__:
                for a in attr.fields(obj):
                    vs = [a.validator] + list(getattr(a.validator, "_validators", ()) or ())
                    for v in vs:
                        opts = getattr(v, "options", None)
                        if opts:
                            try:
                                tab[obj.__name__].append((a.name, sorted(opts, key=repr)))
                            except Exception:  # noqa
                                pass
    _VALIDATORS = dict(tab)
    return _VALIDATORS


_INT_CODES = "bBhHiIlLqQ"
_TERMS = None


def _terms():
    global _TERMS
    if _TERMS is None:
        _TERMS = lc.terminology_terms()
    return _TERMS


def _thin(xs, cap, key=None):
    """at most cap elements: one per distinct key first (reader statements), then first / last / evenly spread"""
    if len(xs) <= cap:
        return list(xs)
    pick, seen = [], set()
    if key is not None:
        for i, x in enumerate(xs):
            k = key(x)
            if k not in seen and len(pick) < cap * 2 // 3:
                seen.add(k)
                pick.append(i)
    rest = [i for i in range(len(xs)) if i not in set(pick)]
    room = cap - len(pick)
    if room > 0 and rest:
        idx = sorted({0, len(rest) - 1} | {(k * (len(rest) - 1)) // max(1, room - 1) for k in range(room)})[:room]
        pick += [rest[i] for i in idx]
    return [xs[i] for i in sorted(set(pick))]


def _accepts(K, b, read_kw):
    try:
        with warnings.catch_warnings():
            warnings.simplefilter("ignore")
            K.frombytes(b, **read_kw)
        return True
    except Exception:  # noqa
        return False


def mutants(K, base: bytes, read_kw, rng, quick, base_note, structural_only=False):
    """-> ([(kind, bytes, note)], number of field offsets): deterministic variants first, then the random ones.
    A mutant that switches a branch of the reader (another 4-character code, another member of a validator, another
    version) and is still accepted is mutated once more, structurally (lengths, trailing bytes, truncations)."""
    fields, _ok = trace_read(K, base, read_kw)
    items, pads, keys, bounds, _short = field_map(fields, len(base))
    out = []
    if structural_only:
        _structural(K, base, fields, items, bounds, quick, base_note, out)
        return [("2:" + k, b, n) for k, b, n in out], len(items)

    def put(kind, off, raw, how):
        if base[off:off + len(raw)] != raw:
            out.append((kind, base[:off] + raw + base[off + len(raw):], "%s; field at %d (%s, %s) := %s" % (base_note, off, how[0], how[1], raw.hex())))

    L = LIMITS[quick]
    cap_f = L["fields"]
    chosen = _thin(items, cap_f, key=lambda it: (it.site or "").split("#")[0] + "#" + (it.code or ""))
    vt = validator_table()
    for it in chosen:
        n, code = it.size, it.code
        desc = (code, it.label)
        if code in ("s", "p", "c"):
            # text-like fields are left alone, but the members of a validator are tried and a 4-character code is
            # replaced by one no table knows (the `else` branch of the readers that dispatch on a key)
            cur = base[it.off:it.off + n]
            if n == 4 and code == "s":
                put("fourcc", it.off, b"Zq1x", desc)
            for fname, opts in vt.get(it.label, []):
                if cur in opts:
                    for o in opts:
                        if isinstance(o, (bytes, bytearray)) and len(o) == n and bytes(o) != cur:
                            put("option", it.off, bytes(o), desc)
            continue
        put("sign", it.off, b"\x80" + b"\0" * (n - 1), desc)
        put("ones", it.off, b"\xff" * n, desc)
        put("zero", it.off, b"\0" * n, desc)
        put("one", it.off, b"\0" * (n - 1) + b"\1", desc)
        if n > 1:
            put("smax", it.off, b"\x7f" + b"\xff" * (n - 1), desc)
        if code == "?":
            put("bool2", it.off, b"\x02", desc)
        if code in ("f", "d"):
            for nm, h in lc._FLOAT_PATS[n]:
                put(nm, it.off, bytes.fromhex(h), desc)
        if code in _INT_CODES:
            cur = int.from_bytes(base[it.off:it.off + n], "big")
            for fname, opts in vt.get(it.label, []):
                ints = [o for o in opts if isinstance(o, int) and not isinstance(o, bool)]
                if cur in ints:
                    for o in ints:
                        if o != cur and 0 <= o < 256 ** n:
                            put("option", it.off, o.to_bytes(n, "big"), desc)
    # version-like: the first field of the payload and of every nested reader (first occurrence of each class)
    firsts, seen_lab = [], set()
    for it in items:
        if it.label not in seen_lab:
            seen_lab.add(it.label)
            firsts.append(it)
    for it in firsts[:6]:
        if it.code in _INT_CODES and it.size in (2, 4):
            for v in range(9):
                put("ver", it.off, v.to_bytes(it.size, "big"), (it.code, it.label))
    if pads:
        b = bytearray(base)
        for o, n in pads:
            b[o:o + n] = b"\xff" * n
        out.append(("pad", bytes(b), "%s; %d pad bytes of the formats set to ff" % (base_note, sum(n for _, n in pads))))
    # second generation: structural mutants of the accepted branch-switching mutants
    second = [m for m in out if m[0] in ("fourcc", "option", "ver")]
    second = [m for m in _thin(second, L["second_pool"], key=lambda m: m[0]) if _accepts(K, m[1], read_kw)][:L["second"]]
    _structural(K, base, fields, items, bounds, quick, base_note, out)
    for kind, mb, mnote in second:
        try:
            out += mutants(K, mb, read_kw, rng, quick, mnote, structural_only=True)[0]
        except Exception:  # noqa
            pass
    _descriptor_keys(base, keys, rng, quick, base_note, out)
    # random field values
    nums = [it for it in items if it.code not in ("s", "p", "c")]
    for _ in range(L["rand"] if nums else 0):
        it = rng.choice(nums)
        m = 256 ** it.size
        v = int.from_bytes(base[it.off:it.off + it.size], "big")
        nv = rng.choice([rng.randrange(m), (v + 1) % m, (v - 1) % m, v ^ (1 << rng.randrange(8 * it.size)), rng.randrange(17) % m,
                         (v * 2) % m, v // 2])
        put("rand", it.off, nv.to_bytes(it.size, "big"), (it.code, it.label))
    return out, len(items)


def _structural(K, base, fields, items, bounds, quick, base_note, out):
    """trailing bytes, truncations, length blocks grown / shrunk"""
    for tail, how in ((b"\0", "1 zero byte"), (b"\0\0", "2 zero bytes"), (b"\0\0\0", "3 zero bytes"), (b"\0\0\0\0", "4 zero bytes"),
                      (b"\xff", "one ff byte")):
        out.append(("trail", base + tail, "%s; %s appended" % (base_note, how)))
    cuts = [c for c in bounds if c < len(base)]
    for c in _thin(cuts, LIMITS[quick]["cuts"]):
        out.append(("trunc", base[:c], "%s; truncated at field boundary %d" % (base_note, c)))
    lr = last_raw(fields, len(base))
    if lr is not None:
        for k in (1, 2, 3):
            if lr.got - k >= 0 and len(base) - k > lr.off:
                out.append(("trunc-in-last", base[:len(base) - k], "%s; %d bytes cut from the read that ends the stream (%s)" % (base_note, k, lr.site)))
    # length blocks grown / shrunk by a few bytes, the enclosing lengths kept valid
    blocks = length_blocks(fields, items, base)
    for (lit, b0, b1) in _thin(blocks, LIMITS[quick]["blocks"], key=lambda x: x[0].site):
        for k in (1, 3, -1):
            if b1 - b0 + k < 0:
                continue
            nb = bytearray(base)
            ok_ = True
            for (oit, o0, o1) in blocks:
                if oit is lit or (o0 <= lit.off and b1 <= o1):
                    v = int.from_bytes(base[oit.off:oit.off + oit.size], "big") + k
                    if not 0 <= v < 256 ** oit.size:
                        ok_ = False
                        break
                    nb[oit.off:oit.off + oit.size] = v.to_bytes(oit.size, "big")
            if not ok_:
                continue
            nb = bytes(nb)
            nb = nb[:b1] + b"\0" * k + nb[b1:] if k > 0 else nb[:b1 + k] + nb[b1:]
            out.append(("len%+d" % k, nb, "%s; length block at %d (%s) %s by %d bytes, enclosing lengths fixed up" % (
                base_note, lit.off, lit.site, "grown" if k > 0 else "shrunk", abs(k))))


def _descriptor_keys(base, keys, rng, quick, base_note, out):
    """descriptor keys: the same key stored the other way, terminology terms of another length"""
    if keys:
        terms = _terms()
        odd = sorted(t for n, ts in terms.items() if n != 4 for t in ts)
        for (lit, koff, ksize) in _thin(keys, LIMITS[quick]["keys"]):
            ln = int.from_bytes(base[lit.off:lit.off + 4], "big")
            key = base[koff:koff + ksize]
            if ln == 0:
                out.append(("key-explicit", base[:lit.off] + (4).to_bytes(4, "big") + base[koff:],
                            "%s; implicit key %r at %d stored with its length" % (base_note, key, koff)))
            elif ln == 4:
                out.append(("key-implicit", base[:lit.off] + (0).to_bytes(4, "big") + base[koff:],
                            "%s; explicit key %r at %d stored with length 0" % (base_note, key, koff)))
            pick = []
            if odd:
                pick = [odd[0], odd[-1], min(odd, key=len), max(odd, key=len)] + [rng.choice(odd) for _ in range(LIMITS[quick]["key_terms"])]
            seen_t = set()
            for t in pick:
                if t in seen_t or t == key:
                    continue
                seen_t.add(t)
                out.append(("key-term", base[:lit.off] + len(t).to_bytes(4, "big") + t + base[koff + ksize:],
                            "%s; key %r at %d replaced by the %d-byte terminology term %r (explicit length)" % (base_note, key, koff, len(t), t)))


# ---------------------------------------------------------------------------------------------
# the three clauses on the real code
# ---------------------------------------------------------------------------------------------
def _has_nan(x, depth=0, seen=None):
    import attr
    if seen is None:
        seen = set()
    if isinstance(x, float):
        return x != x
    if depth > 40 or id(x) in seen or isinstance(x, (bytes, str, int, type(None))):
        return False
    seen.add(id(x))
    if attr.has(type(x)):
        return any(_has_nan(getattr(x, f.name), depth + 1, seen) for f in attr.fields(type(x)))
    if isinstance(x, (list, tuple)):
        return any(_has_nan(v, depth + 1, seen) for v in x)
    if hasattr(x, "keys") and hasattr(x, "__getitem__"):
        try:
            return any(_has_nan(x[k], depth + 1, seen) for k in x.keys())
        except Exception:  # noqa
            return False
    return False


def _norm_path(p):
    p = re.sub(r"\[\]", "", p)
    p = re.sub(r"\[[^\]]*\]", "[k]", p)
    p = re.sub(r"^x\.?", "", p)
    return p or "value"


def clauses(read, write, b):
    """read: bytes -> object (raises = rejected), write: object -> bytes.
    -> dict(acc, err | x, w1, fail=(clause, mechanism, detail) | None, y, ...)"""
    res = {"acc": False, "fail": None}
    with warnings.catch_warnings():
        warnings.simplefilter("ignore")
        try:
            x, tell = read(b)
        except RecursionError:
            res["err"] = "RecursionError"
            return res
        except Exception as e:  # noqa
            res["err"] = err_class(e)
            return res
        res.update(acc=True, x=x, tell=tell)
        try:
            w1 = write(x)
        except Exception as e:  # noqa
            res["w1err"] = err_class(e)
            res["fail"] = ("write-raises", "%s@%s" % (err_class(e), lc._where(e)), "%s: %s" % (type(e).__name__, str(e)[:160]))
            return res
        res["w1"] = w1
        try:
            y, tell2 = read(w1)
        except Exception as e:  # noqa
            res["r2err"] = err_class(e)
            res["fail"] = ("reread-raises", "%s@%s" % (err_class(e), lc._where(e)), "%s: %s" % (type(e).__name__, str(e)[:160]))
            return res
        res.update(y=y, tell2=tell2)
        diffs: list = []
        lc._eq(x, y, "x", diffs)
        if not diffs:
            try:
                same = bool(x == y)
            except Exception:  # noqa
                same = True
            if not same and not _has_nan(x):
                diffs = ["x:python-eq"]
        try:
            w2 = write(y)
        except Exception as e:  # noqa
            w2 = None
            w2err = "%s@%s" % (err_class(e), lc._where(e))
        if diffs:
            res["fail"] = ("reread-differs", _norm_path(diffs[0]), {"differs_at": diffs[:3], "second_save_identical": w2 == w1})
        elif w2 is None:
            res["fail"] = ("second-save-differs", "raises:" + w2err, "the second save raises")
        elif w2 != w1:
            k = next((i for i, (p, q) in enumerate(zip(w1, w2)) if p != q), min(len(w1), len(w2)))
            res["fail"] = ("second-save-differs", "bytes-only", {"first_diff_at": k, "len1": len(w1), "len2": len(w2)})
    return res


def rw_standalone(K, rkw, wkw):
    def read(b):
        with _RealBytesIO(b) as fp:
            x = K.read(fp, **rkw)
            return x, fp.tell()

    def write(x):
        return x.tobytes(**wkw)
    return read, write


def tagged_block_bytes(key: bytes, b: bytes, version: int, padding: int) -> bytes:
    from psd_tools.psd.tagged_blocks import TaggedBlock
    from psd_tools.constants import Tag
    try:
        big = version == 2 and Tag(key) in TaggedBlock._BIG_KEYS
    except ValueError:
        big = False
    out = b"8BIM" + key + struct.pack(">Q" if big else ">I", len(b)) + b
    return out + b"\0" * ((-len(b)) % padding)


def image_resource_bytes(rid: int, b: bytes) -> bytes:
    return b"8BIM" + struct.pack(">H", rid) + b"\0\0" + struct.pack(">I", len(b)) + b + b"\0" * (len(b) % 2)


def rw_tagged(version, padding):
    from psd_tools.psd.tagged_blocks import TaggedBlock

    def read(b):
        with _RealBytesIO(b) as fp:
            x = TaggedBlock.read(fp, version, padding)
            if x is None:
                raise ValueError("TaggedBlock.read returned None")
            return x, fp.tell()

    def write(x):
        with _RealBytesIO() as fp:
            x.write(fp, version, padding)
            return fp.getvalue()
    return read, write


def rw_resource():
    from psd_tools.psd.image_resources import ImageResource

    def read(b):
        with _RealBytesIO(b) as fp:
            x = ImageResource.read(fp)
            return x, fp.tell()

    def write(x):
        return x.tobytes()
    return read, write


_BASE_DOC = None


def base_document():
    """a small synthetic document (one layer), parsed back with raw payloads"""
    global _BASE_DOC
    if _BASE_DOC is None:
        import docbuild
        recs, chans = docbuild.build([{"t": "leaf", "keys": [], "name": "L"}])
        doc = docbuild.make_psd(recs, chans)
        with _RealBytesIO() as f:
            doc.write(f)
            _BASE_DOC = f.getvalue()
    return _BASE_DOC


def document_with(kind, key, b: bytes, where="layer"):
    """the base document with one more raw payload: a layer-level / document-level tagged block or an image resource"""
    from psd_tools.psd import PSD
    from psd_tools.constants import Tag
    from psd_tools.psd.tagged_blocks import TaggedBlock, TaggedBlocks
    from psd_tools.psd.image_resources import ImageResource
    with skel.raw_payloads(), warnings.catch_warnings():
        warnings.simplefilter("ignore")
        doc = PSD.frombytes(base_document())
        if kind == "tb":
            try:
                k = Tag(key)
            except ValueError:
                k = key
            blk = TaggedBlock(key=k, data=bytes(b))
            lam = doc.layer_and_mask_information
            if where == "document":
                if lam.global_layer_mask_info is None:          # the blocks follow the global mask info: it has to be there
                    from psd_tools.psd.layer_and_mask import GlobalLayerMaskInfo
                    lam.global_layer_mask_info = GlobalLayerMaskInfo()
                if lam.tagged_blocks is None:
                    lam.tagged_blocks = TaggedBlocks()
                lam.tagged_blocks[k] = blk
            else:
                rec = lam.layer_info.layer_records[0]
                rec.tagged_blocks[k] = blk
        else:
            doc.image_resources[key] = ImageResource(key=key, data=bytes(b))
        with _RealBytesIO() as f:
            doc.write(f)
            return f.getvalue()


_DOC_STAGE = {"write-raises": "write-raises", "reread-raises": "reread-raises", "reread-differs": "reread-differs",
              "second-save-differs": "second-save-differs", "rewrite-raises": "second-save-differs", "written-count": "second-save-differs"}


# ---------------------------------------------------------------------------------------------
# one class = one job
# ---------------------------------------------------------------------------------------------
class _Timeout(Exception):
    pass


def _alarm(signum, frame):
    raise _Timeout()


_SPECS = {}


def _specs_for(quick):
    if quick not in _SPECS:
        _SPECS[quick] = all_specs(random.Random("c02payload-specs"), quick)
    return _SPECS[quick]


def _digest(*parts):
    h = hashlib.sha1()
    for p in parts:
        h.update(p if isinstance(p, bytes) else str(p).encode())
        h.update(b"\0")
    return h.digest()[:8]


def _mk_input(job, b, rkw, wkw, context, note, file=None):
    inp = {"payload_class": "%s.%s" % (job["module"], job["pyname"]), "payload": hx(b), "read_kw": rkw, "write_kw": wkw,
           "context": context, "note": note}
    if file is not None:
        inp["file"] = hx(file)
    return inp


def _jsonable(d):
    try:
        json.dumps(d)
        return d
    except TypeError:
        return json.loads(json.dumps(d, default=str))


def work_class(job):
    """everything for one class: candidates, the real code, the model, the containers, whole documents"""
    import logging
    logging.disable(logging.CRITICAL)
    warnings.simplefilter("ignore")
    t0 = time.time()
    quick = job["quick"]
    label, spec = _specs_for(quick)[job["index"]]
    pc, p3 = _mods()
    K = spec.K()
    nm, cls = spec.name, job["pyname"]
    rng = random.Random(job["seed"])
    L = LIMITS[quick]
    NotRep = (pc.NotRep, skel.NotSkeleton)
    out = {"index": job["index"], "name": nm, "pyname": cls, "hist": collections.Counter(), "digests": [], "disagree": [], "n_disagree": 0,
           "fails": [], "evals": 0, "corr": 0, "accepted": 0, "rejected": 0, "candidates": 0,
           "doc_evals": 0, "container_evals": 0, "notes": [], "fields": 0}
    H = out["hist"]

    def disagree(what, case):
        out["n_disagree"] += 1
        if len(out["disagree"]) < 25:
            out["disagree"].append((what, _jsonable(case)))

    ctxs = list(spec.contexts())
    if quick and len(ctxs) > 3:
        ctxs = ctxs[:3]
    rkw0 = spec.read_kw(ctxs[0][0], ctxs[0][2])

    # ---------------------------------------------------------------- candidates
    cands = []                                              # (kind, bytes, note)
    seen = set()

    def add(kind, b, note):
        if b in seen:
            return
        seen.add(b)
        cands.append((kind, b, note))

    for b, note in job["originals"]:
        add("original", b, note)
    bases = [(b, note) for b, note in job["originals"] if len(b) <= L["base_bytes"]]
    cap_b = L["bases"]
    if len(bases) > cap_b:
        # the originals that exercise the most reader statements (and ways to end the stream), smallest first; then a random pair
        cover, chosen, covered = [], [], set()
        for b, note in bases:
            try:
                fs, _ = trace_read(K, b, rkw0)
                got = [f for f in fs if f.got > 0]
                st = {f.site for f in got}
                if got:
                    st.add(("ends with", got[-1].site))
            except Exception:  # noqa
                st = set()
            cover.append(st)
        for i in range(len(bases)):
            if len(chosen) >= cap_b - 2:
                break
            if cover[i] - covered:
                chosen.append(i)
                covered |= cover[i]
        rest = [i for i in range(len(bases)) if i not in set(chosen)]
        while len(chosen) < cap_b - 2 and rest:
            chosen.append(rest.pop(0))
        chosen += rng.sample(rest, min(2, len(rest)))
        bases = [bases[i] for i in sorted(chosen)]

    def budgeted(lst, budget):
        # byte budget of the tier: the big classes keep the bases chosen first
        keep, total = [], 0
        for b, note in lst:
            if len(keep) >= 2 and total + len(b) > budget:
                continue
            keep.append((b, note))
            total += len(b)
        return keep
    bases = budgeted(bases, L["byte_budget"])
    wbases = list(job["bases"])
    if len(bases) + len(wbases) < L["few_bases"]:
        # nothing (or little) in the fixtures: generated instances as mutation bases
        try:
            inst = [x for o, x in spec.instances(random.Random(job["seed"] + 1), quick) if o in ("generated", "boundary")]
        except Exception:  # noqa
            inst = []
        wkw0 = spec.write_kw(ctxs[0][0], ctxs[0][1])
        gen = {}
        for x in inst:
            try:
                b = x.tobytes(**wkw0)
            except Exception:  # noqa
                continue
            if len(b) <= 4000 and b not in gen:
                gen[b] = "generated %s instance, tobytes(%s)" % (cls, json.dumps(wkw0, sort_keys=True))
        glist = sorted(gen.items(), key=lambda kv: (-min(len(kv[0]), 64), len(kv[0]), kv[0]))     # not the empty ones first
        wbases += glist[:L["gen_bases"]]
    wbases = budgeted(wbases, L["byte_budget"])
    n_fields = 0
    sig = signal.signal(signal.SIGALRM, _alarm)
    for b, note in bases + wbases:
        signal.alarm(20)
        try:
            ms, nf = mutants(K, b, rkw0, rng, quick, note)
        except _Timeout:
            H["timeout while tracing a base"] += 1
            continue
        except Exception as e:  # noqa   (the tracer met something it does not understand)
            out["notes"].append("%s: tracing a base failed: %s" % (nm, repr(e)[:100]))
            continue
        finally:
            signal.alarm(0)
        n_fields += nf
        for kind, mb, mnote in ms:
            add(kind, mb, mnote)
    out["fields"] = n_fields
    cands.sort(key=lambda c: (len(c[1]), c[0] != "original", c[1]))
    out["candidates"] = len(cands)

    # ---------------------------------------------------------------- the real code, standalone, per context
    corr_ctx = pc.no_engine_data if nm == "TypeToolObjectSetting" else contextlib.nullcontext
    cmd = _cmd(spec)
    recs = []                    # per (candidate, context): what the correspondence and the reports need
    for ci, (kind, b, note) in enumerate(cands):
        any_acc = False
        for (v, pad, rpad) in ctxs:
            rkw, wkw = spec.read_kw(v, rpad), spec.write_kw(v, pad)
            read, write = rw_standalone(K, rkw, wkw)
            signal.alarm(15)
            try:
                r = clauses(read, write, b)
                rc = r
                if corr_ctx is not contextlib.nullcontext:
                    with corr_ctx():
                        rc = clauses(read, write, b)
            except _Timeout:
                H["timeout (>15 s; C06 owns hangs)"] += 1
                continue
            finally:
                signal.alarm(0)
            out["evals"] += 1
            rec = {"ci": ci, "ctx": (v, pad, rpad), "rkw": rkw, "wkw": wkw, "r": r}
            if r["acc"]:
                any_acc = True
            # --- tokens for the correspondence (of the run made under corr_ctx)
            if len(b) <= CORR_MAX_BYTES:
                c = {"acc": rc["acc"], "err": rc.get("err"), "tell": rc.get("tell")}
                if rc["acc"]:
                    try:
                        c["tok"] = spec.tokens(rc["x"])
                    except NotRep as e:
                        c["notrep"] = str(e)[:70]
                    except Exception as e:  # noqa  (a value the token conversion was not written for)
                        c["notrep"] = "token conversion raised %s" % type(e).__name__
                        H["token conversion raised (not NotRep): %s" % type(e).__name__] += 1
                    if "w1" in rc:
                        c["w1"] = rc["w1"]
                        if "y" in rc:
                            c["tell2"] = rc["tell2"]
                            try:
                                c["tok2"] = spec.tokens(rc["y"])
                            except NotRep as e:
                                c["notrep2"] = str(e)[:70]
                            except Exception as e:  # noqa
                                c["notrep2"] = "token conversion raised %s" % type(e).__name__
                        else:
                            c["r2err"] = rc.get("r2err")
                    else:
                        c["w1err"] = rc.get("w1err")
                rec["c"] = c
            recs.append(rec)
        H["%s/%s:%s" % (cls, kind if not kind.startswith("f:") else "float", "accepted" if any_acc else "rejected")] += 1
        out["digests"].append((_digest(cls, b), any_acc))
        if any_acc:
            out["accepted"] += 1
        else:
            out["rejected"] += 1

    # ---------------------------------------------------------------- correspondence with the model (one driver batch per step)
    def model(reqs):
        tm = time.time()
        try:
            return core.Driver().batch(reqs) if reqs else []
        finally:
            out["model_seconds"] = round(out.get("model_seconds", 0) + time.time() - tm, 2)

    live, spent = [], 0
    for rec in recs:                                        # candidates are sorted by length: the small ones always get through
        if "c" in rec:
            cost = 3 * len(cands[rec["ci"]][1]) + 200
            if spent + cost > L["corr_bytes"]:
                H["correspondence skipped: over the model byte budget of the tier (%s)" % nm] += 1
                continue
            spent += cost
            live.append(rec)
    reqs1 = []
    for rec in live:
        v, pad, rpad = rec["ctx"]
        mpad, mrpad = spec.model_pads(pad, rpad)
        rec["mp"] = (mpad, mrpad)
        reqs1.append((cmd + ".dec", nm, v, mrpad, hx(cands[rec["ci"]][1]), 0))
    # round 1 in chunks, with a safety valve on the model's wall time (a class whose model is slow on long inputs)
    ans1, k0 = [], 0
    while k0 < len(reqs1):
        k1, size = k0, 0
        while k1 < len(reqs1) and (k1 == k0 or size + len(reqs1[k1][4]) <= 800_000):
            size += len(reqs1[k1][4])
            k1 += 1
        ans1 += model(reqs1[k0:k1])
        k0 = k1
        if out.get("model_seconds", 0) > L["model_secs"] / 3 and k0 < len(reqs1):
            H["correspondence skipped: model time valve of the tier (%s)" % nm] += len(reqs1) - k0
            live, reqs1 = live[:k0], reqs1[:k0]
            break
    enc_live, reqs2 = [], []
    for rec, a in zip(live, ans1):
        c = rec["c"]
        kind, b, note = cands[rec["ci"]]
        case = {"class": nm, "context": rec["ctx"], "bytes": hx(b)[:3000], "note": note}
        out["corr"] += 1
        if a and a[0] in ("bad-request", "unknown-class"):
            disagree("%s: the model driver rejects the dec request (%s)" % (nm, a[0]), case)
            continue
        if not c["acc"]:
            if a[0] != "err" or a[1] != c["err"]:
                disagree("%s: exception class of read != model dec on a rejected candidate" % nm,
                         dict(case, py=c["err"], model=a[:2] if a[0] == "err" else ["ok", a[1][:300], a[2]]))
            continue
        if "notrep" in c:
            H["not representable in the model: %s: %s" % (nm, c["notrep"])] += 1
            continue
        if a[0] != "ok":
            disagree("%s: the real reader accepts, model dec rejects" % nm, dict(case, py=c["tok"][:600], py_pos=c["tell"], model=a[:2]))
            continue
        if a[1] != c["tok"] or int(a[2]) != c["tell"]:
            disagree("%s: read() structure / cursor != model dec" % nm,
                     dict(case, py=c["tok"][:600], model=a[1][:600], py_pos=c["tell"], model_pos=a[2]))
            continue
        enc_live.append(rec)
        reqs2.append((cmd + ".enc", nm, rec["ctx"][0], rec["mp"][0], c["tok"]))
    dec2_live, reqs3 = [], []
    for rec, a in zip(enc_live, model(reqs2)):
        c = rec["c"]
        kind, b, note = cands[rec["ci"]]
        case = {"class": nm, "context": rec["ctx"], "bytes": hx(b)[:3000], "note": note, "value": c["tok"][:600]}
        out["corr"] += 1
        if a and a[0] in ("bad-request", "unknown-class"):
            disagree("%s: the model driver rejects the enc request (%s)" % (nm, a[0]), case)
            continue
        if "w1" in c:
            if a[0] != "ok" or a[1] != hx(c["w1"]):
                disagree("%s: tobytes() of the decoded value != model enc" % nm,
                         dict(case, py=hx(c["w1"])[:600], model=a[:2] if a[0] != "ok" else a[1][:600]))
                continue
            dec2_live.append(rec)
            reqs3.append((cmd + ".dec", nm, rec["ctx"][0], rec["mp"][1], hx(c["w1"]), 0))
        else:
            if a[0] != "err" or a[1] != c["w1err"]:
                disagree("%s: exception class of tobytes() of the decoded value != model enc" % nm,
                         dict(case, py=c["w1err"], model=a[:2] if a[0] == "err" else ["ok", a[1][:300]]))
    for rec, a in zip(dec2_live, model(reqs3)):
        c = rec["c"]
        kind, b, note = cands[rec["ci"]]
        case = {"class": nm, "context": rec["ctx"], "bytes": hx(b)[:3000], "note": note, "resaved": hx(c["w1"])[:3000]}
        out["corr"] += 1
        if "tok2" in c:
            if a[0] != "ok" or a[1] != c["tok2"] or int(a[2]) != c["tell2"]:
                disagree("%s: re-read of the saved bytes: structure / cursor != model dec" % nm,
                         dict(case, py=c["tok2"][:600], model=(a[1][:600] if a[0] == "ok" else a[:2]), py_pos=c["tell2"],
                              model_pos=a[2] if a[0] == "ok" else None))
        elif "notrep2" in c:
            H["not representable in the model (re-read): %s: %s" % (nm, c["notrep2"])] += 1
        else:
            if a[0] != "err" or a[1] != c["r2err"]:
                disagree("%s: exception class of the re-read of the saved bytes != model dec" % nm,
                         dict(case, py=c["r2err"], model=a[:2] if a[0] == "err" else ["ok", a[1][:300]]))

    # ---------------------------------------------------------------- the search: standalone verdicts
    def mechanism(fail, b, rkw):
        clause, mech, detail = fail
        if clause in ("reread-differs", "second-save-differs"):
            try:
                fields, _ = trace_read(K, b, rkw)
                if field_map(fields, len(b))[4]:
                    return "descriptor-key-cut-short"
            except Exception:  # noqa
                pass
        return mech

    by_ci = collections.defaultdict(list)
    for rec in recs:
        by_ci[rec["ci"]].append(rec)
    doc_queue = []                                          # (priority, ci, rec)
    n_ident = n_norm = 0
    for ci, (kind, b, note) in enumerate(cands):
        rs = [rec for rec in by_ci.get(ci, []) if rec["r"]["acc"]]
        if not rs:
            continue
        failed = [rec for rec in rs if rec["r"]["fail"]]
        if failed:
            H["%s: UNSTABLE" % cls] += 1
            for rec in failed:
                doc_queue.append((0, ci, rec))
            continue
        rec = rs[0]
        w1 = rec["r"]["w1"]
        if all(r_["r"]["w1"] == b for r_ in rs):
            H["%s: identical resave" % cls] += 1
            if n_ident < 3:
                n_ident += 1
                doc_queue.append((1, ci, rec))
        else:
            w1 = next(r_["r"]["w1"] for r_ in rs if r_["r"]["w1"] != b)
            how = "shorter" if len(w1) < len(b) else "longer" if len(w1) > len(b) else "same length"
            H["%s: normalised (%s)" % (cls, how)] += 1
            if n_norm < L["norm_docs"]:
                n_norm += 1
                doc_queue.append((2, ci, rec))

    # ---------------------------------------------------------------- inside the containers
    containers = [("tb", k) for k in job["tb_keys"]] + [("ir", k) for k in job["ir_ids"]]
    containers = containers[:2]
    cont_fail = {}                                          # ci -> [(context, fail, container bytes, rkw, wkw)]
    if containers:
        for ci, (kind, b, note) in enumerate(cands):
            rs = [rec for rec in by_ci.get(ci, []) if rec["r"]["acc"]]
            if not rs or len(b) > L["cont_bytes"]:
                continue
            for j, (ck, key) in enumerate(containers):
                if ck == "tb":
                    variants = [(1, 1), (1, 4)] if j == 0 else [(1, 4 if ci % 2 else 1)]
                    if quick and len(b) > 1000:
                        variants = [(1, 4 if ci % 2 else 1)] if j == 0 else []
                    if not quick:
                        variants = [(1, 1), (1, 4), (2, 4)]
                    todo = [("tagged-block:%s" % key.decode("latin1"), tagged_block_bytes(key, b, v, p), rw_tagged(v, p), (v, p)) for v, p in variants]
                else:
                    todo = [("image-resource:%d" % key, image_resource_bytes(key, b), rw_resource(), None)]
                for context, cb, (read, write), vp in todo:
                    signal.alarm(15)
                    try:
                        r = clauses(read, write, cb)
                    except _Timeout:
                        H["timeout inside a container"] += 1
                        continue
                    finally:
                        signal.alarm(0)
                    out["container_evals"] += 1
                    if not r["acc"]:
                        H["%s in %s: rejected (accepted standalone): %s" % (cls, context.split(":")[0], r.get("err"))] += 1
                    elif r["fail"]:
                        H["%s in %s: UNSTABLE" % (cls, context.split(":")[0])] += 1
                        cont_fail.setdefault(ci, []).append((context, r["fail"], cb, vp))
                    else:
                        H["%s in %s: stable" % (cls, context.split(":")[0])] += 1
    for ci in cont_fail:
        if not any(q[1] == ci for q in doc_queue):
            doc_queue.append((0, ci, by_ci[ci][0]))

    # ---------------------------------------------------------------- inside a whole document
    doc_res = {}                                            # ci -> (file, oracle result, context)
    doc_queue.sort(key=lambda q: (q[0], len(cands[q[1]][1]), q[1]))
    n_doc_fail = 0
    done = set()
    if containers:
        ck, key = containers[0]
        for prio, ci, rec in doc_queue:
            if ci in done:
                continue
            b = cands[ci][1]
            if prio == 0:
                n_doc_fail += 1
                if n_doc_fail > L["fail_docs"]:
                    continue
            if len(b) > 100_000:
                continue
            done.add(ci)
            where = "document" if (ck == "tb" and ci % 2 and prio != 0) else "layer"
            signal.alarm(30)
            try:
                file = document_with(ck, key, b, where)
                res = lc.resave_oracle(file)
            except _Timeout:
                H["timeout inside a document"] += 1
                continue
            except Exception as e:  # noqa  (the raw document could not be built: a harness limit, noted)
                H["document could not be built: %s" % type(e).__name__] += 1
                continue
            finally:
                signal.alarm(0)
            out["doc_evals"] += 1
            H["%s in a document: %s" % (cls, {"ok": "stable", "fail": "UNSTABLE", "rejected": "rejected (%s)" % res[1]}.get(res[0], res[0]))] += 1
            doc_res[ci] = (file, res, "document (%s %s of the %s)" % ("tagged block" if ck == "tb" else "image resource",
                                                                      key.decode("latin1") if ck == "tb" else key,
                                                                      "first layer" if where == "layer" and ck == "tb" else
                                                                      "document" if ck == "tb" else "resource section"))

    # ---------------------------------------------------------------- failures
    expected = "tobytes succeeds, frombytes(w1) == the structure, second tobytes == w1"
    for ci, (kind, b, note) in enumerate(cands):
        rs = [rec for rec in by_ci.get(ci, []) if rec["r"]["acc"] and rec["r"]["fail"]]
        d = doc_res.get(ci)
        dfail = d is not None and d[1][0] == "fail"
        seen_sigs = set()
        for rec in rs:
            clause, mech, detail = rec["r"]["fail"]
            mech = mechanism(rec["r"]["fail"], b, rec["rkw"])
            sg = "C02/payload/%s/%s/%s" % (cls, clause, mech)
            if sg in seen_sigs:
                continue
            seen_sigs.add(sg)
            file = d[0] if dfail else None
            obs = {"clause": clause, "detail": detail, "resaved": hx(rec["r"].get("w1", b""))[:600] if "w1" in rec["r"] else None}
            if d is not None:
                obs["in_document"] = list(d[1][:3]) if d[1][0] == "fail" else d[1][0]
            if ci in cont_fail:
                obs["in_container"] = [(c_, vp_, f_[0], f_[1]) for c_, f_, _, vp_ in cont_fail[ci]][:4]
            out["fails"].append(dict(signature=sg, what="%s: an accepted payload is not re-saved stably (%s)" % (cls, clause),
                                     input=_mk_input(job, b, rec["rkw"], rec["wkw"], "standalone", note, file), observed=_jsonable(obs),
                                     expected=expected, size=len(b)))
        if not rs:
            # stable standalone, unstable inside a container / a document
            for context, fail, cb, vp in cont_fail.get(ci, []):
                clause, mech, detail = fail
                sg = "C02/payload/%s/%s/%s@%s" % (cls, clause, mech, context.split(":")[0])
                if sg in seen_sigs:
                    continue
                seen_sigs.add(sg)
                rec0 = by_ci[ci][0]
                inp = _mk_input(job, b, rec0["rkw"], rec0["wkw"], context, note, d[0] if dfail else None)
                inp["container"] = hx(cb)
                if vp is not None:
                    inp["container_version"], inp["container_padding"] = vp
                out["fails"].append(dict(signature=sg, what="%s: stable standalone, not inside its container (%s)" % (cls, clause), input=inp,
                                         observed=_jsonable({"clause": clause, "detail": detail}), expected=expected, size=len(b)))
            if dfail and not cont_fail.get(ci):
                clause = _DOC_STAGE.get(d[1][1], d[1][1])
                mech = lc.classify(d[1]).replace("C02/", "", 1).replace("/", ":")
                sg = "C02/payload/%s/%s/%s@document" % (cls, clause, mech)
                rec0 = by_ci[ci][0]
                out["fails"].append(dict(signature=sg, what="%s: stable standalone, not inside a whole document (%s)" % (cls, d[1][1]),
                                         input=_mk_input(job, b, rec0["rkw"], rec0["wkw"], "document", note + "; " + d[2], d[0]),
                                         observed=_jsonable({"oracle": list(d[1][:3])}), expected=expected, size=len(b)))
    signal.signal(signal.SIGALRM, sig)
    out["seconds"] = round(time.time() - t0, 2)
    out["hist"] = dict(H)
    return out


# ---------------------------------------------------------------------------------------------
# the corpus of Lean witnesses
# ---------------------------------------------------------------------------------------------
def load_corpus():
    f = core.VERIF / "harness" / "corpus" / "C02payload.json"
    if not f.exists():
        return []
    try:
        return json.loads(f.read_text())
    except Exception:  # noqa
        return None


def _import_class(path):
    mod, _, nm = path.rpartition(".")
    return getattr(importlib.import_module(mod), nm)


def run_entry(pyclass, b, rkw, wkw):
    """the three clauses, standalone -> (result dict, signature or None)"""
    K = _import_class(pyclass)
    read, write = rw_standalone(K, rkw or {}, wkw or {})
    r = clauses(read, write, b)
    sg = None
    if r["acc"] and r["fail"]:
        clause, mech, _ = r["fail"]
        if clause in ("reread-differs", "second-save-differs"):
            try:
                fields, _ = trace_read(K, b, rkw or {})
                if field_map(fields, len(b))[4]:
                    mech = "descriptor-key-cut-short"
            except Exception:  # noqa
                pass
        sg = "C02/payload/%s/%s/%s" % (K.__name__, clause, mech)
    return r, sg


def replay_corpus(ctx):
    corpus = load_corpus()
    if corpus is None:
        ctx.disagree("harness/corpus/C02payload.json is not valid JSON", {})
        return 0
    for e in corpus:
        exp = e.get("expect") or {}
        case = {"class": e.get("class"), "lean": e.get("lean"), "bytes": e.get("bytes")}
        try:
            r, sg = run_entry(e["pyclass"], unhx(e["bytes"]), e.get("read_kw") or {}, e.get("write_kw") or {})
        except Exception as ex:  # noqa  (class moved, entry malformed: the tie to the witness is broken)
            ctx.disagree("corpus entry could not be replayed on the real code: %s" % repr(ex)[:120], case)
            continue
        ctx.count(("corpus", e.get("lean"), e.get("bytes")), nontrivial=r["acc"])
        ctx.hist("c02p_corpus", "replayed")
        if bool(exp.get("accepted", True)) != r["acc"]:
            ctx.disagree("corpus entry: accepted = %s on the real code, the witness says %s" % (r["acc"], exp.get("accepted")),
                         dict(case, py=r.get("err")))
            continue
        if not r["acc"]:
            continue
        clause = r["fail"][0] if r["fail"] else None
        if clause != exp.get("clause_failing"):
            ctx.disagree("corpus entry: failing clause %s on the real code, the witness says %s" % (clause, exp.get("clause_failing")),
                         dict(case, detail=_jsonable(r["fail"])))
        elif exp.get("resaved") is not None and "w1" in r and hx(r["w1"]) != exp["resaved"]:
            ctx.disagree("corpus entry: saved bytes differ from the witness", dict(case, py=hx(r["w1"]), lean=exp["resaved"]))
        if clause is not None:
            ctx.fail(e.get("signature") or sg, "%s: an accepted payload is not re-saved stably (%s; Lean witness %s)" % (e.get("class"), clause, e.get("lean")),
                     {"payload_class": e["pyclass"], "payload": e["bytes"], "read_kw": e.get("read_kw") or {}, "write_kw": e.get("write_kw") or {},
                      "context": "standalone", "note": "corpus C02payload.json, " + str(e.get("lean"))},
                     _jsonable({"clause": clause, "detail": r["fail"][2]}), "the three clauses of C02", how="corpus")
    return len(corpus)


# ---------------------------------------------------------------------------------------------
# the check
# ---------------------------------------------------------------------------------------------
def run(ctx: core.Run):
    """A change of the source is never an infrastructure error: when the harness can no longer drive the classes as
    modelled, the correspondence is broken, which is what gets recorded."""
    try:
        _run(ctx)
    except core.Infra:
        raise
    except Exception as e:  # noqa
        import traceback
        tb = traceback.extract_tb(e.__traceback__)
        ctx.disagree("C02 payload search aborted: the harness could not drive the payload classes (%s: %s)" % (type(e).__name__, str(e)[:200]),
                     {"traceback_tail": [f"{fr.filename.rsplit('/', 1)[-1]}:{fr.lineno} {fr.name}" for fr in tb[-5:]]})
        ctx.notes.append("C02 payload search did not complete (see the disagreement)")


def _run(ctx: core.Run):
    import logging
    logging.disable(logging.CRITICAL)
    warnings.simplefilter("ignore")
    t0 = time.time()
    quick = ctx.quick
    if not core.DRIVER.exists():
        raise core.Infra(f"model driver not built: {core.DRIVER}")
    n_corpus = replay_corpus(ctx)
    specs = _specs_for(quick)
    base_document()                                   # built before the fork
    validator_table()
    _terms()
    pool = ProcessPoolExecutor(WORKERS)
    try:
        per, harvest_info = collect(ctx, specs, pool)
        t_collect = time.time() - t0
        jobs = []
        for p in per:
            p["quick"] = quick
            jobs.append(p)
        # heavy classes first (descriptor-bearing ones), results put back in spec order
        order = sorted(range(len(jobs)), key=lambda i: -(sum(len(b) for b, _ in jobs[i]["originals"][:8]) + 50 * len(jobs[i]["originals"])))
        futs = {i: pool.submit(work_class, jobs[i]) for i in order}
        results = []
        for i in range(len(jobs)):
            try:
                results.append(futs[i].result(timeout=1500))
            except Exception as e:  # noqa
                ctx.disagree("C02 payload search: the job of class %s crashed (%s)" % (jobs[i]["name"], repr(e)[:200]), {"class": jobs[i]["name"]})
                results.append(None)
    finally:
        pool.shutdown(cancel_futures=True)

    # ------------------------------------------------------------------ aggregate
    fails = []
    summary = {}
    tot = collections.Counter()
    no_accept, slow = [], []
    for job, r in zip(jobs, results):
        if r is None:
            continue
        cls = r["pyname"]
        for k, v in r["hist"].items():
            if k.endswith(":accepted") or k.endswith(":rejected"):
                ctx.hist("c02p_candidates_by_class_and_mutation", k, v)
            elif ": identical resave" in k or ": normalised" in k or k.endswith(": UNSTABLE"):
                ctx.hist("c02p_resave", k, v)
            elif k.startswith("not representable"):
                ctx.hist("c02p_not_representable", k[len("not representable in the model"):].lstrip(": ").lstrip(), v)
            elif " in " in k:
                ctx.hist("c02p_containers", k, v)
            else:
                ctx.hist("c02p_other", k, v)
        for dg, acc in r["digests"]:
            ctx.count(dg, nontrivial=acc)
        ctx.evaluations += r["evals"] - len(r["digests"]) + r["container_evals"] + r["doc_evals"]
        ctx.corr_cases += r["corr"]
        for what, case in r["disagree"]:
            ctx.disagree(what, case)
        if r["n_disagree"] > len(r["disagree"]):
            ctx.disagree("%s: %d more disagreements of the same job" % (r["name"], r["n_disagree"] - len(r["disagree"])), {"class": r["name"]})
        fails += r["fails"]
        ctx.notes += r["notes"][:3]
        for k in ("candidates", "accepted", "rejected", "evals", "corr", "container_evals", "doc_evals", "fields"):
            tot[k] += r[k]
        summary[r["name"]] = {"class": cls, "fixture_originals": len(job["originals"]), "writer_bases": len(job["bases"]),
                              "candidates": r["candidates"], "accepted": r["accepted"], "rejected": r["rejected"],
                              "failing": len({f["signature"] for f in r["fails"]}), "disagreements": r["n_disagree"], "seconds": r["seconds"], "model_seconds": r.get("model_seconds", 0)}
        if r["accepted"] == 0:
            no_accept.append(r["name"])
        if r["seconds"] > 15:
            slow.append("%s %.0fs (model %.0fs)" % (r["name"], r["seconds"], r.get("model_seconds", 0)))
    fails.sort(key=lambda f: (f["size"], f["signature"], f["input"]["payload"]))
    for f in fails:
        ctx.fail(f["signature"], f["what"], f["input"], f["observed"], f["expected"])
    tbt, irt = _registries()
    have = {sp.K() for _, sp in specs}
    no_spec = sorted({K_.__name__ for K_ in list(tbt.values()) + list(irt.values()) if K_ not in have})
    if no_spec:
        ctx.skipped.append("payload layer: registered payload classes without a Spec (not driven here): " + ", ".join(no_spec))
    first = next((r for r in results if r and r["candidates"]), None)
    if first is not None:
        ctx.sample({"payload_class": first["pyname"], "candidates": first["candidates"], "accepted": first["accepted"]})
    ctx.extra["payload_layer"] = {
        "classes_with_a_spec": len(jobs), "classes_covered": sum(1 for r in results if r and r["accepted"]),
        "classes_without_any_accepted_non_writer_produced_candidate": no_accept,
        "classes_without_fixture_original": [j["name"] for j in jobs if not j["originals"]],
        "registered_classes_without_a_spec": no_spec,
        "candidates": tot["candidates"], "accepted": tot["accepted"], "rejected": tot["rejected"],
        "standalone_evaluations": tot["evals"], "container_evaluations": tot["container_evals"], "document_evaluations": tot["doc_evals"],
        "model_requests_compared": tot["corr"], "field_offsets_traced": tot["fields"], "corpus_entries": n_corpus,
        "harvest": harvest_info, "failing_signatures": sorted({f["signature"] for f in fails}),
        "seconds": {"collect": round(t_collect, 1), "total": round(time.time() - t0, 1), "slow_jobs": slow},
        "per_class": summary,
    }
    ctx.rule += (
        " Payload layer (C02): case = one (payload class, byte string); non-trivial = the real reader of the class accepts it. "
        "Byte strings: the original payload bytes of the fixtures (raw parse: document / layer tagged blocks, also inside Lr16 / "
        "Lr32 / Layr, image resources; tests/*/*.dat) and mutants at the traced field offsets of those and of writer-produced bases "
        "(nested classes): per read_fmt item sign bit / all ones / zero / one / signed max (2, 0xff for `?`; 1.0, inf, -1.5 for floats), "
        "format pad bytes set, 1-4 trailing bytes, a truncation at every field boundary, the other members of attrs in_ validators, "
        "0..8 on version-like first fields, descriptor keys re-encoded (implicit <-> explicit length, terminology terms of other "
        "lengths), random field values. Each is evaluated under every keyword context of its Spec, inside TaggedBlock (version 1, "
        "padding 1 and 4) / ImageResource for up to two registered keys, and a bounded number inside a whole synthetic document.")
    ctx.assumptions.append(
        "payload layer: equality of structures is lenient_common._eq (attrs fields recursively, floats by bit pattern, NaN == NaN) "
        "plus Python == when no NaN is held; keyword contexts are those of the Spec objects (what the containers pass)")


# ---------------------------------------------------------------------------------------------
# replay
# ---------------------------------------------------------------------------------------------
def replay(ctx, data):
    import logging
    logging.disable(logging.CRITICAL)
    warnings.simplefilter("ignore")
    inp = data.get("input") or {}
    print("replaying", data.get("signature"))
    b = unhx(inp.get("payload", "-"))
    print("payload: %d bytes of %s, read_kw=%s write_kw=%s, context=%s" % (len(b), inp.get("payload_class"), inp.get("read_kw"),
                                                                           inp.get("write_kw"), inp.get("context")))
    print("derived:", inp.get("note"))
    try:
        r, sg = run_entry(inp["payload_class"], b, inp.get("read_kw") or {}, inp.get("write_kw") or {})
        if not r["acc"]:
            print("standalone: rejected by the reader (%s)" % r.get("err"))
        elif r["fail"]:
            print("standalone: FAILS clause %s: %s" % (r["fail"][0], json.dumps(_jsonable(r["fail"][2]))[:400]))
            print("signature:", sg)
        else:
            print("standalone: stable (saved bytes %s the input)" % ("identical to" if r["w1"] == b else "differ from"))
        if "w1" in r:
            print("saved bytes:", hx(r["w1"])[:400])
    except Exception as e:  # noqa
        print("standalone replay could not run:", repr(e)[:200])
    if inp.get("container"):
        cb = unhx(inp["container"])
        cx = inp.get("context", "")
        if cx.startswith("tagged-block"):
            v, p = int(inp.get("container_version", 1)), int(inp.get("container_padding", 1))
            read, write = rw_tagged(v, p)
        else:
            read, write = rw_resource()
        r = clauses(read, write, cb)
        print("container (%s): %s" % (cx, "rejected" if not r["acc"] else ("FAILS " + json.dumps(_jsonable(r["fail"]))[:400]) if r["fail"] else "stable"))
    if inp.get("file"):
        res = lc.resave_oracle(unhx(inp["file"]))
        print("document oracle:", json.dumps(res, default=str)[:600])
        if res[0] == "fail":
            print("document signature:", lc.classify(res))
    print("expected:", data.get("expected"))
    return 0


if __name__ == "__main__":
    seed = int(os.environ.get("VERIF_SEED", "0"))
    tier = os.environ.get("VERIF_TIER", "quick")
    ctx = core.Run("C02", tier, seed)
    t = time.time()
    run(ctx)
    dt = time.time() - t
    pl = ctx.extra.get("payload_layer", {})
    print("seed %d tier %s: %.1f s; classes %s covered %s; candidates %s accepted %s rejected %s; corr %s; containers %s docs %s" % (
        seed, tier, dt, pl.get("classes_with_a_spec"), pl.get("classes_covered"), pl.get("candidates"), pl.get("accepted"),
        pl.get("rejected"), pl.get("model_requests_compared"), pl.get("container_evaluations"), pl.get("document_evaluations")))
    print("no accepted candidate:", pl.get("classes_without_any_accepted_non_writer_produced_candidate"))
    print("no fixture original:", pl.get("classes_without_fixture_original"))
    print("seconds:", pl.get("seconds"))
    print("FAILURES (%d signatures):" % len(ctx.failures))
    for f in ctx.failures:
        print("  ", f["signature"], "x%d" % f["count"], "|", json.dumps(f["input"])[:300])
        print("      observed:", json.dumps(f["observed"], default=str)[:300])
    ds = [d for d in ctx.corr_disagreements]
    print("DISAGREEMENTS (%d):" % len(ds))
    for d in [d for d in ds if d][:20]:
        print("  ", d["what"], "|", json.dumps(d["case"], default=str)[:500])
    if "-v" in sys.argv:
        for k in ("c02p_resave", "c02p_containers", "c02p_not_representable", "c02p_other"):
            print(k, json.dumps(ctx.histograms.get(k, {}), indent=0)[:6000])
