"""C01 (typed documents): whole documents whose image resources, document-level tagged blocks AND per-layer tagged blocks are
objects of their registered classes, and engine data inside C01 - lean/PsdVerif/Model/Typed*.lean vs the real classes.

* `regenerate(ctx)` : rewrites Generated/TypedDoc.lean from the working tree, returns the property module to build
                      (called from the `ctx.prove([...])` list of C01.py)
* `run(ctx)`        : correspondence and search for
    - the two engine-data payloads (`EngineData2` under `Txt2`; `TypeToolObjectSetting` with the engine data as the
      reader leaves it): the engine of payload_common.run_spec with the `td.*` commands;
    - the typed tagged block: one block under EVERY key of `tagged_blocks.TYPES` (instances of the registered class from
      the class's own generators and from the fixtures), keys that are not registered, version 1/2 x padding 1/2/4:
      TaggedBlock.write vs model (bytes, returned count, object state, WF), TaggedBlock.read vs model (tokens, cursor),
      the Python oracle, and mutated encodings (the payload reader raises -> what leaves TaggedBlock.read);
    - whole documents: every fixture under tests/psd_files (quick: a seeded sample) parsed with every registry entry
      active, and generated documents that carry at least one instance of every registered key at layer level and at
      document level (incl. Lr16 / Lr32 with nested records that have typed blocks of their own): PSD.write vs model
      (bytes, count, object after write), PSD.read vs model (tokens, cursor, exception class), PSD and PSB, padding 1/2/4,
      the Python oracle (re-read equal in token form, identical re-write), truncated / mutated files.

Token forms: see lean/Driver/Typed.lean.
"""
from __future__ import annotations

import collections
import contextlib
import copy
import importlib
import io
import re
import time

import core
import skel
from core import hx
from payload_common import (NotRep, Spec, py_write, py_read, mutations, _short, desc_block_tokens, desc_block2_tokens,
                            gen_desc_block, desc_excluded, distinct_instances)

LEVELS = 3          # lean/Driver/Typed.lean `levels`


def regenerate(ctx):
    import extract_typed
    ctx.extra["typed_generated_tables"] = ctx.regenerate(extract_typed.gen_typed)
    return ["PsdVerif.Props.C01Typed"]


def _TB():
    return importlib.import_module("psd_tools.psd.tagged_blocks")


def _LM():
    return importlib.import_module("psd_tools.psd.layer_and_mask")


def _ED():
    return importlib.import_module("psd_tools.psd.engine_data")


def _D():
    return importlib.import_module("psd_tools.psd.descriptor")


def _C18():
    return importlib.import_module("props.C18")


# ---------------------------------------------------------------------------------------------
# engine data
# ---------------------------------------------------------------------------------------------
_FLOAT_TOK = re.compile(r"(?<![^ ])F ([01]) (\d+) (\d+)(?![^ ])")


def canon_floats(tokens: str) -> str:
    """the model keeps the exact decimal of a float token; Python keeps the double, abstracted by its '%.8f' rendering:
    bring the `F neg mant k` groups of a model answer to that canonical form"""
    c18 = _C18()

    def sub(m):
        neg, mant, k = c18.dec_canon(m.group(1) == "1", int(m.group(2)), int(m.group(3)))
        return "F %d %d %d" % (1 if neg else 0, mant, k)
    return _FLOAT_TOK.sub(sub, tokens) if " F " in tokens or tokens.startswith("F ") else tokens


def tree_tokens(ed):
    """EngineData / EngineData2 / Dict -> the driver's prefix code of the tree"""
    c18 = _C18()
    try:
        c = c18.canon_py(ed)
    except UnicodeError:
        raise NotRep("engine-data property name not MacRoman (C18)")
    except core.Infra as e:
        raise NotRep(str(e))
    for s in c18.strings_of(c):
        if any(0xD800 <= cp < 0xE000 for cp in s):
            raise NotRep("engine-data string with a lone surrogate: UnicodeEncodeError on write (C18)")
    return c18.enc_model(c).split()


_WORD = set(b"abcdefghijklmnopqrstuvwxyzABCDEFGHIJKLMNOPQRSTUVWXYZ0123456789_")


def tree_excluded(ed):
    """the harness's reading of Typed.TreeWF (the domain of C18's round trip)"""
    c18 = _C18()
    c = c18.canon_py(ed)

    def go(c):
        t = c[0]
        if t == "D":
            seen = set()
            for k, v in c[1]:
                if not k or any(b not in _WORD for b in k):
                    return "engine-data-name-not-a-word"
                if k in seen:
                    return "engine-data-duplicate-name"
                seen.add(k)
                r = go(v)
                if r:
                    return r
        elif t == "L":
            for v in c[1]:
                r = go(v)
                if r:
                    return r
        elif t in ("P", "T"):
            return "engine-data-property-or-tag-value (outside C18's WF)"
        return None
    return go(c)


class EngineData2Spec(Spec):
    name = "EngineData2"
    at_end = True
    offsets = (0, 1, 2, 3, 4, 5, 8)

    def K(self):
        return _ED().EngineData2

    def tokens(self, x):
        return " ".join(tree_tokens(x))

    def contexts(self):
        return [(1, 4, None), (2, 1, None)]

    def excluded(self, x, pad=None, rpad=None):
        return tree_excluded(x)

    def instances(self, rng, quick):
        c18, E = _C18(), _ED()
        out = []
        for i in range(8 if quick else 200):
            c = c18.rand_dict(rng, rng.randrange(0, 4), extras=(i % 5 == 4))
            out.append(("generated" if i % 5 != 4 else "excluded", c18.build_py(c, top=E.EngineData2)))
        out.append(("boundary", E.EngineData2()))
        return out


def _engine_item(x):
    td = x.text_data
    try:
        if td is not None and b"EngineData" in td:
            return td[b"EngineData"]
    except Exception:  # noqa
        pass
    return None


def typetool_typed_tokens(x):
    import payload_common as pc
    ED = _ED()
    item = _engine_item(x)
    tree = None
    if item is not None and hasattr(item, "value") and isinstance(item.value, ED.Dict):
        if type(item).__name__ not in ("RawData", "Alias", "Path"):
            raise NotRep("an EngineData object as the value of a %s" % type(item).__name__)
        tree = item.value
        toks = tree_tokens(tree)
        item.value = b""
        try:
            base = pc.TypeToolSpec().tokens(x)
        finally:
            item.value = tree
        return base + " 1 " + " ".join(toks)
    return pc.TypeToolSpec().tokens(x) + " 0"


def typetool_typed_excluded(x):
    import payload_common as pc
    ED = _ED()
    why = pc.TypeToolSpec().excluded(x)
    if why:
        return why
    item = _engine_item(x)
    if item is None or type(item).__name__ not in ("RawData", "Alias", "Path"):
        return None
    if isinstance(item.value, ED.Dict):
        return tree_excluded(item.value)
    if isinstance(item.value, (bytes, bytearray)):
        try:
            ED.EngineData.frombytes(bytes(item.value))
        except Exception:  # noqa
            return None
        return "engine-bytes-that-parse-under-the-engine-data-key"
    return None


class TypeToolTypedSpec(Spec):
    name = "TypeToolTyped"
    pyname = "TypeToolObjectSetting"
    offsets = (0, 1, 2, 3, 4, 7, 8, 12, 50, 52)

    def K(self):
        return _TB().TypeToolObjectSetting

    def tokens(self, x):
        return typetool_typed_tokens(x)

    def contexts(self):
        return [(1, 4, None), (2, 1, None)]

    def excluded(self, x, pad=None, rpad=None):
        return typetool_typed_excluded(x)

    def instances(self, rng, quick):
        import payload_common as pc
        c18, E, D = _C18(), _ED(), _D()
        out = []
        base = [x for o, x in pc.TypeToolSpec().instances(rng, True) if o == "generated"]
        for i in range(8 if quick else 150):
            x = copy.deepcopy(base[i % len(base)])
            kind = i % 4
            if kind == 0:                            # a parsed tree
                c = c18.rand_dict(rng, rng.randrange(0, 4), extras=False)
                x.text_data[b"EngineData"] = rng.choice([D.RawData, D.RawData, D.Alias, D.Path])(c18.build_py(c, top=E.EngineData))
                out.append(("generated", x))
            elif kind == 1:                          # bytes the parser rejects: kept
                x.text_data[b"EngineData"] = D.RawData(rng.choice([b"zz )(", b"(\xfe\xffab", b"/a [", b"/a", b"\x00\x01\x02 ]]"]))
                out.append(("generated", x))
            elif kind == 2:                          # no engine data / an item that is not raw
                if b"EngineData" in x.text_data:
                    del x.text_data[b"EngineData"]
                if rng.random() < 0.5:
                    x.text_data[b"EngineData"] = rng.choice([D.String(""), D.String("x"), D.Integer(0), D.Bool(True), D.List([])])
                out.append(("generated", x))
            else:                                    # (iii) bytes that parse
                x.text_data[b"EngineData"] = D.RawData(rng.choice([b"", b"/a 1", b"<< /b [ 1 2 ] >>", b"\n\n<<\n>>"]))
                out.append(("excluded", x))
        return out


def engine_specs():
    return [EngineData2Spec(), TypeToolTypedSpec()]


# ---------------------------------------------------------------------------------------------
# every registered class: how to print its value, how to make instances
# ---------------------------------------------------------------------------------------------
class DescBlockSpec(Spec):
    name = "DescriptorBlock"

    def K(self):
        return _D().DescriptorBlock

    def tokens(self, x):
        return " ".join(desc_block_tokens(x))

    def excluded(self, x, pad=None, rpad=None):
        return desc_excluded(x)

    def instances(self, rng, quick):
        return [("generated", gen_desc_block(rng)) for _ in range(4 if quick else 30)]


class DescBlock2Spec(DescBlockSpec):
    name = "DescriptorBlock2"

    def K(self):
        return _D().DescriptorBlock2

    def tokens(self, x):
        return " ".join(desc_block2_tokens(x))

    def instances(self, rng, quick):
        return [("generated", gen_desc_block(rng, 2)) for _ in range(4 if quick else 30)]


_SPECS = None


def class_specs(rng=None):
    """registered class name -> Spec whose `tokens` gives the model's value tokens"""
    global _SPECS
    if _SPECS is None:
        import random
        import payload_common as pc
        import payload3_common as p3
        r = rng or random.Random(0)
        d = {}
        for sp in (pc.unit2_specs() + pc.unit3_specs(r, True) + pc.unit4_specs() + pc.unit5_specs() + pc.unit6_specs()
                   + p3.unit8_specs() + p3.unit9_specs() + p3.unit10_specs()):
            d[sp.pyname or sp.name] = sp
        d["DescriptorBlock"] = DescBlockSpec()
        d["DescriptorBlock2"] = DescBlock2Spec()
        d["EngineData2"] = EngineData2Spec()
        d["TypeToolObjectSetting"] = TypeToolTypedSpec()
        _SPECS = d
    return _SPECS


def registered():
    """key bytes -> class, from the live registry"""
    TB = _TB()
    return {bytes(skel.keyv(k)): K for k, K in TB.TYPES.items()}


def inner(pad):
    return 1 if pad == 4 else 4


# ---------------------------------------------------------------------------------------------
# token forms
# ---------------------------------------------------------------------------------------------
def t_pay(data, version):
    LM = _LM()
    if isinstance(data, (bytes, bytearray)):
        return ["0", hx(bytes(data))]
    if type(data) is LM.LayerInfoBlock:
        return ["2", *t_info(data, "macroman", version)]
    nm = type(data).__name__
    sp = class_specs().get(nm)
    if sp is None or type(data) is not sp.K() or type(data) not in set(registered().values()):
        raise NotRep("payload of class %s is not a registered class" % nm)
    return ["1", nm, *sp.tokens(data).split()]


def t_blk(t, version):
    return [skel._b(t.signature), skel._b(skel.keyv(t.key)), *t_pay(t.data, version)]


def t_rec(r, encoding, version):
    if not isinstance(r.name, str):
        raise NotRep("layer name is not a str")
    try:
        name = r.name.encode(encoding)
    except UnicodeError:
        raise NotRep("layer name not encodable (C19)")
    return [skel._n(r.top), skel._n(r.left), skel._n(r.bottom), skel._n(r.right),
            *skel._list(list(r.channel_info), skel.t_channelinfo),
            skel._b(r.signature), skel._b(skel.keyv(r.blend_mode)), skel._nat(r.opacity), skel._nat(r.clipping),
            *skel.t_layerflags(r.flags), *skel._opt(r.mask_data, skel.t_mask), *skel.t_ranges(r.blending_ranges), hx(name),
            *skel._list(skel.tagged_items(r.tagged_blocks), lambda t: t_blk(t, version))]


def t_info(li, encoding, version):
    return [skel._n(li.layer_count),
            *skel._opt(li.layer_records, lambda rs: skel._list(list(rs), lambda r: t_rec(r, encoding, version))),
            *skel._opt(li.channel_image_data, lambda cs: skel._list(list(cs), lambda c: skel._list(list(c), skel.t_channeldata)))]


def t_tpsd(p, encoding):
    import payload3_common as p3
    v = p.header.version
    lam = p.layer_and_mask_information
    items = []
    for k in p.image_resources:
        r = p.image_resources[k]
        if skel.keyv(k) != skel.keyv(r.key):
            raise skel.NotSkeleton("dict key differs from resource key")
        items.append(r)
    return [*skel.t_header(p.header), skel._b(p.color_mode_data.value), *skel._list(items, lambda r: p3.t_tres(r, encoding)),
            *skel._opt(lam.layer_info, lambda li: t_info(li, encoding, v)),
            *skel._opt(lam.global_layer_mask_info, skel.t_glm),
            *skel._opt(lam.tagged_blocks, lambda tbs: skel._list(skel.tagged_items(tbs), lambda t: t_blk(t, v))),
            *skel.t_image(p.image_data)]


def doc_tokens(doc, encoding):
    """-> (token string | None, why)"""
    try:
        return skel.tokens(t_tpsd(doc, encoding)), None
    except (NotRep, skel.NotSkeleton) as e:
        return None, "not representable: " + str(e)[:80]
    except Exception as e:  # noqa
        return None, "token conversion failed: " + type(e).__name__


def depth_of_doc(doc):
    """levels of Lr16 / Lr32 nesting below the blocks of the document"""
    LM = _LM()

    def of_blocks(tbs):
        m = 0
        for k in (tbs or {}):
            d = tbs[k].data
            if type(d) is LM.LayerInfoBlock:
                m = max(m, 1 + of_info(d))
        return m

    def of_info(li):
        return max([of_blocks(r.tagged_blocks) for r in (li.layer_records or [])] or [0])
    lam = doc.layer_and_mask_information
    return max(of_blocks(lam.tagged_blocks) - 0, of_info(lam.layer_info) if lam.layer_info else 0)


# ---------------------------------------------------------------------------------------------
# the harness's reading of the typed clauses of a block (decided on the Python side)
# ---------------------------------------------------------------------------------------------
def pay_excluded(key, data, version, pad):
    reg = registered()
    K = reg.get(bytes(key))
    LM = _LM()
    if isinstance(data, (bytes, bytearray)):
        return None if K is None else "raw-bytes-under-a-registered-key"
    if K is None or type(data) is not K:
        return "payload-class-does-not-match-the-key"
    if K is LM.LayerInfoBlock:
        import payload_common as pc
        why = pc.li_excluded(data)
        if why:
            return why
        for r in data.layer_records or []:
            for k in r.tagged_blocks:
                t = r.tagged_blocks[k]
                w = blk_excluded(t, version, 1)
                if w:
                    return "nested: " + w
        return None
    sp = class_specs()[K.__name__]
    return sp.excluded(data, inner(pad), None)


def blk_excluded(t, version, pad):
    if t.signature not in (b"8BIM", b"8B64"):
        return "signature-rejected-by-validator"
    return pay_excluded(skel.keyv(t.key), t.data, version, pad)


# ---------------------------------------------------------------------------------------------
# instances: one payload object per registered key
# ---------------------------------------------------------------------------------------------
class Pool:
    """per class: well-formed instances (the class's own generators + the fixtures) whose writer succeeds"""

    def __init__(self, rng, quick, sink):
        self.rng, self.quick = rng, quick
        self.by_class = collections.defaultdict(list)
        self.excluded = collections.defaultdict(list)
        specs = class_specs(rng)
        for nm, sp in sorted(specs.items()):
            K = sp.K()
            xs = []
            try:
                xs += [("gen", x, o) for o, x in sp.instances(rng, True)]
            except Exception:  # noqa
                pass
            hv = [x for x in sink.get(K, []) if type(x) is K and not sp.too_big(x, True)]
            try:
                hv = distinct_instances(hv, sp.tokens, 3 if quick else 12, rng)
            except Exception:  # noqa
                hv = []
            xs += [("fixture", copy.deepcopy(x), "fixture") for x in hv]
            for src, x, o in xs:
                try:
                    sp.tokens(x)
                    why = sp.excluded(x, 4, None) or sp.excluded(x, 1, None)
                except Exception:  # noqa
                    continue
                if o == "breaking":
                    continue
                w = py_write(x, padding=4, version=1)
                if w[0] != "ok":
                    continue
                (self.excluded if why else self.by_class)[nm].append(x)

    def pick(self, nm):
        xs = self.by_class.get(nm)
        return copy.deepcopy(self.rng.choice(xs)) if xs else None


def nested_info(g, pool, version, depth, nrec=None):
    """a LayerInfoBlock whose records carry typed blocks (and, while depth lasts, an Lr16 / Lr32 of their own)"""
    LM, TB = _LM(), _TB()
    rng = g.r
    li = g.layer_info(version, "macroman", n=nrec or rng.choice([1, 2]), typed=False, ntb=0)
    reg = registered()
    plain = sorted(k for k, K in reg.items() if K is not LM.LayerInfoBlock)
    for r in li.layer_records:
        items = []
        for k in rng.sample(plain, rng.choice([0, 1, 2, 3])):
            x = pool.pick(reg[k].__name__)
            if x is not None:
                items.append((k, TB.TaggedBlock(signature=rng.choice([b"8BIM", b"8B64"]), key=k, data=x)))
        if depth > 0 and rng.random() < 0.5:
            k = rng.choice([b"Lr16", b"Lr32"])
            items.append((k, TB.TaggedBlock(key=k, data=nested_info(g, pool, version, depth - 1, 1))))
        if rng.random() < 0.3:
            k = g.unknown_key()
            items.append((k, TB.TaggedBlock(key=k, data=g.blob())))
        r.tagged_blocks = TB.TaggedBlocks(items)
    return LM.LayerInfoBlock(li.layer_count, li.layer_records, li.channel_image_data)


def payload_for_key(g, pool, key, version, depth=1):
    reg = registered()
    K = reg[key]
    if K is _LM().LayerInfoBlock:
        return nested_info(g, pool, version, depth)
    return pool.pick(K.__name__)


_RES_POOL = None


def typed_resources(g, rng, encoding):
    """image resources that are well formed as typed resources: instances of the registered class under registered ids,
    raw bytes under the others (payload3_common.TypedResourceSpec)"""
    global _RES_POOL
    import payload3_common as p3
    IR = g.IR
    if _RES_POOL is None:
        _RES_POOL = [x for o, x in p3.TypedResourceSpec().instances(rng, True)
                     if o in ("generated", "boundary") and p3.tres_excluded(x) is None and py_write(x, encoding="macroman")[0] == "ok"]
    items, used = [], set()
    for x in rng.sample(_RES_POOL, min(len(_RES_POOL), rng.choice([0, 1, 2, 4]))):
        kv = skel.keyv(x.key)
        if kv in used:
            continue
        used.add(kv)
        x = copy.deepcopy(x)
        x.name = g.name("ascii" if encoding == "ascii" else encoding)
        items.append((x.key, x))
    return IR.ImageResources(items)


def generated_documents(ctx, g, pool, ndocs):
    """documents that together carry every registered key at layer level and at document level; version 1/2, the five
    encodings of gen_c01 for the names of the main layer info (names inside Lr16 / Lr32 are always MacRoman)"""
    LM, TB, P = _LM(), _TB(), g.P
    rng = ctx.rng
    reg = registered()
    keys = sorted(reg)
    out = []
    # chunks of the key set: layer level (spread over the records) and document level
    per_doc = max(6, (len(keys) + ndocs - 1) // ndocs)
    order_a, order_b = keys[:], keys[:]
    rng.shuffle(order_a)
    rng.shuffle(order_b)
    for i in range(ndocs):
        version = 1 + (i % 2)
        encoding = ["macroman", "utf_8", "ascii", "shift_jis", "maccyrillic"][i % 5]
        lay_keys = order_a[i * per_doc:(i + 1) * per_doc] or rng.sample(keys, per_doc)
        doc_keys = order_b[i * per_doc:(i + 1) * per_doc] or rng.sample(keys, per_doc)
        nrec = rng.choice([1, 2, 3])
        li = g.layer_info(version, encoding, n=nrec, typed=False, ntb=0)
        buckets = [[] for _ in range(nrec)]
        for j, k in enumerate(lay_keys):
            buckets[j % nrec].append(k)
        missing = []
        for r, ks in zip(li.layer_records, buckets):
            items = []
            for k in ks:
                x = payload_for_key(g, pool, k, version, depth=1)
                if x is None:
                    missing.append(k)
                    continue
                items.append((k, TB.TaggedBlock(signature=rng.choice([b"8BIM", b"8BIM", b"8B64"]), key=k, data=x)))
            if rng.random() < 0.4:
                k = g.unknown_key()
                items.append((k, TB.TaggedBlock(key=k, data=g.blob())))
            # the pascal name at the limits of its length byte (255, 254, 1, 0 in turn, then whatever the generator chose), and - as in
            # every file Photoshop writes - the unicode name block next to it in most records
            n = [255, 254, 1, 0, None][(i + len(out) + li.layer_records.index(r)) % 5]
            if n is not None:
                r.name = "".join(rng.choice("abcXYZ 019_-") for _ in range(n))
            if not any(k == b"luni" for k, _ in items) and (i + li.layer_records.index(r)) % 4 != 3:
                items.append((b"luni", TB.TaggedBlock(key=b"luni", data=TB.StringElement(r.name))))
            r.tagged_blocks = TB.TaggedBlocks(items)
        items = []
        for k in doc_keys:
            x = payload_for_key(g, pool, k, version, depth=2 if i % 3 == 0 else 1)
            if x is None:
                missing.append(k)
                continue
            items.append((k, TB.TaggedBlock(signature=rng.choice([b"8BIM", b"8BIM", b"8B64"]), key=k, data=x)))
        if rng.random() < 0.5:
            k = g.unknown_key()
            items.append((k, TB.TaggedBlock(key=k, data=g.blob())))
        tbs = TB.TaggedBlocks(items)
        hdr = g.header(version)
        doc = P.PSD(hdr, g.CM.ColorModeData(g.blob((0, 0, 3))), typed_resources(g, rng, encoding),
                    LM.LayerAndMaskInformation(li, g.glm(), tbs), g.image_data())
        out.append(dict(doc=doc, enc=encoding, pad=[4, 1, 2][i % 3], kind="generated", lay=lay_keys, dockeys=doc_keys,
                        missing=missing))
    return out


# ---------------------------------------------------------------------------------------------
# single typed blocks
# ---------------------------------------------------------------------------------------------
def run_blocks(ctx, g, pool, seen_key, fail_cls):
    import codec_common as cc
    TB, LM = _TB(), _LM()
    rng, quick = ctx.rng, ctx.quick
    reg = registered()
    cases = []           # [origin, block, version, pad]
    ctxs = [(1, 1), (2, 4), (1, 2), (2, 1), (1, 4), (2, 2)]
    for i, key in enumerate(sorted(reg)):
        K = reg[key]
        n = 1 if quick else 4
        for j in range(n):
            v, pad = ctxs[(i + j) % len(ctxs)]
            x = payload_for_key(g, pool, key, v, depth=1)
            if x is None:
                ctx.hist("typed_block_no_instance", K.__name__)
                continue
            cases.append(["generated", TB.TaggedBlock(signature=rng.choice([b"8BIM", b"8BIM", b"8B64"]), key=key, data=x), v, pad])
        # (iii): raw bytes under the key, a payload of another class under the key
        v, pad = ctxs[i % len(ctxs)]
        if quick and i % 6:
            continue
        cases.append(["excluded", TB.TaggedBlock(key=key, data=g.blob((0, 1, 4, 9))), v, pad])
        other = pool.pick("IntegerElement" if K.__name__ != "IntegerElement" else "ByteElement")
        if other is not None:
            cases.append(["excluded", TB.TaggedBlock(key=key, data=other), v, pad])
    for nm, xs in sorted(pool.excluded.items()):               # class-level excluded points inside a block
        keys = [k for k, K in reg.items() if K.__name__ == nm]
        for x in xs[: (1 if quick else 6)]:
            if keys:
                cases.append(["excluded", TB.TaggedBlock(key=rng.choice(keys), data=copy.deepcopy(x)), rng.choice([1, 2]), rng.choice([1, 2, 4])])
    for _ in range(4 if quick else 40):                        # keys that are not registered: the fallback
        k = rng.choice([g.unknown_key(), b"Alph", b"Layr", b"shpa", b"tySh"])
        cases.append(["unregistered", TB.TaggedBlock(signature=rng.choice([b"8BIM", b"8B64"]), key=k, data=g.blob()), rng.choice([1, 2]),
                      rng.choice([1, 2, 4])])
    bad = TB.TaggedBlock(key=b"lyid", data=b"\x00\x00\x00\x01")
    bad.signature = b"XXXX"
    cases.append(["excluded", bad, 1, 1])
    cases.append(["breaking", TB.TaggedBlock(key=b"lyid", data=_TB().IntegerElement(2 ** 32)), 1, 1])

    live, reqs = [], []
    for origin, t, v, pad in cases:
        try:
            toks = " ".join(t_blk(t, v))
        except (NotRep, skel.NotSkeleton) as e:
            ctx.hist("payload_not_representable", "TaggedBlock[typed]: " + str(e)[:70])
            continue
        except Exception as e:  # noqa
            ctx.hist("payload_not_representable", "TaggedBlock[typed]: token conversion failed: " + type(e).__name__)
            continue
        w = py_write(t, version=v, padding=pad)
        try:
            after = " ".join(t_blk(t, v)) if w[0] == "ok" else None
        except Exception:  # noqa
            after = None
        live.append([origin, t, v, pad, toks, w, after])
        reqs.append(("td.enc", "TaggedBlock", v, pad, toks))
    dec_reqs, dec_cases = [], []
    for c, a in zip(live, cc.pbatch(reqs)):
        origin, t, v, pad, toks, w, after = c
        key = bytes(skel.keyv(t.key))
        ctx.corr_cases += 1
        ctx.count(("td-blk-enc", v, pad, toks[:3000]), nontrivial=True)
        ctx.hist("typed_block_x_origin", origin)
        ctx.hist("typed_block_version_x_padding", "v%d/pad%d" % (v, pad))
        seen_key[key] += 1
        if a and a[0] in ("bad-request", "unknown-class"):
            ctx.disagree("typed block: the model driver rejects the request", {"value": _short(toks), "answer": a[:1]})
            continue
        if w[0] == "ok":
            # a broken correspondence never hides the property: the oracle below runs on the real writer's bytes in any case
            bytes_ok = a[0] == "ok" and a[1] == hx(w[1])
            if not bytes_ok:
                ctx.disagree("typed block: TaggedBlock.write bytes != model enc",
                             {"key": key.decode("latin1"), "value": _short(toks), "version": v, "padding": pad,
                              "model": a[:2] if a[0] != "ok" else _short(a[1], 200), "py": hx(w[1])[:200]})
            else:
                if int(a[2]) != w[2]:
                    ctx.disagree("typed block: count returned by write != model count", {"value": _short(toks), "py": w[2], "model": a[2]})
                if canon_floats(a[4]) != after:
                    ctx.disagree("typed block: object state after write != model refresh", {"value": _short(toks), "after": _short(after)})
            try:
                why = blk_excluded(t, v, pad)
            except Exception as e:  # noqa
                why = "excluded-undecided:" + type(e).__name__
            iswf = (a[3] == "1") if bytes_ok else (why is None)
            if iswf != (why is None):
                ctx.disagree("typed block: model WF disagrees with the harness's reading of the clauses",
                             {"key": key.decode("latin1"), "value": _short(toks), "model_wf": iswf, "harness": why})
            pre = bytes(rng.randrange(256) for _ in range(rng.choice([0, 0, 1, 3])))
            post = bytes(rng.randrange(256) for _ in range(rng.choice([0, 0, 2, 9])))
            dec_cases.append(c + [iswf, why, pre, post])
            dec_reqs.append(("td.dec", "TaggedBlock", v, pad, hx(pre + w[1] + post), len(pre)))
        else:
            ctx.hist("payload_writer_rejects", "TaggedBlock[typed]:" + w[1])
            if a[0] != "err" or a[1] != w[1]:
                ctx.disagree("typed block: exception class of write != model enc", {"value": _short(toks), "py": w[1], "model": a[:2]})
    K = TB.TaggedBlock
    for c, a in zip(dec_cases, cc.pbatch(dec_reqs)):
        origin, t, v, pad, toks, w, after, iswf, why, pre, post = c
        ctx.corr_cases += 1
        r = py_read(K, pre + w[1] + post, len(pre), version=v, padding=pad)
        compare_block_read(ctx, r, a, v, toks, "typed block")
        ctx.count(("td-blk-oracle", v, pad, toks[:3000]), nontrivial=True)
        r0 = py_read(K, w[1], 0, version=v, padding=pad) if (pre or post) else r
        ok, obs = False, None
        if r0[0] == "ok" and r0[1] is not None:
            try:
                rt0 = " ".join(t_blk(r0[1], v))
            except Exception:  # noqa
                rt0 = None
            w2 = py_write(r0[1], version=v, padding=pad)
            same = rt0 == after
            ok = same and w2[0] == "ok" and w2[1] == w[1]
            obs = {"reread_equal": same, "rewrite_identical": w2[0] == "ok" and w2[1] == w[1], "reread": _short(rt0 or "?")}
        else:
            obs = {"read": r0[1] if r0[0] == "err" else "None"}
        nm = type(t.data).__name__
        if ok:
            ctx.hist("typed_block_oracle", "round-trips" if why is None else "excluded-by-WF-but-round-trips")
        elif why is not None:
            ctx.hist("typed_block_oracle", "excluded-by-WF:" + why.split(":")[0][:60])
        else:
            fail_cls[nm] += 1
            kind = "read-raises" if r0[0] != "ok" else ("reread-differs" if not obs.get("reread_equal") else "rewrite-differs")
            ctx.fail(f"C01/typed-block/{nm}/{kind}",
                     f"a tagged block holding a {nm} under key {skel.keyv(t.key)!r} is not read back as written / does not re-write identically",
                     {"class": "psd_tools.psd.tagged_blocks.TaggedBlock", "kwargs": {"version": v, "padding": pad}, "bytes": hx(w[1]),
                      "repr": _short(toks, 1500)}, obs, "equal structure (token form, as the writer left it) and identical second write")
    # ---- mutated encodings: what leaves TaggedBlock.read when the payload reader raises
    pool_m = [c for c in dec_cases if len(c[5][1]) <= 4000]
    rng.shuffle(pool_m)
    pool_m = pool_m[: (40 if quick else 600)]
    mreqs, mexp = [], []
    for c in pool_m:
        origin, t, v, pad, toks, w = c[:6]
        b = w[1]
        lw = 8 if (v == 2 and skel.keyv(t.key) in g.big) else 4
        start = 8 + lw
        offs = tuple(o for o in (0, 3, 4, 7, 8, start - 1, start, start + 1, start + 2, start + 4, start + 8, len(b) - 1) if 0 <= o < len(b))
        for how, bb in mutations(rng, b, 3 if quick else 8, offsets=offs):
            mreqs.append(("td.dec", "TaggedBlock", v, pad, hx(bb), 0))
            mexp.append((how, bb, v, pad, py_read(K, bb, 0, version=v, padding=pad)))
    for (how, bb, v, pad, r), a in zip(mexp, cc.pbatch(mreqs)):
        ctx.corr_cases += 1
        ctx.count(("td-blk-mut", v, pad, bb), nontrivial=True)
        ctx.hist("typed_block_mutation_outcome", f"{how}:{r[1] if r[0] == 'err' else 'accepted'}")
        compare_block_read(ctx, r, a, v, hx(bb)[:300], "typed block (mutated bytes)")
    return len(live), len(mexp)


def norm_err(c):
    """the engine-data parser's StopIteration / AttributeError are Err.other in the model"""
    return "Other" if (c.startswith("Other") or c == "AttributeError") else c


def compare_block_read(ctx, r, a, v, what, label):
    if r[0] == "ok":
        if r[1] is None:
            rt = "0"
        else:
            try:
                rt = "1 " + " ".join(t_blk(r[1], v))
            except (NotRep, skel.NotSkeleton) as e:
                ctx.hist("payload_not_representable", label + ": " + str(e)[:60])
                return
            except Exception as e:  # noqa
                ctx.hist("payload_not_representable", label + ": token conversion failed: " + type(e).__name__)
                return
        if a[0] != "ok" or canon_floats(a[1]) != rt or int(a[2]) != r[2]:
            ctx.disagree(label + ": TaggedBlock.read structure / cursor != model dec",
                         {"input": _short(what), "py": _short(rt), "model": _short(a[1]) if len(a) > 1 else a,
                          "py_pos": r[2], "model_pos": a[2] if len(a) > 2 else None})
    else:
        if a[0] != "err" or norm_err(a[1]) != norm_err(r[1]):
            ctx.disagree(label + ": exception class of TaggedBlock.read != model dec",
                         {"input": _short(what), "py": r[1], "model": a[:2]})


# ---------------------------------------------------------------------------------------------
# whole documents
# ---------------------------------------------------------------------------------------------
def structural_offsets(b: bytes):
    """offsets of the payloads of the tagged blocks of a written file (found by their signatures) and of the section
    lengths: where a mutation makes a payload reader raise"""
    offs = [0, 4, 6, 12, 14, 22, 25, 26, 27, 30]
    for m in re.finditer(rb"8BIM|8B64", b):
        s = m.start()
        offs += [s, s + 4, s + 8, s + 11, s + 12, s + 13, s + 14, s + 16, s + 20, s + 24]
    return tuple(o for o in offs if 0 <= o < len(b))


def run_documents(ctx, cases, fail_cls, label):
    """cases: dict(doc, enc, pad, kind, name)"""
    import codec_common as cc
    rng, quick = ctx.rng, ctx.quick
    live, reqs = [], []
    for c in cases:
        doc, enc, pad = c["doc"], c["enc"], c["pad"]
        if depth_of_doc(doc) > LEVELS:
            ctx.hist("typed_document_skipped", "nesting deeper than the driver's levels")
            continue
        before, why = doc_tokens(doc, enc)
        if before is None:
            ctx.hist("typed_document_skipped", why[:90])
            continue
        w = cc.write_doc(doc, enc, pad)
        after = doc_tokens(doc, enc)[0] if w[0] == "ok" else None
        c.update(before=before, w=w, after=after)
        live.append(c)
        reqs.append(("td.enc", "PSD", 0, pad, before))
    dreq, dlive = [], []
    for c, a in zip(live, cc.pbatch(reqs)):
        ctx.corr_cases += 1
        ctx.count(("td-doc-enc", c["pad"], c["before"][:4000]), nontrivial=True)
        ctx.hist("typed_document_kind", c["kind"])
        ctx.hist("typed_document_version_x_padding", "v%s/pad%d" % (c["doc"].header.version, c["pad"]))
        w = c["w"]
        if a and a[0] in ("bad-request", "unknown-class"):
            ctx.disagree("typed document: the model driver rejects the request", {"doc": c.get("name"), "answer": a[:1]})
            continue
        if w[0] == "ok":
            # a broken correspondence never hides the property: the oracle below runs on the real writer's bytes in any case; without
            # the model's verdict a generated document counts as well formed (it is built that way), a fixture as it is
            bytes_ok = a[0] == "ok" and a[1] == hx(w[1]) and int(a[2]) == w[2]
            if not bytes_ok:
                ctx.disagree("typed document: PSD.write bytes / count != model enc",
                             {"doc": c.get("name"), "pad": c["pad"], "model": a[:1], "py_len": len(w[1]),
                              "first_difference": first_diff(a[1], hx(w[1])) if a[0] == "ok" else None})
            elif canon_floats(a[4]) != c["after"]:
                ctx.disagree("typed document: object state after write != model refresh", {"doc": c.get("name")})
            c["iswf"] = (a[3] == "1") if bytes_ok else True
            if c["kind"] == "generated" and not c["iswf"]:
                ctx.disagree("typed document: the model's WF rejects a document the generator builds well formed (WF too strong)",
                             {"doc": c.get("name"), "tokens": _short(c["before"], 1500)})
            dreq.append(("td.dec", "PSD", 0, c["pad"], hx(w[1]), 0))
            dlive.append(c)
        else:
            ctx.hist("payload_writer_rejects", "PSD[typed]:" + w[1])
            if a[0] != "err" or a[1] != w[1]:
                ctx.disagree("typed document: exception class of PSD.write != model", {"py": w[1], "model": a[:2], "doc": c.get("name")})
    for c, a in zip(dlive, cc.pbatch(dreq)):
        ctx.corr_cases += 1
        w, enc, pad = c["w"], c["enc"], c["pad"]
        r = cc.read_doc(w[1], enc)
        ok, obs = False, None
        if r[0] == "ok":
            rt, why = doc_tokens(r[1], enc)
            if rt is None:
                ctx.disagree("typed document: re-read document is not representable", {"why": why, "doc": c.get("name")})
                continue
            if a[0] != "ok" or canon_floats(a[1]) != rt or int(a[2]) != r[2]:
                ctx.disagree("typed document: PSD.read structure / cursor != model read",
                             {"doc": c.get("name"), "model": a[:1],
                              "first_difference": first_diff(canon_floats(a[1]), rt) if a[0] == "ok" else None})
            w2 = cc.write_doc(r[1], enc, pad)
            same = rt == c["after"]
            ok = same and w2[0] == "ok" and w2[1] == w[1]
            obs = {"reread_equal": same, "rewrite_identical": w2[0] == "ok" and w2[1] == w[1]}
            if not same:
                obs["first_difference"] = first_diff(rt, c["after"])
        else:
            if a[0] != "err" or norm_err(a[1]) != norm_err(r[1]):
                ctx.disagree("typed document: exception class of PSD.read != model read", {"py": r[1], "model": a[:2], "doc": c.get("name")})
            obs = {"read": r[1]}
        ctx.count(("td-doc-oracle", pad, c["before"][:4000]), nontrivial=True)
        if ok:
            ctx.hist("typed_document_oracle", f"{label}: round-trips" if c["iswf"] else f"{label}: not-WF-but-round-trips")
        elif c["iswf"]:
            fail_cls["PSD"] += 1
            ctx.fail("C01/typed-document/not-round-trip",
                     f"a document whose blocks and resources are objects of their registered classes does not survive write -> read ({c.get('name')})",
                     {"file_name": c.get("name"), "encoding": enc, "padding": pad, "file": hx(w[1])}, obs,
                     "PSD.read(PSD.write(d)) == d (token form, as the writer left it) and identical re-write")
        else:
            ctx.hist("typed_document_oracle", f"{label}: excluded-by-WF")
    # ---- truncated / mutated files: outcome class; structure and cursor when accepted
    pool_m = [c for c in dlive if len(c["w"][1]) <= 60000]
    rng.shuffle(pool_m)
    pool_m = pool_m[: (6 if quick else 80)]
    mreqs, mexp = [], []
    for c in pool_m:
        b = c["w"][1]
        for how, bb in mutations(rng, b, 5 if quick else 12, offsets=structural_offsets(b)):
            r = cc.read_doc(bb, c["enc"])
            mreqs.append(("td.dec", "PSD", 0, c["pad"], hx(bb), 0))
            mexp.append((how, bb, c["enc"], r))
    for (how, bb, enc, r), a in zip(mexp, cc.pbatch(mreqs)):
        ctx.corr_cases += 1
        ctx.count(("td-doc-mut", bb[:4000], len(bb)), nontrivial=True)
        ctx.hist("typed_document_mutation_outcome", f"{how}:{r[1] if r[0] == 'err' else 'accepted'}")
        if r[0] == "ok":
            if depth_of_doc(r[1]) > LEVELS:
                continue
            rt, why = doc_tokens(r[1], enc)
            if rt is None:
                ctx.hist("typed_document_skipped", "mutated: " + why[:70])
                continue
            if a[0] != "ok" or canon_floats(a[1]) != rt or int(a[2]) != r[2]:
                ctx.disagree("typed document (mutated file): PSD.read structure / cursor != model read",
                             {"mutation": how, "model": a[:1], "file": hx(bb)[:2000],
                              "first_difference": first_diff(canon_floats(a[1]), rt) if a[0] == "ok" else None})
        elif r[1] == "UnicodeError" and enc != "macroman":
            # a mutated layer / resource name that the encoding cannot decode: names are byte strings in the model (C19 owns the text encoding)
            ctx.hist("typed_document_skipped", "mutated: name not decodable in %s (C19)" % enc)
        elif a[0] != "err" or norm_err(a[1]) != norm_err(r[1]):
            ctx.disagree("typed document (mutated file): exception class of PSD.read != model read",
                         {"mutation": how, "py": r[1], "model": a[:2], "file": hx(bb)[:2000]})
    return len(live), len(mexp)


def first_diff(a: str, b: str):
    if a is None or b is None:
        return None
    n = min(len(a), len(b))
    i = next((k for k in range(n) if a[k] != b[k]), n)
    return {"at": i, "model": a[max(0, i - 60): i + 60], "py": b[max(0, i - 60): i + 60]}


def fixture_documents(ctx):
    import codec_common as cc
    rng, quick = ctx.rng, ctx.quick
    files = [f for f in cc.fixtures() if (not quick or f.stat().st_size <= 40000)]
    if quick:
        files = rng.sample(files, min(14, len(files)))
    out = []
    for f in files:
        r = cc.read_doc(f.read_bytes())
        if r[0] != "ok":
            continue
        for pad in ((4,) if (quick or f.stat().st_size > 150000) else (1, 2, 4)):
            out.append(dict(doc=copy.deepcopy(r[1]), enc="macroman", pad=pad, kind="fixture", name=f.name))
    return out


def fixture_reads(ctx):
    """the original bytes of the fixtures through PSD.read vs the model reader (tokens, cursor)"""
    import codec_common as cc
    rng, quick = ctx.rng, ctx.quick
    files = [f for f in cc.fixtures() if (not quick or f.stat().st_size <= 40000)]
    if quick:
        files = rng.sample(files, min(14, len(files)))
    reqs, exp = [], []
    for f in files:
        b = f.read_bytes()
        r = cc.read_doc(b)
        if r[0] == "ok" and depth_of_doc(r[1]) > LEVELS:
            continue
        reqs.append(("td.dec", "PSD", 0, 4, hx(b), 0))
        exp.append((f.name, r))
    for (name, r), a in zip(exp, cc.pbatch(reqs)):
        ctx.corr_cases += 1
        ctx.count(("td-fixture-read", name), nontrivial=True)
        if r[0] == "ok":
            rt, why = doc_tokens(r[1], "macroman")
            if rt is None:
                ctx.hist("typed_document_skipped", "fixture: " + why[:70])
                continue
            if a[0] != "ok" or canon_floats(a[1]) != rt or int(a[2]) != r[2]:
                ctx.disagree("typed document (fixture): PSD.read structure / cursor != model read",
                             {"file": name, "model": a[:1], "first_difference": first_diff(canon_floats(a[1]), rt) if a[0] == "ok" else None})
            else:
                ctx.hist("typed_fixture_read", "agrees")
        elif a[0] != "err" or norm_err(a[1]) != norm_err(r[1]):
            ctx.disagree("typed document (fixture): exception class of PSD.read != model read", {"file": name, "py": r[1], "model": a[:2]})
    return len(reqs)


# ---------------------------------------------------------------------------------------------
# witnesses of Props/C01Typed.lean replayed on the real code
# ---------------------------------------------------------------------------------------------
def witnesses(ctx):
    TB, D, ED = _TB(), _D(), _ED()
    text = D.DescriptorBlock(name="", classID=b"null")
    warp = D.DescriptorBlock(name="", classID=b"null")

    def tt(item):
        t = copy.deepcopy(text)
        t[b"EngineData"] = item
        return TB.TypeToolObjectSetting(1, (0.0,) * 6, 50, t, 1, copy.deepcopy(warp), 0, 0, 0, 0)
    # type_tool_engine_bytes_follow_the_key: bytes that parse are read as an EngineData object
    x = tt(D.RawData(b"/a 1"))
    y = TB.TypeToolObjectSetting.frombytes(x.tobytes())
    if not isinstance(y.text_data[b"EngineData"].value, ED.EngineData):
        ctx.disagree("witness type_tool_engine_bytes_follow_the_key does not replay on the real code", {})
    # type_tool_engine_bytes_kept: bytes the parser rejects stay
    x = tt(D.RawData(b"zz )("))
    y = TB.TypeToolObjectSetting.frombytes(x.tobytes())
    if y.text_data[b"EngineData"].value != b"zz )(" or y.tobytes() != x.tobytes():
        ctx.disagree("witness type_tool_engine_bytes_kept does not replay on the real code", {})
    # repaired by the `fix:` commit of this unit: an empty String / Name under the key is left alone
    for item in (D.String(""), D.Name(value="")):
        x = tt(item)
        w = py_write(x)
        r = py_read(TB.TypeToolObjectSetting, w[1]) if w[0] == "ok" else ("err", "write")
        w2 = py_write(r[1]) if r[0] == "ok" else ("err", "read")
        if not (w[0] == "ok" and r[0] == "ok" and w2[0] == "ok" and w2[1] == w[1] and isinstance(r[1].text_data[b"EngineData"].value, str)):
            ctx.fail("C01/typed/type-tool-engine-step-replaces-a-str-value",
                     "TypeToolObjectSetting.read replaces the value of an empty String / Name item under b'EngineData' by an "
                     "EngineData object; the object can no longer be written",
                     {"class": "psd_tools.psd.tagged_blocks.TypeToolObjectSetting", "kwargs": {}, "bytes": hx(w[1]) if w[0] == "ok" else "",
                      "repr": type(item).__name__ + "('') under b'EngineData'"},
                     {"read": r[0], "rewrite": w2[:1]}, "equal structure and identical second tobytes()")
    # block_payload_follows_the_key
    t = TB.TaggedBlock(key=b"lyid", data=b"\x00\x00\x00\x01")
    r = py_read(TB.TaggedBlock, py_write(t, version=1, padding=1)[1], 0, version=1, padding=1)
    if not (r[0] == "ok" and type(r[1].data).__name__ == "IntegerElement" and r[1].data.value == 1):
        ctx.disagree("witness block_payload_follows_the_key (raw bytes) does not replay on the real code", {"read": r[:2] if r[0] == "err" else "?"})
    t = TB.TaggedBlock(key=b"lsct", data=TB.IntegerElement(7))
    r = py_read(TB.TaggedBlock, py_write(t, version=1, padding=1)[1], 0, version=1, padding=1)
    if r != ("err", "ValueError"):
        ctx.disagree("witness block_payload_follows_the_key (other class) does not replay on the real code", {"read": r[:2]})


# ---------------------------------------------------------------------------------------------
# the check
# ---------------------------------------------------------------------------------------------
def run(ctx):
    """A change of the source is never an infrastructure error: when the harness can no longer drive the classes as
    modelled, the correspondence is broken, which is what gets recorded."""
    try:
        _run(ctx)
    except core.Infra:
        raise
    except Exception as e:  # noqa
        import traceback
        tb = traceback.extract_tb(e.__traceback__)
        ctx.disagree("typed-document check aborted: the harness could not drive the classes as modelled (%s: %s)"
                     % (type(e).__name__, str(e)[:200]),
                     {"traceback_tail": [f"{fr.filename.rsplit('/', 1)[-1]}:{fr.lineno} {fr.name}" for fr in tb[-5:]]})
        ctx.notes.append("typed-document correspondence did not complete (see the disagreement)")


def _run(ctx):
    import codec_common as cc
    import gen_c01
    import payload_common as pc
    import payload3_common as p3
    t0 = time.time()
    rng, quick = ctx.rng, ctx.quick
    seen_cls, fail_cls, excluded_log = collections.Counter(), collections.Counter(), collections.Counter()
    seen_key = collections.Counter()
    sink = pc.harvest_by_class(cc.fixtures() if not quick else [f for f in cc.fixtures() if f.stat().st_size <= 200000])
    # ---- engine data payloads (PCodec engine)
    ncases = nmut = 0
    for spec in engine_specs():
        K = spec.K()
        xs = [x for x in sink.get(K, []) if type(x) is K]
        harvested = distinct_instances(xs, spec.tokens, 6 if quick else None, rng)
        ctx.hist("payload_harvest_distinct", spec.name, len(harvested))
        a, b = run_spec_td(ctx, spec, [copy.deepcopy(x) for x in harvested], seen_cls, fail_cls, excluded_log)
        ncases += a
        nmut += b
    ctx.extra["typed_engine_cases"] = {"writer/reader cases": ncases, "mutations": nmut}
    witnesses(ctx)
    # ---- blocks
    g = gen_c01.Gen(rng, None)
    pool = Pool(rng, quick, sink)
    nb, nbm = run_blocks(ctx, g, pool, seen_key, fail_cls)
    ctx.extra["typed_block_cases"] = {"writer/reader cases": nb, "mutations": nbm}
    reg = registered()
    ctx.extra["typed_block_keys_with_no_case"] = sorted(k.decode("latin1") for k in reg if seen_key.get(k, 0) == 0)
    # ---- documents
    gen = generated_documents(ctx, g, pool, 16 if quick else 120)
    lay = set(k for c in gen for k in c["lay"] if k not in c["missing"])
    dock = set(k for c in gen for k in c["dockeys"] if k not in c["missing"])
    ctx.extra["typed_documents_keys_never_at_layer_level"] = sorted(k.decode("latin1") for k in reg if k not in lay)
    ctx.extra["typed_documents_keys_never_at_document_level"] = sorted(k.decode("latin1") for k in reg if k not in dock)
    for i, c in enumerate(gen):
        c["name"] = "generated-%d" % i
    nd, ndm = run_documents(ctx, gen, fail_cls, "generated")
    fx = fixture_documents(ctx)
    nf, nfm = run_documents(ctx, fx, fail_cls, "fixture")
    nr = fixture_reads(ctx)
    ctx.extra["typed_document_cases"] = {"generated": nd, "fixtures re-written": nf, "fixtures read": nr, "mutations": ndm + nfm}
    ctx.extra["typed_points_excluded_by_WF (information; format-excluded, see notes)"] = dict(excluded_log)

    cov = ctx.model_coverage if isinstance(ctx.model_coverage, dict) else {}
    cov["modelled_and_proved (typed documents: Props/C01Typed.lean)"] = {
        "EngineData2": {"cases": seen_cls.get("EngineData2", 0), "failures": fail_cls.get("EngineData2", 0)},
        "TypeToolObjectSetting (engine data parsed at read time)": {"cases": seen_cls.get("TypeToolObjectSetting", 0),
                                                                    "failures": fail_cls.get("TypeToolObjectSetting", 0)},
        "TaggedBlock (typed, every registered key)": {"cases": nb, "keys": len(reg) - len(ctx.extra["typed_block_keys_with_no_case"]),
                                                      "failures": sum(v for k, v in fail_cls.items() if k not in ("PSD",))},
        "PSD (typed resources, document-level and per-layer blocks)": {"cases": nd + nf, "failures": fail_cls.get("PSD", 0)},
    }
    opaque = cov.get("opaque: searched, not proved")
    if isinstance(opaque, dict):
        for nm in ("EngineData", "EngineData2"):
            opaque.pop(nm, None)
    ctx.model_coverage = cov
    ctx.trusted_base += [
        "Model/Typed*.lean: hand transliteration of TaggedBlock.read / write with the payload dispatch through tagged_blocks.TYPES, of the "
        "engine-data step of TypeToolObjectSetting.read and of RawData.write; tied by this run's correspondence check (typed blocks under every "
        "registered key, whole documents: bytes, returned count, object state after write, tokens and cursor of the reader, exception classes on "
        "truncated / mutated encodings) and by the regenerated tables of Generated/TypedDoc.lean (the whole registry, the dispatch statement and "
        "its fallback, the try / except structure of TaggedBlock.read, the engine-data step, RawData.write, the default layouts of the engine-data "
        "writers)",
        "harness/typeddoc_common.py: conversion of the real object graph to the typed token form (per class: the conversions of "
        "payload_common / payload3_common; engine data: C18's canonical form, floats through CPython's '%.8f'); harness/extract_typed.py",
    ]
    ctx.assumptions += [
        "engine-data strings with lone surrogates (UnicodeEncodeError on write) and the float <-> '%.8f' conversion are C18's: not generated / "
        "trusted here",
        "the typed reader of the model has %d levels of Lr16 / Lr32 nesting below a block (RecursionError beyond; CPython's own limit is about 80 "
        "levels); the theorems hold for every number of levels" % LEVELS,
    ]
    ctx.notes += [
        "Typed documents (Props/C01Typed.lean) modelled and proved: TaggedBlock.read / write with the payload dispatch for every key of "
        "tagged_blocks.TYPES (class-indexed payload; the only fallback the code has is 'key not registered -> raw bytes': "
        "unregistered_key_stays_raw; whatever a payload reader raises leaves TaggedBlock.read: payload_reader_error_propagates), used in layer "
        "records and in the document-level list, recursively through LayerInfoBlock (levels); psd_roundtrip_typed / "
        "psd_rewrite_identical_typed (image resources, document-level blocks and per-layer blocks are objects of their classes; PSD and PSB; any "
        "layer-info padding), typed_refines_resources, typed_refines_skeleton, typed_tagged_block_roundtrip / _rewrite_identical / "
        "_written_is_length / _is_skeleton_block, typed_layer_record_roundtrip, typed_layer_info_block_roundtrip; ties key_kind_tied (every "
        "registered class is in the model), tagged_registry_tied, tagged_block_dispatch_tied, engine_data_tied.",
        "Engine data inside C01: Txt2 holds an EngineData2 parsed at read time (txt2_engine_data_*: C18's parse_write composed with the block); "
        "TypeToolObjectSetting.read parses the raw value under b'EngineData' of the text descriptor AT READ TIME, in place, inside try / except "
        "Exception, and RawData.write writes the parsed object in the indented layout: modelled exactly (TypeToolTyped: the object the reader "
        "leaves; type_tool_typed_roundtrip / _rewrite_identical, engine_data_of_type_tool_roundtrip, type_tool_engine_bytes_kept). (iii) bytes "
        "under that key that parse are read as an EngineData object (type_tool_engine_bytes_follow_the_key; replayed as excluded instances).",
        "Finding of this unit, repaired (repo commit 09c5faf): an empty String / Name item under b'EngineData' was replaced by an EngineData "
        "object by TypeToolObjectSetting.read (the tokenizer accepts an empty str) and the descriptor could no longer be written "
        "(AttributeError); the reader now parses only a bytes value (replayed by this run).",
    ]
    ctx.rule += (
        " Typed documents: one typed block under every key of tagged_blocks.TYPES (quick: 1, thorough: 4 instances of the registered class per key "
        "from the class's generators and the fixtures; version 1/2 x padding 1/2/4), raw bytes and a payload of another class under registered "
        "keys, unregistered keys, 3-8 mutations at structural offsets of up to 600 encodings; generated documents (quick 16, thorough 120) that "
        "together carry every registered key at layer level and at document level incl. Lr16 / Lr32 with nested typed records, PSD and PSB, padding "
        "1/2/4, five name encodings; every fixture (quick: a seeded sample of 14 below 40 kB, padding 4; thorough: all, padding 1/2/4 below 150 kB and 4 above) re-written and re-read with every registry entry "
        "active, and read from its original bytes; 5-12 truncations / overwrites at the offsets of block signatures of up to 80 written files (per group: generated, fixtures).")
    ctx.assumptions[:] = [a.replace(
        "the payload classes listed under model_coverage as opaque (engine data, ...) are opaque bytes in the model: searched with Python's == "
        "(every fixture instance + variants), not proved",
        "every class registered in tagged_blocks.TYPES and image_resources.TYPES is typed in the model (Props/C01Typed.lean); the classes still listed "
        "under model_coverage as opaque are base classes without an on-disk form of their own, searched with Python's ==") for a in ctx.assumptions]
    ctx.notes[:] = [n.replace(
        "Stated in DESIGN, not proved here: codec laws of engine data (C18) and the element-typed composition of image resources / adjustment "
        "blocks into whole documents; see model_coverage.",
        "The element-typed composition of image resources, of every registered tagged-block class and of engine data into whole documents is proved "
        "in Props/C01Typed.lean (psd_roundtrip_typed).") for n in ctx.notes]
    ctx.extra["typed_phase_seconds"] = round(time.time() - t0, 1)
    if ctx.tier == "thorough":
        prev = ctx.extra.get("leanchecker")
        ctx.recheck(["PsdVerif.Props.C01Typed"])
        mine = ctx.extra.get("leanchecker")
        if isinstance(prev, dict) and isinstance(mine, dict):
            ctx.extra["leanchecker"] = {"modules": prev.get("modules", []) + mine.get("modules", []),
                                        "ok": bool(prev.get("ok")) and bool(mine.get("ok")),
                                        "tail": (prev.get("tail", "") + mine.get("tail", ""))[-400:]}


def run_spec_td(ctx, spec, harvested, seen_cls, fail_cls, excluded_log):
    """payload_common.run_spec with the td.* commands (the two engine-data payloads)"""
    import payload_common as pc
    with td_commands():
        return pc.run_spec(ctx, spec, harvested, seen_cls, fail_cls, excluded_log)


@contextlib.contextmanager
def td_commands():
    """run_spec sends `pl.enc` / `pl.dec`; the engine-data classes live under `td.enc` / `td.dec`: route them, and bring the
    float groups of the model's answers to the canonical form"""
    import codec_common as cc
    real = cc.pbatch

    def routed(reqs, *a, **k):
        reqs2 = [(("td." + r[0][3:],) + tuple(r[1:])) if r and r[0] in ("pl.enc", "pl.dec") else r for r in reqs]
        out = real(reqs2, *a, **k)
        res = []
        for r, ans in zip(reqs2, out):
            if r[0] == "td.dec" and ans and ans[0] == "ok":
                ans = [ans[0], canon_floats(ans[1]), *ans[2:]]
            elif r[0] == "td.dec" and ans and ans[0] == "err":
                ans = [ans[0], norm_err(ans[1]), *ans[2:]]
            res.append(ans)
        return res
    import payload_common as pc
    real_read = pc.py_read

    def read_norm(*a, **k):
        r = real_read(*a, **k)
        return ("err", norm_err(r[1])) if r[0] == "err" else r
    cc.pbatch = routed
    pc.py_read = read_norm
    try:
        yield
    finally:
        cc.pbatch = real
        pc.py_read = real_read
