"""Python-only round-trip oracle for the element classes the Lean model treats as opaque payloads
(and, as a cross-check, for every other element class too).

For an instance `x` of element class `K`:   b = x.tobytes(**kw);  y = K.frombytes(b, **kw);
expected  y == x  and  y.tobytes(**kw) == b.

The keyword context `kw` a class needs is not declared anywhere, so every candidate failure is
re-tried under all the contexts the containers use (`version` 1/2, `padding` 1/4, `encoding`);
a failure is reported only when *no* applicable context makes the instance round-trip, and the
bytes written under the failing context are themselves stable (so the failure is not an artefact
of feeding a reader a context it was not written for).
"""
from __future__ import annotations

import inspect
import io

import attr

CONTEXTS = [
    {},
    {"version": 1},
    {"version": 2},
    {"padding": 1},
    {"padding": 4},
    {"version": 1, "padding": 1},
    {"version": 1, "padding": 4},
    {"version": 2, "padding": 1},
    {"version": 2, "padding": 4},
    {"encoding": "macroman"},
    {"encoding": "macroman", "version": 1},
    {"encoding": "macroman", "version": 2},
]

# classes whose reader needs data from the enclosing structure (count, lengths, record list):
# they are part of the file skeleton and covered by the model + whole-document oracle instead.
CONTEXT_DEPENDENT = {
    "LayerRecords", "ChannelImageData", "ChannelDataList", "ChannelData", "PSD", "LayerAndMaskInformation",
    "ImageData", "TaggedBlocks", "TaggedBlock", "ImageResources", "ImageResource", "LayerInfo", "LayerRecord",
    "FileHeader", "ColorModeData", "MaskData", "MaskFlags", "MaskParameters", "LayerFlags", "LayerBlendingRanges",
    "GlobalLayerMaskInfo", "ChannelInfo",
}


def token_level(K) -> bool:
    """engine-data token classes (Dict, List, Float, ...): `read` is entered by the tokenizer after the opening
    delimiter was consumed while `write` emits the delimiters, so K.frombytes(x.tobytes()) is not the
    class's contract; the whole EngineData / EngineData2 payload is (and that is C18's property)."""
    return K.__module__ == "psd_tools.psd.engine_data" and K.__name__ not in ("EngineData", "EngineData2")


def element_classes():
    """every BaseElement subclass defined under psd_tools.psd"""
    import importlib
    import pkgutil

    import psd_tools.psd as pkg
    from psd_tools.psd.base import BaseElement

    for m in pkgutil.iter_modules(pkg.__path__):
        importlib.import_module(f"psd_tools.psd.{m.name}")
    out, todo = {}, [BaseElement]
    while todo:
        k = todo.pop()
        for s in k.__subclasses__():
            if s.__module__.startswith("psd_tools.psd") and s.__name__ not in out:
                out[s.__name__] = s
                todo.append(s)
    return out


def walk(obj, sink, seen=None, depth=0):
    """collect BaseElement instances reachable from obj: sink[class] -> [instances]"""
    from psd_tools.psd.base import BaseElement, DictElement, ListElement
    if seen is None:
        seen = set()
    if id(obj) in seen or depth > 40:
        return
    if isinstance(obj, BaseElement):
        seen.add(id(obj))
        sink.setdefault(type(obj), []).append(obj)
        if isinstance(obj, DictElement):
            for v in obj.values():
                walk(v, sink, seen, depth + 1)
        elif isinstance(obj, ListElement):
            for v in obj:
                walk(v, sink, seen, depth + 1)
        if attr.has(type(obj)):
            for f in attr.fields(type(obj)):
                try:
                    walk(getattr(obj, f.name), sink, seen, depth + 1)
                except Exception:
                    pass
    elif isinstance(obj, (list, tuple)):
        for v in obj:
            walk(v, sink, seen, depth + 1)
    elif isinstance(obj, dict):
        for v in obj.values():
            walk(v, sink, seen, depth + 1)


def _accepts(fn, kw):
    try:
        sig = inspect.signature(fn)
    except (TypeError, ValueError):
        return True
    params = sig.parameters
    if any(p.kind == p.VAR_KEYWORD for p in params.values()):
        return True
    return all(k in params for k in kw)


def _eq(a, b):
    try:
        r = a == b
        if isinstance(r, bool):
            return r
        return bool(r)
    except Exception:
        return None


def try_context(x, kw):
    """-> ('ok'|'na'|'reread-differs'|'rewrite-differs'|'read-raises:<E>'|'unstable', detail)"""
    K = type(x)
    if not (_accepts(K.read, kw) and _accepts(x.write, kw)):
        return "na", None
    try:
        b1 = x.tobytes(**kw)
        b1b = x.tobytes(**kw)
    except TypeError as e:
        return "na", repr(e)
    except Exception as e:  # the instance cannot be written in this context
        return "na", "write:" + type(e).__name__
    if b1 != b1b:
        return "unstable", None
    try:
        y = K.frombytes(b1, **kw)
    except TypeError as e:
        if "argument" in str(e):
            return "na", repr(e)
        return "read-raises:TypeError", (b1, repr(e))
    except RecursionError:
        return "read-raises:RecursionError", (b1, None)
    except Exception as e:
        return "read-raises:" + type(e).__name__, (b1, repr(e))
    e = _eq(y, x)
    if e is None:
        return "na", "not comparable"
    if not e:
        return "reread-differs", (b1, None)
    try:
        b2 = y.tobytes(**kw)
    except Exception as ex:
        return "rewrite-differs", (b1, repr(ex))
    if b2 != b1:
        return "rewrite-differs", (b1, b2)
    return "ok", None


def check_instance(x):
    """-> (verdict, context, detail): 'ok' when some applicable context round-trips, 'na' when no context
    applies, else the failure kind observed in every applicable context (the first one)."""
    first = None
    applicable = 0
    for kw in CONTEXTS:
        v, d = try_context(x, kw)
        if v == "na":
            continue
        applicable += 1
        if v == "ok":
            return "ok", kw, None
        if first is None:
            first = (v, kw, d)
    if applicable == 0:
        return "na", None, None
    return first


def default_instances(classes):
    out = {}
    for name, K in classes.items():
        try:
            out[K] = [K()]
        except Exception:
            pass
    return out
