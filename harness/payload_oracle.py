"""Python-only round-trip oracle for the element classes the Lean model treats as opaque payloads
(and, as a cross-check, for every other element class too).

For an instance `x` of element class `K`:   b = x.tobytes(**kw);  y = K.frombytes(b, **kw);
expected  y == x  and  y.tobytes(**kw) == b.

The keyword context `kw` a class needs is not declared anywhere, so every candidate failure is
re-tried under all the contexts the containers use (`version` 1/2, `padding` 1/4, `encoding`);
a failure is reported only when *no* applicable context makes the instance round-trip, and the
bytes written under the failing context are themselves stable (so the failure is not an artefact
of feeding a reader a context it was not written for).
"""
from __future__ import annotations

import inspect
import io

import attr

CONTEXTS = [
    {},
    {"version": 1},
    {"version": 2},
    {"padding": 1},
    {"padding": 4},
    {"version": 1, "padding": 1},
    {"version": 1, "padding": 4},
    {"version": 2, "padding": 1},
    {"version": 2, "padding": 4},
    {"encoding": "macroman"},
    {"encoding": "macroman", "version": 1},
    {"encoding": "macroman", "version": 2},
]

# classes whose reader needs data from the enclosing structure (count, lengths, record list):
# they are part of the file skeleton and covered by the model + whole-document oracle instead.
CONTEXT_DEPENDENT = {
    "LayerRecords", "ChannelImageData", "ChannelDataList", "ChannelData", "PSD", "LayerAndMaskInformation",
    "ImageData", "TaggedBlocks", "TaggedBlock", "ImageResources", "ImageResource", "LayerInfo", "LayerRecord",
    "FileHeader", "ColorModeData", "MaskData", "MaskFlags", "MaskParameters", "LayerFlags", "LayerBlendingRanges",
    "GlobalLayerMaskInfo", "ChannelInfo",
}


def token_level(K) -> bool:
    """engine-data token classes (Dict, List, Float, ...): `read` is entered by the tokenizer after the opening
    delimiter was consumed while `write` emits the delimiters, so K.frombytes(x.tobytes()) is not the
    class's contract; the whole EngineData / EngineData2 payload is (and that is C18's property)."""
    return K.__module__ == "psd_tools.psd.engine_data" and K.__name__ not in ("EngineData", "EngineData2")


def element_classes():
    """every BaseElement subclass defined under psd_tools.psd"""
    import importlib
    import pkgutil

    import psd_tools.psd as pkg
    from psd_tools.psd.base import BaseElement

    for m in pkgutil.iter_modules(pkg.__path__):
        importlib.import_module(f"psd_tools.psd.{m.name}")
    out, todo = {}, [BaseElement]
    while todo:
        k = todo.pop()
        for s in k.__subclasses__():
            if s.__module__.startswith("psd_tools.psd") and s.__name__ not in out:
                out[s.__name__] = s
                todo.append(s)
    return out


def walk(obj, sink, seen=None, depth=0):
    """collect BaseElement instances reachable from obj: sink[class] -> [instances]"""
    from psd_tools.psd.base import BaseElement, DictElement, ListElement
    if seen is None:
        seen = set()
    if id(obj) in seen or depth > 40:
        return
    if isinstance(obj, BaseElement):
        seen.add(id(obj))
        sink.setdefault(type(obj), []).append(obj)
        if isinstance(obj, DictElement):
            for v in obj.values():
                walk(v, sink, seen, depth + 1)
        elif isinstance(obj, ListElement):
            for v in obj:
                walk(v, sink, seen, depth + 1)
        if attr.has(type(obj)):
            for f in attr.fields(type(obj)):
                try:
                    walk(getattr(obj, f.name), sink, seen, depth + 1)
                except Exception:
                    pass
    elif isinstance(obj, (list, tuple)):
        for v in obj:
            walk(v, sink, seen, depth + 1)
    elif isinstance(obj, dict):
        for v in obj.values():
            walk(v, sink, seen, depth + 1)


def _accepts(fn, kw):
    try:
        sig = inspect.signature(fn)
    except (TypeError, ValueError):
        return True
    params = sig.parameters
    if any(p.kind == p.VAR_KEYWORD for p in params.values()):
        return True
    return all(k in params for k in kw)


def _eq(a, b):
    try:
        r = a == b
        if isinstance(r, bool):
            return r
        return bool(r)
    except Exception:
        return None


def try_context(x, kw):
    """-> ('ok'|'na'|'reread-differs'|'rewrite-differs'|'read-raises:<E>'|'unstable', detail)"""
    K = type(x)
    if not (_accepts(K.read, kw) and _accepts(x.write, kw)):
        return "na", None
    try:
        b1 = x.tobytes(**kw)
        b1b = x.tobytes(**kw)
    except TypeError as e:
        return "na", repr(e)
    except Exception as e:  # the instance cannot be written in this context
        return "na", "write:" + type(e).__name__
    if b1 != b1b:
        return "unstable", None
    try:
        y = K.frombytes(b1, **kw)
    except TypeError as e:
        if "argument" in str(e):
            return "na", repr(e)
        return "read-raises:TypeError", (b1, repr(e))
    except RecursionError:
        return "read-raises:RecursionError", (b1, None)
    except Exception as e:
        return "read-raises:" + type(e).__name__, (b1, repr(e))
    e = _eq(y, x)
    if e is None:
        return "na", "not comparable"
    if not e:
        return "reread-differs", (b1, None)
    try:
        b2 = y.tobytes(**kw)
    except Exception as ex:
        return "rewrite-differs", (b1, repr(ex))
    if b2 != b1:
        return "rewrite-differs", (b1, b2)
    return "ok", None


def check_instance(x):
    """-> (verdict, context, detail): 'ok' when some applicable context round-trips, 'na' when no context
    applies, else the failure kind observed in every applicable context (the first one)."""
    first = None
    applicable = 0
    for kw in CONTEXTS:
        v, d = try_context(x, kw)
        if v == "na":
            continue
        applicable += 1
        if v == "ok":
            return "ok", kw, None
        if first is None:
            first = (v, kw, d)
    if applicable == 0:
        return "na", None, None
    return first


def default_instances(classes):
    out = {}
    for name, K in classes.items():
        try:
            out[K] = [K()]
        except Exception:
            pass
    return out


# =============================================================================================
# Systematic sweeps (added after seeded change C01-2 was missed: no fixture holds the long terminology keys)
# =============================================================================================
def terminology_members():
    """every member of every enum of psd_tools/terminology.py -> [(enum name, member)]"""
    import enum

    import psd_tools.terminology as T
    out = []
    for nm in sorted(vars(T)):
        K = getattr(T, nm)
        if isinstance(K, type) and issubclass(K, enum.Enum) and K.__module__ == T.__name__ and len(K):
            if isinstance(next(iter(K)).value, bytes):
                out += [(nm, m) for m in K]
    return out


def key_positions(v):
    """tiny descriptor structures with the byte string `v` in each position a key / class id / type id / enum value
    can take -> [(position, instance)]"""
    import psd_tools.psd.descriptor as D
    one = D.Integer(1)
    return [
        ("descriptor-key", D.Descriptor(items=[(v, one)])),
        ("descriptor-classID", D.Descriptor(classID=v, items=[(b"abcd", one)])),
        ("descriptor-block-key", D.DescriptorBlock(items=[(v, D.Descriptor(classID=v))])),
        ("descriptor-block2-classID", D.DescriptorBlock2(classID=v)),
        ("object-array-key", D.ObjectArray(items_count=1, classID=v, items=[(v, D.UnitFloats(values=[1.0]))])),
        ("global-object-key", D.GlobalObject(classID=v, items=[(v, D.Bool(True))])),
        ("enumerated-type", D.Enumerated(typeID=v, enum=b"abcd")),
        ("enumerated-value", D.Enumerated(typeID=b"abcd", enum=v)),
        ("reference-property", D.Reference([D.Property(classID=v, keyID=v)])),
        ("reference-class", D.Reference([D.Class1(classID=v), D.Class2(classID=v), D.Class3(classID=v)])),
        ("reference-enumerated", D.Reference([D.EnumeratedReference(classID=v, typeID=v, enum=v)])),
        ("reference-offset-name", D.Reference([D.Offset(classID=v, value=7), D.Name(classID=v, value="n"),
                                               D.Identifier(3), D.Index(4)])),
        ("nested-list", D.Descriptor(items=[(v, D.List([D.Enumerated(v, v), D.Descriptor(classID=v, items=[(v, D.String("s"))])]))])),
    ]


def key_candidates():
    """-> [(origin, bytes)]: every terminology member (as its value), plus non-term keys of length 0..12"""
    out = [("term:%s.%s" % (nm, m.name), m.value) for nm, m in terminology_members()]
    import psd_tools.psd.descriptor as D
    for n in range(0, 13):
        out.append(("ascii%d" % n, (b"keyKEYkey012_")[:n]))
        out.append(("high%d" % n, bytes((0x80 + 9 * i) % 256 for i in range(n))))
        out.append(("zero%d" % n, bytes(n)))
        out.append(("ff%d" % n, b"\xff" * n))
    out.append(("implicit-4", D._ImplicitKey(b"zzzz")) if hasattr(D, "_ImplicitKey") else ("ascii4b", b"zzzz"))
    out.append(("term-prefix-5", b"Rd  x"))
    out.append(("term-suffix-5", b"xRd  "))
    return out


def unit_instances():
    import psd_tools.psd.descriptor as D
    from psd_tools.terminology import Enum, Unit
    out = []
    for u in Unit:
        for val in (0.0, -0.0, 1.5, 1.7976931348623157e308):
            out.append(("unit-float:%s" % u.name, D.UnitFloat(unit=u, value=val)))
        out.append(("unit-floats:%s" % u.name, D.UnitFloats(unit=u, values=[0.0, 2.0])))
        out.append(("unit-floats-empty:%s" % u.name, D.UnitFloats(unit=u, values=[])))
    for e in list(Enum)[::7]:
        try:
            Unit(e.value)
            continue
        except ValueError:
            pass
        out.append(("unit-float-enum:%s" % e.name, D.UnitFloat(unit=e, value=2.5)))
    return out


def ostype_instances():
    """one item of every registered OSType class (default instance) inside a descriptor and a list"""
    import psd_tools.psd.descriptor as D
    out = []
    for ost, K in sorted(D.TYPES.items(), key=lambda kv: getattr(kv[0], "value", kv[0])):
        try:
            x = K()
        except Exception:
            continue
        nm = getattr(ost, "name", str(ost))
        out.append(("ostype-in-descriptor:%s" % nm, D.Descriptor(items=[(b"item", x)])))
        out.append(("ostype-in-list:%s" % nm, D.List([x, K()])))
    for val, K in ((0, D.Integer), (-2 ** 31, D.Integer), (2 ** 31 - 1, D.Integer), (-2 ** 63, D.LargeInteger),
                   (2 ** 63 - 1, D.LargeInteger), (0.0, D.Double), (-0.0, D.Double), (False, D.Bool), (True, D.Bool),
                   ("", D.String), ("é\U0001f600", D.String), (b"", D.RawData), (b"\x00", D.RawData)):
        out.append(("value:%s:%r" % (K.__name__, val), D.Descriptor(items=[(b"item", K(val))])))
    return out


VARIANT_SELECTORS = ("version", "count", "is_written")
_SRC_CACHE: dict = {}


def _codec_source(K):
    if K not in _SRC_CACHE:
        src = []
        for nm in ("read", "_read_body", "write", "_write_body"):
            fn = getattr(K, nm, None)
            try:
                src.append(inspect.getsource(fn))
            except (TypeError, OSError):
                pass
        _SRC_CACHE[K] = "\n".join(src)
    return _SRC_CACHE[K]


def _selector(K, field_name):
    """fields that select a variant or fix a count are not varied alone (the other fields would have to follow):
    recognised by name, or by the codec comparing the field with a constant (`self.kind == ...`, `version >= 2`).
    Presence tests (`is not None`) and plain truth tests do not make a field a selector."""
    import re
    if any(s in field_name for s in VARIANT_SELECTORS):
        return True
    nm = re.escape(field_name.lstrip("_"))
    return re.search(r"(?<![A-Za-z0-9_])(self\._?)?%s\s*(==|!=|>=|<=|>|<|\bin\b)" % nm, _codec_source(K)) is not None


def _boundary_values(cur):
    import enum
    if isinstance(cur, enum.Enum):
        return [m for m in type(cur) if m is not cur]
    if isinstance(cur, bool):
        return [not cur]
    if isinstance(cur, int):
        return [0] if cur != 0 else []
    if isinstance(cur, float):
        return [0.0] if cur != 0.0 else []
    if isinstance(cur, str):
        return [""] if cur != "" else []
    return []


def field_boundary_instances(classes, sink, per_class=3):
    """for every opaque element class: baselines = the first `per_class` fixture instances + the default instance,
    each of which round-trips; then every scalar field in turn set to its lower boundary (0, 0.0, False/True, "")
    and every enum-valued field to every other member. -> [(label, baseline, mutated, context)]"""
    out = []
    for name, K in sorted(classes.items()):
        if name in CONTEXT_DEPENDENT or token_level(K) or not attr.has(K):
            continue
        bases = list(sink.get(K, []))[:per_class]
        try:
            bases.append(K())
        except Exception:
            pass
        for bi, x in enumerate(bases):
            try:
                v, kw, _ = check_instance(x)
            except Exception:
                continue
            if v != "ok":
                continue
            for f in attr.fields(K):
                if _selector(K, f.name):
                    continue
                try:
                    cur = getattr(x, f.name)
                except Exception:
                    continue
                for c in _boundary_values(cur):
                    try:
                        y = attr.evolve(x, **{f.name.lstrip("_"): c})
                    except Exception:
                        continue
                    out.append(("%s.%s=%s" % (name, f.name, getattr(c, "name", repr(c))), x, y, kw))
    return out


def field_boundary_sweep(classes, sink, per_class=3):
    """-> (evaluated, failures [(signature, label, instance, verdict, kwargs, bytes)], not_stored [labels])"""
    failures, not_stored, n = [], [], 0
    for label, x, y, kw in field_boundary_instances(classes, sink, per_class):
        n += 1
        try:
            v, kw2, d = check_instance(y)
        except Exception:
            continue
        if v in ("ok", "na"):
            continue
        try:
            stored = y.tobytes(**kw) != x.tobytes(**kw)
        except Exception:
            stored = True
        if not stored:
            not_stored.append(label)          # the field is not on disk in this state (information)
            continue
        cls, fld = label.split("=")[0].split(".", 1)
        data = d[0] if d and isinstance(d[0], (bytes, bytearray)) else b""
        failures.append(("C01/payload-field/%s.%s/%s" % (cls, fld, v.split(":")[0]), label, y, v, kw2, data))
    return n, failures, not_stored


def sweep(ctx_hist=None):
    """run every systematic instance through the round-trip oracle.
    -> (evaluated, failures [(signature, label, instance, verdict, kwargs, bytes)], format_excluded [labels])"""
    failures, excluded, n = [], [], 0

    def one(label, x):
        nonlocal n
        n += 1
        try:
            v, kw, d = check_instance(x)
        except Exception as e:  # noqa
            return "oracle-error:" + type(e).__name__, None, None
        return v, kw, d

    # keys: one combined structure per candidate; on failure, each position alone
    import psd_tools.psd.descriptor as D
    for origin, v in key_candidates():
        try:
            parts = key_positions(v)
            combined = D.Descriptor(classID=v, items=[(b"p%03d" % i, x if not isinstance(x, D.DescriptorBlock) and
                                                       not isinstance(x, D.DescriptorBlock2) else D.Descriptor(classID=v))
                                                      for i, (_, x) in enumerate(parts)] + [(v, D.Integer(1))])
        except Exception as e:  # noqa
            failures.append(("C01/descriptor-key/constructor-raises", origin, None, type(e).__name__, None, b""))
            continue
        verdict, kw, d = one(origin, combined)
        bad = []
        if verdict not in ("ok", "na") or origin.startswith("term:") is False:
            for pos, x in parts:
                pv, pkw, pd = one(origin + "@" + pos, x)
                if pv not in ("ok", "na"):
                    bad.append((pos, x, pv, pkw, pd))
            if verdict not in ("ok", "na") and not bad:
                bad.append(("combined", combined, verdict, kw, d))
        if len(v) == 0:
            # a key of length 0 cannot be expressed: the length field 0 announces a 4-byte key (format rule, not a finding)
            excluded.append("%s: %d positions do not round-trip" % (origin, len(bad)))
            continue
        for pos, x, pv, pkw, pd in bad[:1]:
            kind = "term" if origin.startswith("term:") else "non-term-length-%d" % len(v)
            data = pd[0] if pd and isinstance(pd[0], (bytes, bytearray)) else b""
            failures.append(("C01/descriptor-key/%s/%s/%s" % (kind, pos, pv.split(":")[0]), origin + "@" + pos, x, pv, pkw, data))
    for group, items in (("descriptor-unit", unit_instances()), ("descriptor-ostype", ostype_instances())):
        for label, x in items:
            v, kw, d = one(label, x)
            if v not in ("ok", "na"):
                data = d[0] if d and isinstance(d[0], (bytes, bytearray)) else b""
                failures.append(("C01/%s/%s/%s" % (group, label.split(":")[0], v.split(":")[0]), label, x, v, kw, data))
    return n, failures, excluded
