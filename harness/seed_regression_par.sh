#!/bin/bash
# usage: harness/seed_regression_par.sh <workers> [seed-dir-glob]   — every seeded change against the quick check of its property,
# in <workers> private worktree pairs /tmp/w/reg<i>/{verif,repo} (so /repo and /verif stay untouched); writes seeded/REGRESSION.md
n=${1:-4}; shift; globs=("$@"); [ ${#globs[@]} -eq 0 ] && globs=("C*")
cd /verif
seeds=($(for g in "${globs[@]}"; do ls -d seeded/$g; done | sort))
for i in $(seq 1 $n); do
  harness/mkworkspace.sh reg$i > /dev/null 2>&1
  cp -r /verif/lean/.lake /tmp/w/reg$i/verif/lean/ 2>/dev/null
  ( cd /tmp/w/reg$i/verif/lean && lake build > /dev/null 2>&1 )
done
worker() {
  i=$1; wv=/tmp/w/reg$i/verif; wr=/tmp/w/reg$i/repo; : > /tmp/reg_$i.txt
  k=0
  for d in "${seeds[@]}"; do
    k=$((k+1)); [ $(( (k-1) % n + 1 )) -eq $i ] || continue
    s=$(basename $d); p=${s%%-*}
    if ! git -C $wr apply --check /verif/$d/patch.diff 2>/dev/null; then echo "| $s | patch no longer applies to the repaired tree | | |" >> /tmp/reg_$i.txt; continue; fi
    git -C $wr apply /verif/$d/patch.diff
    ( cd $wv && PSD_REPO=$wr ./check $p --tier quick > /tmp/seedreg_$i.out 2>&1 ); rc=$?
    git -C $wr checkout -- .
    git -C $wv checkout -- lean/PsdVerif/Generated evidence 2>/dev/null
    nv=$(grep -c "^VIOLATION" /tmp/seedreg_$i.out); nf=$(grep -c "no-failing-input-found" /tmp/seedreg_$i.out)
    case $rc in 1) r="caught";; 0) r="**missed**";; *) r="**exit $rc**";; esac
    echo "| $s | $r | $((nv-nf)) | $nf |" >> /tmp/reg_$i.txt
  done
}
for i in $(seq 1 $n); do worker $i & done
wait
out=${REG_OUT:-seeded/REGRESSION.md}
echo "# Seeded changes vs the quick checks ($(date -u +%FT%TZ), /repo $(git -C /repo log -1 --format=%h), /verif $(git log -1 --format=%h); run in $n private worktree pairs)" > $out
echo "" >> $out; echo "| seed | result | violations (with input) | broken tie only |" >> $out; echo "|---|---|---|---|" >> $out
cat /tmp/reg_*.txt | sort -t'|' -k2,2V >> $out
echo "" >> $out
echo "caught: $(grep -c '| caught |' $out) / $(grep -c '^| C' $out)" >> $out
for i in $(seq 1 $n); do git -C /verif worktree remove --force /tmp/w/reg$i/verif; git -C /verif branch -D b-reg$i >/dev/null; git -C /repo worktree remove --force /tmp/w/reg$i/repo; git -C /repo branch -D b-reg$i > /dev/null; done
