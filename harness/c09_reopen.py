"""C09, save / reopen half: ties of `Model/Reopen.lean` to the code.

`modules(ctx)`   regenerates Generated/Reopen.lean (extract_c09) and names the property module to prove.
`correspond(ctx, traces)`   on the final worlds of histories the check explored anyway:
  * the model's flattened record sequence (`reopen.flatten`: history -> `flattenState`) against the real
    `_build_record_tree(psd)` — records AND channel lists by object identity (own record of layer i, bounding
    record of group i);
  * where `_update_record` stores them against `storeRebuilt` / `readerSlot` (the list the reader's accessor
    yields is, object for object, the rebuilt list; the holder is the Lr16 / Lr32 block when present);
  * the model's forest (`forestOf`, and the forest `parse` builds from the flattened records) against the real
    tree after `save` + `open`: names, kinds, nesting, order;
  * one deterministic case outside the API: a group whose `_bounding_record` is `None` (model: AttributeError).
Differences are model/code disagreements (ctx.disagree); the property itself is searched by C09's save oracle.
"""
from __future__ import annotations

import io
import re

import core
import extract_c09
import treeops as T

MODULE = "PsdVerif.Props.C09Reopen"


def modules(ctx):
    ctx.regenerate(extract_c09.gen_reopen)
    return [MODULE]


# ------------------------------------------------------------------------------------------
# model side
# ------------------------------------------------------------------------------------------
_TOK = re.compile(r"\s*(?:(L)(\d+)|([GA])(\d+)\.(\d+)\[|(\])|(-))")


def parse_forest(s):
    """`L1 G2.2[L3] A5.5[]` -> [("L", 1), ("G", 2, [("L", 3)]), ("A", 5, [])]"""
    stack = [[]]
    pos = 0
    s = s.strip()
    while pos < len(s):
        m = _TOK.match(s, pos)
        if not m:
            raise ValueError("forest syntax: %r at %d" % (s, pos))
        pos = m.end()
        if m.group(1):
            stack[-1].append(("L", int(m.group(2))))
        elif m.group(3):
            node = (m.group(3), int(m.group(4)), [])
            stack[-1].append(node)
            stack.append(node[2])
        elif m.group(6):
            stack.pop()
        # "-" = empty forest
    if len(stack) != 1:
        raise ValueError("forest syntax: unbalanced %r" % s)
    return stack[0]


def model_answers(ctx, reqs):
    """reqs: [(init, mops, doc string)] -> [(records | None, error | None, forest of the store, reopened forest | error)]"""
    lines = [("reopen.flatten", "current", init, ";".join(T.op_str(o) for o in ops) if ops else "-", doc)
             for init, ops, doc in reqs]
    out = []
    for ans in ctx.driver().batch(lines):
        if ans[0] != "ok" or len(ans) < 4:
            raise core.Infra("reopen.flatten: %r" % (ans,))
        recs, forest, reopened = ans[1], ans[2], ans[3]
        if recs.startswith("err:"):
            out.append((None, recs[4:], forest, reopened))
        else:
            out.append(([] if recs == "-" else recs.split(" "), None, forest, reopened))
    return out


# ------------------------------------------------------------------------------------------
# real side
# ------------------------------------------------------------------------------------------
def real_records(w, psd):
    """`_build_record_tree(psd)` as model tokens + problems of the channel lists"""
    from psd_tools.api.psd_image import _build_record_tree
    records, channels = _build_record_tree(psd)
    own, bound, chan = {}, {}, {}
    for i in w.layers():
        o = w.objs[i]
        own[id(o._record)] = i
        chan[("own", i)] = o._channels
        if isinstance(o, T.Group):
            bound[id(o._bounding_record)] = i
            chan[("bound", i)] = o._bounding_channels
    toks, bad_channels = [], []
    for k, (r, c) in enumerate(zip(records, channels)):
        if id(r) in bound:
            i = bound[id(r)]
            toks.append("B%d" % i)
            if c is not chan[("bound", i)]:
                bad_channels.append(k)
        elif id(r) in own:
            i = own[id(r)]
            o = w.objs[i]
            toks.append(("A%d" if isinstance(o, T.Artboard) else "C%d" if isinstance(o, T.Group) else "L%d") % i)
            if c is not chan[("own", i)]:
                bad_channels.append(k)
        else:
            toks.append("?")
    if len(records) != len(channels):
        bad_channels.append(-1)
    return toks, bad_channels, records


def model_slot(lam):
    """`readerSlot` of Model/Reopen.lean on the real section (after an absent layer_info was created)"""
    from psd_tools.constants import Tag
    tb = lam.tagged_blocks
    if tb is not None and Tag.LAYER_16 in tb:
        return "lr16", tb.get_data(Tag.LAYER_16)
    if tb is not None and Tag.LAYER_32 in tb:
        return "lr32", tb.get_data(Tag.LAYER_32)
    return "layerInfo", lam.layer_info


def described(w, forest):
    """model forest -> [(name, kind[, children])] with names / leaf kinds of the in-memory objects"""
    out = []
    for n in forest:
        o = w.objs[n[1]]
        if n[0] == "L":
            out.append((o.name, o.kind))
        else:
            out.append((o.name, "artboard" if n[0] == "A" else "group", described(w, n[2])))
    return out


def names_kinds(tree):
    """treeops.describe_tree output -> [(name, kind[, children])]"""
    return [(i[0], i[1]) + ((names_kinds(i[8]),) if len(i) > 8 else ()) for i in tree]


def ids_of(forest):
    return [(n[1],) + ((ids_of(n[2]),) if n[0] != "L" else ()) for n in forest]


def real_ids(w, g):
    return [(w.idof(l),) + ((real_ids(w, l),) if isinstance(l, T.GroupMixin) else ()) for l in g._layers]


def missing_bounding_record(ctx):
    """outside the API: `_bounding_record is None` -> the model says `save` raises AttributeError"""
    w = T.build(("small", "RGB", 8))
    g = w.objs[w.groups()[0]]
    g._bounding_record = None
    g._bounding_channels = None
    w.objs[0]._updated_layers = True
    try:
        w.objs[0].save(io.BytesIO())
        real = "no exception"
    except Exception as e:  # noqa
        real = core.err_class(e) if hasattr(core, "err_class") else type(e).__name__
    gi = w.groups()[0]
    (recs, err, _, _), = model_answers(ctx, [(T.init_str(w), [], "0 %d" % gi)])
    ctx.corr_cases += 1
    ctx.count(("reopen", "missing-bounding-record"), nontrivial=True)
    if err != real:
        ctx.disagree("reopen: group without bounding record: model %s, save() %s" % (err or recs, real),
                     {"recipe": ["small", "RGB", 8], "group": gi})


def correspond(ctx, traces, n_reopen):
    """traces: finished histories (well-formed final worlds); n_reopen: how many documents are also saved and
    reopened for the forest comparison (the record comparison is made for every document)."""
    from psd_tools.api.psd_image import PSDImage
    cases = []
    for t in traces:
        if t.stopped is not None or t.out_of_model is not None:
            continue
        for d in t.world.docs():
            cases.append((t, d))
    answers = model_answers(ctx, [(t.init, t.mops, str(d)) for t, d in cases])
    step = max(1, len(cases) // max(1, n_reopen))
    n_bad = 0
    for k, ((t, d), (recs, err, forest_s, reopened_s)) in enumerate(zip(cases, answers)):
        w = t.world
        psd = w.objs[d]
        case = {"recipe": list(w.recipe), "ops": T.ops_to_json(t.ops), "document": d}
        ctx.corr_cases += 1
        ctx.count(("reopen", tuple(w.recipe), tuple(T.op_str(o) for o in t.ops), d), nontrivial=bool(t.ops))
        # (1) flattened records: model vs `_build_record_tree`, by object identity
        try:
            toks, bad_channels, records = real_records(w, psd)
        except RecursionError:
            toks, bad_channels, records = None, [], None
        if err is not None or toks is None:
            if not (err == "RecursionError" and toks is None):
                n_bad += 1
                ctx.disagree("reopen: flattenState %s, _build_record_tree %s" % (err or "ok", "RecursionError" if toks is None else "ok"), case)
            continue
        ctx.hist("reopen_records", "%d records" % min(len(toks), 12))
        if toks != recs:
            n_bad += 1
            ctx.disagree("reopen: flattened record sequence differs", dict(case, code=toks, model=recs))
            continue
        if bad_channels:
            n_bad += 1
            ctx.disagree("reopen: channel lists do not move with their records at positions %s" % bad_channels, case)
            continue
        # (2) the two forests of the model agree (instance of save_reopen) and are the object graph
        if forest_s != reopened_s:
            n_bad += 1
            ctx.disagree("reopen: parse (flattenState) differs from forestOf", dict(case, forestOf=forest_s, parsed=reopened_s))
            continue
        forest = parse_forest(forest_s)
        if ids_of(forest) != real_ids(w, psd):
            n_bad += 1
            ctx.disagree("reopen: forestOf differs from the object graph", dict(case, model=forest_s))
            continue
        # (3) where the rebuilt records are stored (only when `_update_record` rebuilds: flag set)
        if psd._updated_layers:
            try:
                psd._update_record()
                slot, holder = model_slot(psd._record.layer_and_mask_information)
                read = [r for r, _ in psd._record._iter_layers()]
                stored_ok = len(read) == len(records) and all(a is b for a, b in zip(read, records)) and \
                    holder is psd._record._get_layer_info() and \
                    len(holder.layer_records) == len(records) and all(a is b for a, b in zip(holder.layer_records, records))
                ctx.hist("reopen_slot", slot)
                if not stored_ok:
                    n_bad += 1
                    ctx.disagree("reopen: the reader does not yield the rebuilt records (model slot %s)" % slot, case)
                    continue
            except Exception as e:  # noqa
                n_bad += 1
                ctx.disagree("reopen: _update_record raised %s" % type(e).__name__, case)
                continue
        # (4) save + open: the reopened tree is the model's forest (names, kinds, nesting, order)
        if k % step == 0:
            r = T.save_reopen(psd)
            if r[0] != "ok":
                ctx.hist("reopen_forest", "save-or-open-raises (C09 oracle)")
                continue                    # a failure of the property itself: reported by C09's save oracle
            want = described(w, forest)
            got = names_kinds(r[2])
            ctx.hist("reopen_forest", "compared")
            if want != got:
                n_bad += 1
                ctx.disagree("reopen: the tree after save + open differs from forestOf (names, kinds, nesting, order)",
                             dict(case, model=repr(want)[:400], code=repr(got)[:400]))
    missing_bounding_record(ctx)
    ctx.extra["reopen_model_cases"] = len(cases)
    ctx.extra["reopen_model_disagreements"] = n_bad
    return n_bad


def run_block(ctx, chosen):
    """the block appended to C09's run(): correspondence, evidence texts, recheck"""
    # documents that keep their layers in Lr16 / Lr32 (the storage decision), always part of the comparison
    deep = [T.run_history(r, [("newgroup", 0), ("move", 1, len(T.build(r).objs))], check_fresh=False, check_inv=False)
            for r in (("nest", "RGB", 16), ("nest", "L", 32), ("board", "L", 16),
                      ("fixture", "16bit5x5.psd"), ("fixture", "32bit5x5.psd"))]
    correspond(ctx, deep + list(chosen), n_reopen=150 if ctx.quick else 1500)
    ctx.trusted_base += [
        "harness/c09_reopen.py: record / channel objects <-> model tokens by identity, forest notation parser",
        "harness/extract_c09.py: AST reader of save / _update_record / _build_record_tree / _get_layer_info / _iter_layers",
        "Model/Reopen.lean: transliteration of _build_record_tree on the store, of the storage decision and of the "
        "open pipeline (checked by correspondence and tied by regenerated constants, not proved against Python)",
    ]
    ctx.assumptions += [
        "save_reopen is a statement about record LISTS with payload ids (identity of record + channel list); the bytes "
        "between save and open are C01's psd_roundtrip / layer_info_roundtrip (value-preserving), attributes and pixels "
        "inside the payloads are C16 / C07's",
        "Python's recursion limit is not hit by _build_record_tree on an acyclic tree (the model's counter only "
        "stands for non-termination on a cyclic one)",
    ]
    ctx.notes = [n for n in ctx.notes if not n.startswith("save_reopen (DESIGN C09) is evaluated on the real code only")]
    ctx.notes += [
        "save_reopen (DESIGN C09) is proved at the level of record lists in Props/C09Reopen.lean: flatten_is_forest, "
        "save_reopen, save_reopen_doc (with the storage decision and the reader's classification), "
        "save_reopen_after_history, reopen_kinds, stored_where_read (+ legacy witnesses); the byte level is C01's "
        "psd_roundtrip, stated separately, not composed (C01's record values carry no identity)",
        "save_reopen_doc takes as hypothesis that a document whose flag is not set still stores the records of its tree "
        "(hsync): that only flag-setting operations change the lists is checked by correspondence (dirty flag in every "
        "dump), not proved",
    ]
    if ctx.tier == "thorough":
        first = ctx.extra.get("leanchecker")
        ctx.recheck([MODULE])
        ctx.extra["leanchecker_reopen"] = ctx.extra.get("leanchecker")
        if first is not None:
            ctx.extra["leanchecker"] = first
