#!/bin/bash
# usage: harness/confirm_all.sh <prefix> Cxx [Cyy ...]  — confirm seeds 1..3 of each /tmp/m/Cxx; prefix "" or "r2-"
pre="$1"; shift
for p in "$@"; do for i in 1 2 3; do
  out=$(harness/confirm_seed.sh $p $i "${pre}$i" 2>&1)
  suite=$(echo "$out" | grep "suite with" | sed 's/suite with patch: //; s/ in [0-9.]*s.*FAILED lines: \([0-9]*\))/ F=\1/' | cut -c1-40)
  demo=$(echo "$out" | grep "demo with" | sed 's/demo with patch exit=\([0-9]*\), without exit=\([0-9]*\)/demo \1\/\2/')
  rc=$(echo "$out" | grep "^== " | tr '\n' ' ')
  nv=$(echo "$out" | grep -c "^VIOLATION")
  nf=$(echo "$out" | grep -c "no-failing-input-found")
  echo "$p-${pre}$i | $suite | $demo | $rc| violations=$nv nofail=$nf $(echo "$out" | grep -E 'does not apply|INFRA' | head -1)"
done; done
