"""C17 extractor: the arithmetic of `PSDImage._merged_planes` / `PSDImage.save` and the call they make into the
compositor -> Generated/MergedPixels.lean.

Read from the AST of the current working tree on every run:
  * api/psd_image.py `PSDImage.save`: the guard around the regeneration, what is done under it, whether the
    structural-edit flag is assigned; `PSDImage.viewbox`;
    `PSDImage._merged_planes`: the `scale` dict, the guard of the early `return None` (supported depths / modes) and
    every other `return None`, the nested `plane()` statement by statement (dtype / rounding / clip / scale), the call
    of `composite` with its arguments and the names its result is bound to, the transparency test, the flattening
    guard and statement (which array weighs the colour), the fallback for an unreadable old image, the colour loop,
    the transparency plane, every `constant - x` in the function (a colour inversion would be one), and the headers of
    the top-level statements (so that an inserted statement is seen);
  * composite/__init__.py `composite`: the defaults of its parameters, the default viewport of a document, the
    branch for a document without layers, the default layer filter, the `Compositor(...)` call and `isolated`.
Anything not found is written as the sentinel `<not found>` (numbers: an empty table): the file is ALWAYS written, the
tying theorems of Props/C17.lean (`merged_pixels_tied`, `composite_call_tied`, `save_tied`) then fail - a broken tie
(VIOLATION), never an infrastructure error.
"""
from __future__ import annotations

import ast

from core import REPO
from extract import lean_str

API = REPO / "src" / "psd_tools" / "api" / "psd_image.py"
COMP = REPO / "src" / "psd_tools" / "composite" / "__init__.py"
MISSING = "<not found>"


def _method(tree, cls, name):
    for n in ast.walk(tree):
        if isinstance(n, ast.ClassDef) and n.name == cls:
            for m in n.body:
                if isinstance(m, ast.FunctionDef) and m.name == name:
                    return m
    return None


def _function(tree, name):
    for n in tree.body:
        if isinstance(n, ast.FunctionDef) and n.name == name:
            return n
    return None


def _body(fn):
    """statements without the docstring and the local imports"""
    return [st for st in fn.body
            if not (isinstance(st, ast.Expr) and isinstance(st.value, ast.Constant))
            and not isinstance(st, (ast.Import, ast.ImportFrom))]


def _head(st):
    """first line of a statement (`if test:`, `for x in y:`, `def f(...)`, or the whole simple statement)"""
    return ast.unparse(st).split("\n")[0]


def _flat(stmts):
    """one line per simple statement; compound statements as `head { ... }`"""
    out = []
    for st in stmts:
        if isinstance(st, ast.If):
            out.append("if %s: { %s }" % (ast.unparse(st.test), "; ".join(_flat(st.body)))
                       + (" else { %s }" % "; ".join(_flat(st.orelse)) if st.orelse else ""))
        elif isinstance(st, ast.For):
            out.append("for %s in %s: { %s }" % (ast.unparse(st.target), ast.unparse(st.iter), "; ".join(_flat(st.body))))
        elif isinstance(st, ast.Try):
            out.append("try: { %s } %s" % ("; ".join(_flat(st.body)), " ".join(
                "except %s: { %s }" % (ast.unparse(h.type) if h.type else "", "; ".join(_flat(h.body))) for h in st.handlers)))
        else:
            out.append(ast.unparse(st))
    return out


def read_merged_planes():
    info = {"scale": [], "guard": MISSING, "supported_modes": [MISSING], "none_returns": [MISSING], "plane": [MISSING],
            "composite_call": MISSING, "composite_targets": [MISSING], "n_expr": MISSING, "transparency": MISSING,
            "flatten_guard": MISSING, "flatten_stmt": MISSING, "old_planes": MISSING, "colour_loop": MISSING,
            "alpha_store": MISSING, "returns": MISSING, "const_minus": [MISSING], "top_level": [MISSING]}
    tree = ast.parse(API.read_text())
    fn = _method(tree, "PSDImage", "_merged_planes")
    if fn is None:
        return info
    body = _body(fn)
    info["top_level"] = [_head(st) for st in body]
    for st in body:
        if isinstance(st, ast.Assign) and len(st.targets) == 1:
            tgt = ast.unparse(st.targets[0])
            if tgt == "scale" and isinstance(st.value, ast.Dict):
                tab = []
                for k, v in zip(st.value.keys, st.value.values):
                    if isinstance(k, ast.Constant) and isinstance(k.value, int) and isinstance(v, ast.Constant) \
                            and (v.value is None or isinstance(v.value, int)):
                        tab.append((k.value, v.value))
                    else:
                        tab = []
                        break
                info["scale"] = tab
            elif tgt == "n":
                info["n_expr"] = ast.unparse(st.value)
            elif tgt == "transparency":
                info["transparency"] = ast.unparse(st.value)
            elif isinstance(st.value, ast.Call) and ast.unparse(st.value.func) == "composite":
                info["composite_call"] = ast.unparse(st.value)
                t = st.targets[0]
                info["composite_targets"] = [ast.unparse(e) for e in t.elts] if isinstance(t, ast.Tuple) else [ast.unparse(t)]
        elif isinstance(st, ast.FunctionDef) and st.name == "plane":
            info["plane"] = _flat(_body(st))
        elif isinstance(st, ast.If):
            flat_body = _flat(st.body)
            if flat_body == ["color = color * alpha + (1.0 - alpha)"] or any(x.startswith("color =") for x in flat_body):
                info["flatten_guard"] = ast.unparse(st.test)
                info["flatten_stmt"] = "; ".join(flat_body)
            elif ast.unparse(st.test) == "transparency":
                info["alpha_store"] = "; ".join(flat_body)
        elif isinstance(st, ast.Try):
            info["old_planes"] = _flat([st])[0]
        elif isinstance(st, ast.For):
            info["colour_loop"] = _flat([st])[0]
        elif isinstance(st, ast.Return):
            info["returns"] = ast.unparse(st.value) if st.value is not None else "None"
    # every `return None` of the function proper (not of the nested `plane`), with the test guarding it
    nones = []
    for st in body:
        if isinstance(st, ast.If):
            for sub in ast.walk(st):
                if isinstance(sub, ast.Return) and (sub.value is None or (isinstance(sub.value, ast.Constant) and sub.value.value is None)):
                    nones.append(ast.unparse(st.test))
    info["none_returns"] = nones
    if nones:
        info["guard"] = nones[0]
        first = [st for st in body if isinstance(st, ast.If) and ast.unparse(st.test) == nones[0]][0]
        modes = []
        for sub in ast.walk(first.test):
            if isinstance(sub, ast.Attribute) and isinstance(sub.value, ast.Name) and sub.value.id == "ColorMode":
                modes.append((sub.lineno, sub.col_offset, sub.attr))
        info["supported_modes"] = [m for _, _, m in sorted(modes)]
    subs = []
    for sub in ast.walk(fn):
        if isinstance(sub, ast.BinOp) and isinstance(sub.op, ast.Sub) and isinstance(sub.left, ast.Constant):
            subs.append((sub.lineno, sub.col_offset, ast.unparse(sub)))
    info["const_minus"] = [s for _, _, s in sorted(subs)]
    return info


def read_save():
    info = {"guard": MISSING, "steps": [MISSING], "assigns_flag": True, "viewbox": MISSING, "box_parts": [(MISSING, MISSING)]}
    tree = ast.parse(API.read_text())
    sv = _method(tree, "PSDImage", "save")
    if sv is not None:
        for st in _body(sv):
            if isinstance(st, ast.If) and "_merged_planes" in ast.unparse(st):
                info["guard"] = ast.unparse(st.test)
                info["steps"] = _flat(st.body)
        info["assigns_flag"] = any(
            isinstance(n, (ast.Assign, ast.AugAssign, ast.AnnAssign)) and "_updated_layers" in ast.unparse(
                n.targets[0] if isinstance(n, ast.Assign) else n.target) for n in ast.walk(sv))
    def ret_of(name):
        m = _method(tree, "PSDImage", name)
        if m is not None:
            rets = [st for st in _body(m) if isinstance(st, ast.Return) and st.value is not None]
            if len(rets) == 1 and len(_body(m)) == 1:
                return ast.unparse(rets[0].value)
        return MISSING
    info["viewbox"] = ret_of("viewbox")
    info["box_parts"] = [(k, ret_of(k)) for k in ("left", "top", "right", "bottom", "width", "height")]
    return info


def read_composite():
    info = {"defaults": [(MISSING, MISSING)], "viewport_default": MISSING, "empty_doc": MISSING, "filter_default": MISSING,
            "compositor_call": MISSING, "isolated": MISSING, "loop": MISSING, "returns": MISSING}
    tree = ast.parse(COMP.read_text())
    fn = _function(tree, "composite")
    if fn is None:
        return info
    args = fn.args.args
    defaults = [None] * (len(args) - len(fn.args.defaults)) + list(fn.args.defaults)
    info["defaults"] = [(a.arg, ast.unparse(d)) for a, d in zip(args, defaults) if d is not None]
    body = _body(fn)
    for st in body:
        if isinstance(st, ast.If) and ast.unparse(st.test) == "viewport is None":
            for sub in st.body:
                if isinstance(sub, ast.If) and ast.unparse(sub.test) == "isinstance(group, PSDImage)":
                    info["viewport_default"] = "; ".join(_flat(sub.body))
        elif isinstance(st, ast.If) and "len(group) == 0" in ast.unparse(st.test):
            info["empty_doc"] = _flat([st])[0]
        elif isinstance(st, ast.Assign) and ast.unparse(st.targets[0]) == "layer_filter":
            info["filter_default"] = ast.unparse(st.value)
        elif isinstance(st, ast.Assign) and ast.unparse(st.targets[0]) == "compositor":
            info["compositor_call"] = ast.unparse(st.value)
        elif isinstance(st, ast.Assign) and ast.unparse(st.targets[0]) == "isolated":
            info["isolated"] = ast.unparse(st.value)
        elif isinstance(st, ast.If) and ast.unparse(st.test) == "not isinstance(group, PSDImage)" and \
                any("isolated" in x for x in _flat(st.body)):
            info["isolated"] += "; " + _flat([st])[0]
        elif isinstance(st, ast.For):
            info["loop"] = _flat([st])[0]
        elif isinstance(st, ast.Return):
            info["returns"] = ast.unparse(st.value)
    return info


def gen_merged_pixels(ctx):
    notes = []
    try:
        mp = read_merged_planes()
    except Exception as e:  # noqa  (unparsable source: everything is the sentinel)
        mp, notes = None, [f"_merged_planes: {type(e).__name__}: {e}"]
    try:
        sv = read_save()
    except Exception as e:  # noqa
        sv = None
        notes.append(f"save: {type(e).__name__}: {e}")
    try:
        cp = read_composite()
    except Exception as e:  # noqa
        cp = None
        notes.append(f"composite: {type(e).__name__}: {e}")
    if mp is None:
        mp = {"scale": [], "guard": MISSING, "supported_modes": [MISSING], "none_returns": [MISSING], "plane": [MISSING],
              "composite_call": MISSING, "composite_targets": [MISSING], "n_expr": MISSING, "transparency": MISSING,
              "flatten_guard": MISSING, "flatten_stmt": MISSING, "old_planes": MISSING, "colour_loop": MISSING,
              "alpha_store": MISSING, "returns": MISSING, "const_minus": [MISSING], "top_level": [MISSING]}
    if sv is None:
        sv = {"guard": MISSING, "steps": [MISSING], "assigns_flag": True, "viewbox": MISSING, "box_parts": [(MISSING, MISSING)]}
    if cp is None:
        cp = {"defaults": [(MISSING, MISSING)], "viewport_default": MISSING, "empty_doc": MISSING, "filter_default": MISSING,
              "compositor_call": MISSING, "isolated": MISSING, "loop": MISSING, "returns": MISSING}

    def strs(xs):
        return "[" + ", ".join(lean_str(x) for x in xs) + "]"

    def opt(v):
        return "none" if v is None else f"some {v}"

    scale = "[" + ", ".join(f"({k}, {opt(v)})" for k, v in mp["scale"]) + "]"
    def pairs(xs):
        return "[" + ", ".join(f"({lean_str(a)}, {lean_str(d)})" for a, d in xs) + "]"

    defaults = pairs(cp["defaults"])
    src = (
        "\nnamespace PsdVerif.Generated.MergedPixels\n\n"
        "/-! `PSDImage._merged_planes` -/\n\n"
        f"/-- the dict `scale` -/\ndef scaleTable : List (Nat × Option Nat) := {scale}\n"
        f"/-- test of the first `return None` (depths / modes that are not regenerated) … -/\ndef guard : String := {lean_str(mp['guard'])}\n"
        f"/-- … the colour modes it names … -/\ndef supportedModes : List String := {strs(mp['supported_modes'])}\n"
        f"/-- … and the tests of ALL the `return None` of the function -/\ndef noneReturns : List String := {strs(mp['none_returns'])}\n"
        f"/-- the nested `plane(values)`, statement by statement -/\ndef planeBody : List String := {strs(mp['plane'])}\n"
        f"/-- the call into the compositor and the names its result is bound to -/\n"
        f"def compositeCall : String := {lean_str(mp['composite_call'])}\n"
        f"def compositeTargets : List String := {strs(mp['composite_targets'])}\n"
        f"/-- `n`, `transparency` -/\ndef nExpr : String := {lean_str(mp['n_expr'])}\n"
        f"def transparencyExpr : String := {lean_str(mp['transparency'])}\n"
        f"/-- flattening on white: guard and statement -/\ndef flattenGuard : String := {lean_str(mp['flatten_guard'])}\n"
        f"def flattenStmt : String := {lean_str(mp['flatten_stmt'])}\n"
        f"/-- the planes that are there, or their replacement -/\ndef oldPlanes : String := {lean_str(mp['old_planes'])}\n"
        f"/-- the colour planes, the transparency plane, the value returned -/\ndef colourLoop : String := {lean_str(mp['colour_loop'])}\n"
        f"def alphaStore : String := {lean_str(mp['alpha_store'])}\n"
        f"def returns : String := {lean_str(mp['returns'])}\n"
        f"/-- every `constant - x` of the function (a colour inversion would be one) -/\ndef constMinus : List String := {strs(mp['const_minus'])}\n"
        f"/-- heads of the top-level statements -/\ndef topLevel : List String := {strs(mp['top_level'])}\n\n"
        "/-! `PSDImage.save`, `PSDImage.viewbox` -/\n\n"
        f"def saveGuard : String := {lean_str(sv['guard'])}\n"
        f"def saveSteps : List String := {strs(sv['steps'])}\n"
        f"/-- does `save` assign `_updated_layers` -/\ndef saveAssignsFlag : Bool := {'true' if sv['assigns_flag'] else 'false'}\n"
        f"def viewbox : String := {lean_str(sv['viewbox'])}\n"
        f"/-- the properties it is made of, for a `PSDImage` -/\ndef boxParts : List (String × String) := {pairs(sv['box_parts'])}\n\n"
        "/-! `psd_tools.composite.composite` -/\n\n"
        f"def compositeDefaults : List (String × String) := {defaults}\n"
        f"def viewportDefault : String := {lean_str(cp['viewport_default'])}\n"
        f"def emptyDocument : String := {lean_str(cp['empty_doc'])}\n"
        f"def filterDefault : String := {lean_str(cp['filter_default'])}\n"
        f"def isolated : String := {lean_str(cp['isolated'])}\n"
        f"def compositorCall : String := {lean_str(cp['compositor_call'])}\n"
        f"def compositeLoop : String := {lean_str(cp['loop'])}\n"
        f"def compositeReturns : String := {lean_str(cp['returns'])}\n\n"
        "end PsdVerif.Generated.MergedPixels\n"
    )
    ctx.write_generated("MergedPixels", src)
    for n in notes:
        ctx.notes.append("extract_c17: " + n + " (sentinels written)")
    missing = [k for d in (mp, sv, cp) for k, v in d.items() if v == MISSING or v == [MISSING] or v == [(MISSING, MISSING)]]
    if missing:
        ctx.notes.append("extract_c17: not found in the current source (sentinel written, the tie fails): " + ", ".join(missing))
    return {"merged_planes": mp, "save": sv, "composite": cp}
