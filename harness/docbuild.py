"""Synthetic documents: build `psd_tools.psd.PSD` structures and `PSDImage`s programmatically.

Shared by the tree properties (C08, C15; meant to be reused by C09/C10/C14/C16).
Nothing here reads a fixture; a document is described by a *recipe*, a JSON-able list of
record specs in file order (bottom of the layer stack first):

    {"t": "leaf",  "keys": ["TYPE_TOOL_OBJECT_SETTING", ...], "clip": bool, "pdi": bool,
                   "blend": "NORMAL", "name": "...", "flags": {"visible": false, ...},   # any LayerFlags field
                   "nch": 4}                                         # number of channels of the record (any spec; 0 = empty list)
    {"t": "bound", "via": "sds"|"nsds"|"both"}                       # BOUNDING_SECTION_DIVIDER record
    {"t": "close", "folder": "open"|"closed", "via": "sds"|"nsds"|"both"|"nsds-over-other",
                   "artboard": [] | ["ARTBOARD_DATA1", ...], "clip": bool,
                   "blend": "PASS_THROUGH"|..., "keys": [...]}       # group record (OPEN/CLOSED_FOLDER)
    any spec may carry "sds": <kind name or None>, "nsds": <kind name or None> explicitly instead of "via".

`nested(...)` turns a nested-list description into such a recipe, `build(recipe)` makes
(records, channels) object lists, `make_psd` wraps them in a PSD, `make_image` opens it with
the real `PSDImage` constructor (which runs `_init`).
"""
from __future__ import annotations

import core  # noqa: F401  (puts REPO/src on sys.path)

from psd_tools.api.psd_image import PSDImage
from psd_tools.constants import BlendMode, Clipping, Compression, SectionDivider, Tag
from psd_tools.psd import PSD
from psd_tools.psd.header import FileHeader
from psd_tools.psd.image_data import ImageData
from psd_tools.psd.image_resources import ImageResources
from psd_tools.psd.layer_and_mask import (
    ChannelData, ChannelDataList, ChannelImageData, ChannelInfo, LayerAndMaskInformation,
    LayerFlags, LayerInfo, LayerRecord, LayerRecords,
)
from psd_tools.psd.tagged_blocks import TYPES as BLOCK_TYPES, SectionDividerSetting, TaggedBlock, TaggedBlocks

DIV = {"OTHER": SectionDivider.OTHER, "OPEN_FOLDER": SectionDivider.OPEN_FOLDER,
       "CLOSED_FOLDER": SectionDivider.CLOSED_FOLDER,
       "BOUNDING_SECTION_DIVIDER": SectionDivider.BOUNDING_SECTION_DIVIDER}


def block_data(key: Tag):
    """A payload for a tagged block whose mere presence matters (default-constructed data
    class when that works and serialises, else 4 zero bytes)."""
    kls = BLOCK_TYPES.get(key)
    if kls is not None:
        try:
            d = kls()
            d.tobytes()
            return d
        except Exception:
            pass
    return b"\x00\x00\x00\x00"


def _divider_fields(spec):
    """(sds kind name | None, nsds kind name | None) of a record spec."""
    if "sds" in spec or "nsds" in spec:
        return spec.get("sds"), spec.get("nsds")
    t = spec["t"]
    if t == "leaf":
        return None, None
    kind = "BOUNDING_SECTION_DIVIDER" if t == "bound" else (
        "OPEN_FOLDER" if spec.get("folder", "open") == "open" else "CLOSED_FOLDER")
    via = spec.get("via", "sds")
    if via == "sds":
        return kind, None
    if via == "nsds":
        return None, kind
    if via == "both":
        return kind, kind
    if via == "nsds-over-other":      # lsct says OTHER, lsdk carries the real kind (overrides)
        return "OTHER", kind
    raise ValueError(via)


def make_record(spec, index=0):
    """One (LayerRecord, ChannelDataList) pair from a record spec."""
    name = spec.get("name") or "%s%d" % (spec["t"], index)
    rec = LayerRecord(top=0, left=0, bottom=0, right=0, name=name)
    rec.tagged_blocks = TaggedBlocks()
    sds, nsds = _divider_fields(spec)
    blend = BlendMode[spec.get("blend", "NORMAL")]
    if sds is not None:
        # like Photoshop: the group's real blend mode lives in the divider block
        rec.tagged_blocks[Tag.SECTION_DIVIDER_SETTING] = TaggedBlock(
            key=Tag.SECTION_DIVIDER_SETTING,
            data=SectionDividerSetting(DIV[sds], signature=b"8BIM", blend_mode=blend))
        rec.blend_mode = BlendMode.NORMAL if blend == BlendMode.PASS_THROUGH else blend
    else:
        rec.blend_mode = blend
    if "rec_blend" in spec:
        # the blend key of the layer RECORD given explicitly (Photoshop writes 'pass' both in the record of a
        # pass-through group and in its divider block; psd-tools writes 'norm' in the record)
        rec.blend_mode = BlendMode[spec["rec_blend"]]
    if nsds is not None:
        rec.tagged_blocks[Tag.NESTED_SECTION_DIVIDER_SETTING] = TaggedBlock(
            key=Tag.NESTED_SECTION_DIVIDER_SETTING,
            data=SectionDividerSetting(DIV[nsds], signature=b"8BIM", blend_mode=blend))
    for k in list(spec.get("keys", ())) + list(spec.get("artboard", ())):
        key = Tag[k]
        rec.tagged_blocks[key] = TaggedBlock(key=key, data=block_data(key))
    rec.clipping = Clipping.NON_BASE if spec.get("clip") else Clipping.BASE
    rec.flags = LayerFlags(pixel_data_irrelevant=bool(spec.get("pdi")))
    for fname, fval in (spec.get("flags") or {}).items():
        if hasattr(rec.flags, fname):           # a renamed flag is simply not set (the caller compares with the table)
            setattr(rec.flags, fname, bool(fval))
    nch = int(spec.get("nch", 4))
    rec.channel_info = [ChannelInfo(id=i - 1, length=2) for i in range(nch)]
    ch = ChannelDataList()
    for _ in range(nch):
        ch.append(ChannelData(compression=Compression.RAW, data=b""))
    return rec, ch


def build(recipe):
    """recipe -> (list of LayerRecord, list of ChannelDataList), fresh objects."""
    recs, chans = [], []
    for i, spec in enumerate(recipe):
        r, c = make_record(spec, i)
        recs.append(r)
        chans.append(c)
    return recs, chans


def make_psd(recs, chans, size=(4, 4), depth=8, mode="RGB", layer_count=None) -> PSD:
    header = PSDImage._make_header(mode, size, depth)
    info = LayerInfo(layer_count=len(recs) if layer_count is None else layer_count,
                     layer_records=LayerRecords(recs), channel_image_data=ChannelImageData(chans))
    return PSD(header=header, image_data=ImageData.new(header), image_resources=ImageResources.new(),
               layer_and_mask_information=LayerAndMaskInformation(layer_info=info))


def make_image(recipe, **kw):
    """recipe -> (PSDImage, records, channels); the constructor runs the real `_init`."""
    recs, chans = build(recipe)
    return PSDImage(make_psd(recs, chans, **kw)), recs, chans


# ---- nested descriptions ---------------------------------------------------------------
def nested(tree, **group_defaults):
    """Nested description -> recipe. `tree` is a list of nodes, bottom first; a node is
      {"keys": [...], "clip": b, ...}                      a leaf (any leaf-spec fields), or
      {"g": [children], "clip": b, "blend": ..., "folder": ..., "via": ..., "artboard": [...]}  a group.
    """
    out = []
    for n in tree:
        if "g" in n:
            d = {k: v for k, v in n.items() if k != "g"}
            for k, v in group_defaults.items():
                d.setdefault(k, v)
            bvia = d.pop("bvia", d.get("via", "sds"))
            bnch = d.pop("bnch", None)            # number of channels of the bounding-divider record ("nch": of the group record)
            bound = {"t": "bound", "via": bvia if bvia != "nsds-over-other" else "sds"}
            if bnch is not None:
                bound["nch"] = bnch
            out.append(bound)
            out += nested(n["g"], **group_defaults)
            out.append(dict(d, t="close"))
        else:
            out.append(dict(n, t="leaf"))
    return out


# ---- observations on the real object graph -----------------------------------------------
def shape_of(group, ids):
    """Tree shape of the real object graph with records replaced by harness ids.
    ids: dict id(record) -> index. Leaves: ["L", rec]; groups: ["G"|"A", close, bound, [children]]."""
    from psd_tools.api.layers import Artboard, Group
    out = []
    for l in group:
        if isinstance(l, Group):
            out.append(["A" if isinstance(l, Artboard) else "G",
                        ids.get(id(l._record), -1), ids.get(id(l._bounding_record), -1), shape_of(l, ids)])
        else:
            out.append(["L", ids.get(id(l._record), -1)])
    return out


def walk(group):
    """All layers of the real tree in pre-order, following `_layers` only (no clip_layers)."""
    for l in group._layers:
        yield l
        if hasattr(l, "_layers"):
            yield from walk(l)


# ---- artboards ------------------------------------------------------------------------------
def artboard_block(rect):
    """An ARTBOARD_DATA1 tagged block with a real `artboardRect` (left, top, right, bottom), the
    way Photoshop writes it (descriptor class `artboard`, rectangle of doubles)."""
    from psd_tools.psd.descriptor import Descriptor, DescriptorBlock, Double, List, String
    l, t, r, b = rect
    rc = Descriptor(classID=b"classFloatRect")
    for k, v in ((b"Top ", t), (b"Left", l), (b"Btom", b), (b"Rght", r)):
        rc[k] = Double(float(v))
    d = DescriptorBlock(classID=b"artboard", version=16)
    d[b"artboardRect"] = rc
    d[b"guideIndeces"] = List()
    d[b"artboardPresetName"] = String("")
    return TaggedBlock(key=Tag.ARTBOARD_DATA1, data=d)


def make_artboard(group, rect):
    """Give an API-built group the artboard block: the reader (`PSDImage._init`) types such a
    group record as `Artboard` when the document is saved and opened again."""
    group._record.tagged_blocks[Tag.ARTBOARD_DATA1] = artboard_block(rect)
    return group
