"""C19 translator: facts about string storage read from the working tree (and the codec
tables of the running Python) -> lean/PsdVerif/Generated/Strings.lean.

* every call site of the four string primitives with its literal `encoding` / `padding`
  arguments (AST walk over src/psd_tools/**/*.py): the theorems' `pad ≠ 0` hypothesis is
  discharged for every call site by a `decide` theorem over this table;
* the constants of the `Layer.name` setter (test encoding, fallback string, length bound);
* the 256-entry decoding tables of the single-byte codecs used for the legacy fields.
"""
from __future__ import annotations

import ast
import codecs
from pathlib import Path

from core import REPO, Infra
from extract import lean_nat_list, lean_str

SRC = REPO / "src" / "psd_tools"
PRIMS = ("read_pascal_string", "write_pascal_string", "read_unicode_string", "write_unicode_string")
# positional parameter order after `fp` (and `value` for writers)
DEFAULTS = {"pascal": {"encoding": "macroman", "padding": 2}, "unicode": {"padding": 1}}


def _lit(node):
    if isinstance(node, ast.Constant):
        return node.value
    return None


def call_sites():
    """[(module, scope, prim, encoding, padding)]; encoding is a literal name, 'param' when it
    is passed through from the caller, '' for unicode strings; padding likewise (0 = 'param')."""
    out = []
    for f in sorted(SRC.rglob("*.py")):
        tree = ast.parse(f.read_text())
        mod = str(f.relative_to(SRC))
        if mod == "utils.py":
            continue
        scopes = []

        class V(ast.NodeVisitor):
            def visit_ClassDef(self, n):
                scopes.append(n.name); self.generic_visit(n); scopes.pop()

            def visit_FunctionDef(self, n):
                scopes.append(n.name); self.generic_visit(n); scopes.pop()

            def visit_Call(self, n):
                name = n.func.id if isinstance(n.func, ast.Name) else None
                if name in PRIMS:
                    kind = "pascal" if "pascal" in name else "unicode"
                    writer = name.startswith("write")
                    params = (["fp", "value"] if writer else ["fp"]) + list(DEFAULTS[kind])
                    got = {}
                    for k, a in enumerate(n.args):
                        if k < len(params):
                            got[params[k]] = a
                    for kw in n.keywords:
                        got[kw.arg] = kw.value
                    enc = ""
                    if kind == "pascal":
                        enc = DEFAULTS[kind]["encoding"] if "encoding" not in got else (_lit(got["encoding"]) or "param")
                    pad = DEFAULTS[kind]["padding"] if "padding" not in got else _lit(got["padding"])
                    if pad is None:
                        pad = 0  # passed through
                    out.append((mod, ".".join(scopes), name, enc, int(pad)))
                self.generic_visit(n)

        V().visit(tree)
    return out


def name_setter_constants():
    tree = ast.parse((SRC / "api" / "layers.py").read_text())
    for node in ast.walk(tree):
        if isinstance(node, ast.FunctionDef) and node.name == "name":
            decos = [ast.unparse(d) for d in node.decorator_list]
            if "name.setter" not in decos:
                continue
            enc = fallback = bound = None
            for n in ast.walk(node):
                if isinstance(n, ast.Call) and isinstance(n.func, ast.Attribute) and n.func.attr == "encode" and n.args:
                    enc = _lit(n.args[0])
                if isinstance(n, ast.Assert) and isinstance(n.test, ast.Compare) and isinstance(n.test.ops[0], ast.Lt):
                    bound = _lit(n.test.comparators[0])
                if isinstance(n, ast.ExceptHandler):
                    for m in ast.walk(n):
                        if isinstance(m, ast.Call) and isinstance(m.func, ast.Name) and m.func.id == "str" and m.args:
                            fallback = _lit(m.args[0])
                        elif isinstance(m, ast.Assign) and isinstance(m.value, ast.Constant) and isinstance(m.value.value, str):
                            fallback = m.value.value
            if enc is None or fallback is None or bound is None:
                raise Infra("api/layers.py: name setter no longer has the shape the C19 model assumes "
                            f"(encoding={enc!r}, fallback={fallback!r}, bound={bound!r})")
            return enc, fallback, int(bound)
    raise Infra("api/layers.py: name setter not found")


def legacy_name_constants():
    """`LayerRecord._legacy_name`: fallback string and byte bound, or None when the method is absent."""
    tree = ast.parse((SRC / "psd" / "layer_and_mask.py").read_text())
    for node in ast.walk(tree):
        if isinstance(node, ast.FunctionDef) and node.name == "_legacy_name":
            strs = sorted({n.value for n in ast.walk(node) if isinstance(n, ast.Return) and isinstance(n.value, ast.Constant)
                           for n in [n.value] if isinstance(n.value, str)})
            ints = sorted({n.value for n in ast.walk(node) if isinstance(n, ast.Constant) and isinstance(n.value, int)
                           and not isinstance(n.value, bool)})
            return strs, ints
    return None


def charmap_table(name: str):
    t = []
    for i in range(256):
        try:
            t.append(ord(bytes([i]).decode(name)))
        except UnicodeDecodeError:
            t.append(0x110000)  # undefined byte: no character has this number
    return t


def canon(enc: str) -> str:
    try:
        return codecs.lookup(enc).name
    except LookupError:
        return enc


def gen_strings(ctx):
    sites = call_sites()
    enc, fallback, bound = name_setter_constants()
    leg = legacy_name_constants()
    lines = ["namespace PsdVerif.Generated.Strings", ""]
    lines.append("/-- (module, scope, primitive, encoding literal | \"param\" | \"\", padding literal | 0 = passed through) -/")
    lines.append("def sites : List (String × String × String × String × Nat) := [")
    lines.append(",\n".join(f"  ({lean_str(m)}, {lean_str(s)}, {lean_str(p)}, {lean_str(canon(e) if e not in ('', 'param') else e)}, {pad})"
                            for m, s, p, e, pad in sites))
    lines.append("]")
    lines.append("")
    lines.append(f"/-- `Layer.name` setter: encoding tested, fallback string, exclusive bound on len(value) -/")
    lines.append(f"def nameTestEncoding : String := {lean_str(canon(enc))}")
    lines.append(f"def nameFallback : List Nat := {lean_nat_list([ord(c) for c in fallback])}")
    lines.append(f"def nameBound : Nat := {bound}")
    lines.append("/-- `LayerRecord._legacy_name`: fallback strings returned and integer constants (empty when the method is absent) -/")
    lines.append("def legacyFallbacks : List (List Nat) := [" + ", ".join(lean_nat_list([ord(c) for c in s]) for s in (leg[0] if leg else [])) + "]")
    lines.append("def legacyBounds : List Nat := " + lean_nat_list(leg[1] if leg else []))
    lines.append("")
    for nm, codec in (("macRoman", "mac_roman"), ("macCyrillic", "mac_cyrillic")):
        lines.append(f"/-- `bytes([i]).decode('{codec}')` for i in 0..255 (0x110000 = undefined) -/")
        lines.append(f"def {nm}Table : List Nat := {lean_nat_list(charmap_table(codec))}")
    lines.append("")
    lines.append("end PsdVerif.Generated.Strings")
    ctx.write_generated("Strings", "\n".join(lines) + "\n")
    return {"sites": len(sites), "nameTestEncoding": canon(enc), "nameFallback": fallback, "nameBound": bound,
            "legacy_name": leg, "site_list": [list(s) for s in sites]}
