"""C19 translator: facts about string storage read from the working tree (and the codec
tables of the running Python) -> lean/PsdVerif/Generated/Strings.lean.

* every call site of the four string primitives with its literal `encoding` / `padding`
  arguments (AST walk over src/psd_tools/**/*.py): the theorems' `pad ≠ 0` hypothesis is
  discharged for every call site by a `decide` theorem over this table;
* the constants of the `Layer.name` setter (test encoding, fallback string, length bound);
* the 256-entry decoding tables of the single-byte codecs used for the legacy fields.
"""
from __future__ import annotations

import ast
import codecs
from pathlib import Path

from core import REPO, Infra
from extract import lean_nat_list, lean_str

SRC = REPO / "src" / "psd_tools"
PRIMS = ("read_pascal_string", "write_pascal_string", "read_unicode_string", "write_unicode_string")
# positional parameter order after `fp` (and `value` for writers)
DEFAULTS = {"pascal": {"encoding": "macroman", "padding": 2}, "unicode": {"padding": 1}}


def _lit(node):
    if isinstance(node, ast.Constant):
        return node.value
    return None


def call_sites():
    """[(module, scope, prim, encoding, padding)]; encoding is a literal name, 'param' when it
    is passed through from the caller, '' for unicode strings; padding likewise (0 = 'param')."""
    out = []
    for f in sorted(SRC.rglob("*.py")):
        tree = ast.parse(f.read_text())
        mod = str(f.relative_to(SRC))
        if mod == "utils.py":
            continue
        scopes = []

        class V(ast.NodeVisitor):
            def visit_ClassDef(self, n):
                scopes.append(n.name); self.generic_visit(n); scopes.pop()

            def visit_FunctionDef(self, n):
                scopes.append(n.name); self.generic_visit(n); scopes.pop()

            def visit_Call(self, n):
                name = n.func.id if isinstance(n.func, ast.Name) else None
                if name in PRIMS:
                    kind = "pascal" if "pascal" in name else "unicode"
                    writer = name.startswith("write")
                    params = (["fp", "value"] if writer else ["fp"]) + list(DEFAULTS[kind])
                    got = {}
                    for k, a in enumerate(n.args):
                        if k < len(params):
                            got[params[k]] = a
                    for kw in n.keywords:
                        got[kw.arg] = kw.value
                    enc = ""
                    if kind == "pascal":
                        enc = DEFAULTS[kind]["encoding"] if "encoding" not in got else (_lit(got["encoding"]) or "param")
                    pad = DEFAULTS[kind]["padding"] if "padding" not in got else _lit(got["padding"])
                    if pad is None:
                        pad = 0  # passed through
                    out.append((mod, ".".join(scopes), name, enc, int(pad)))
                self.generic_visit(n)

        V().visit(tree)
    return out


def name_setter_constants():
    tree = ast.parse((SRC / "api" / "layers.py").read_text())
    for node in ast.walk(tree):
        if isinstance(node, ast.FunctionDef) and node.name == "name":
            decos = [ast.unparse(d) for d in node.decorator_list]
            if "name.setter" not in decos:
                continue
            enc = fallback = bound = None
            for n in ast.walk(node):
                if isinstance(n, ast.Call) and isinstance(n.func, ast.Attribute) and n.func.attr == "encode" and n.args:
                    enc = _lit(n.args[0])
                if isinstance(n, ast.Assert) and isinstance(n.test, ast.Compare) and isinstance(n.test.ops[0], ast.Lt):
                    bound = _lit(n.test.comparators[0])
                if isinstance(n, ast.ExceptHandler):
                    for m in ast.walk(n):
                        if isinstance(m, ast.Call) and isinstance(m.func, ast.Name) and m.func.id == "str" and m.args:
                            fallback = _lit(m.args[0])
                        elif isinstance(m, ast.Assign) and isinstance(m.value, ast.Constant) and isinstance(m.value.value, str):
                            fallback = m.value.value
            if enc is None or fallback is None or bound is None:
                raise Infra("api/layers.py: name setter no longer has the shape the C19 model assumes "
                            f"(encoding={enc!r}, fallback={fallback!r}, bound={bound!r})")
            return enc, fallback, int(bound)
    raise Infra("api/layers.py: name setter not found")


def legacy_name_constants():
    """`LayerRecord._legacy_name`: fallback string and byte bound, or None when the method is absent."""
    tree = ast.parse((SRC / "psd" / "layer_and_mask.py").read_text())
    for node in ast.walk(tree):
        if isinstance(node, ast.FunctionDef) and node.name == "_legacy_name":
            strs = sorted({n.value for n in ast.walk(node) if isinstance(n, ast.Return) and isinstance(n.value, ast.Constant)
                           for n in [n.value] if isinstance(n.value, str)})
            ints = sorted({n.value for n in ast.walk(node) if isinstance(n, ast.Constant) and isinstance(n.value, int)
                           and not isinstance(n.value, bool)})
            return strs, ints
    return None


def primitive_codecs():
    """How the four primitives of utils.py pick their codec: for each, the argument expressions of the one
    `.encode(...)` / `.decode(...)` call in its body and the parameters the body assigns to (a reader that
    rebinds `encoding` no longer decodes with the codec the writer encoded with).
    [(function, 'encode'|'decode'|'', [argument source, ...], [rebound parameter, ...])]"""
    tree = ast.parse((SRC / "utils.py").read_text())
    out = []
    for prim in PRIMS:
        fn = next((n for n in tree.body if isinstance(n, ast.FunctionDef) and n.name == prim), None)
        if fn is None:
            out.append((prim, "", [], ["<function not found>"]))
            continue
        params = {a.arg for a in fn.args.args + fn.args.kwonlyargs}
        calls = [n for n in ast.walk(fn) if isinstance(n, ast.Call) and isinstance(n.func, ast.Attribute)
                 and n.func.attr in ("encode", "decode")]
        rebound = set()
        for n in ast.walk(fn):
            targets = []
            if isinstance(n, ast.Assign):
                targets = n.targets
            elif isinstance(n, (ast.AugAssign, ast.AnnAssign)):
                targets = [n.target]
            elif isinstance(n, ast.NamedExpr):
                targets = [n.target]
            for t in targets:
                for m in ast.walk(t):
                    if isinstance(m, ast.Name) and m.id in params:
                        rebound.add(m.id)
        if len(calls) != 1:
            out.append((prim, "", [f"<{len(calls)} codec calls>"], sorted(rebound)))
            continue
        c = calls[0]
        args = [ast.unparse(a) for a in c.args] + [f"{k.arg}={ast.unparse(k.value)}" for k in c.keywords]
        out.append((prim, c.func.attr, args, sorted(rebound)))
    return out


def reader_uses():
    """What each call site does with the string a reader returns: 'assign' (bound to a name that the function
    does not bind again afterwards), 'assign-rebound' (the name is bound again later: the value read is post-processed),
    'argument' (passed straight to a constructor / append), 'return', or the source of the enclosing expression.
    [(module, scope, primitive, use)]"""
    out = []
    for f in sorted(SRC.rglob("*.py")):
        mod = str(f.relative_to(SRC))
        if mod == "utils.py":
            continue
        tree = ast.parse(f.read_text())
        parents = {}
        for n in ast.walk(tree):
            for c in ast.iter_child_nodes(n):
                parents[c] = n

        def scope_of(n):
            names = []
            while n in parents:
                n = parents[n]
                if isinstance(n, (ast.FunctionDef, ast.ClassDef)):
                    names.append(n.name)
            return ".".join(reversed(names))

        def func_of(n):
            while n in parents:
                n = parents[n]
                if isinstance(n, ast.FunctionDef):
                    return n
            return None

        for n in ast.walk(tree):
            if isinstance(n, ast.Call) and isinstance(n.func, ast.Name) and n.func.id in ("read_unicode_string", "read_pascal_string"):
                par = parents.get(n)
                if isinstance(par, ast.Assign) and len(par.targets) == 1 and isinstance(par.targets[0], ast.Name) and par.value is n:
                    var = par.targets[0].id
                    fn = func_of(n)
                    later = 0       # the name is bound again after the read: the value read is post-processed
                    for m in ast.walk(fn) if fn is not None else []:
                        if isinstance(m, ast.Name) and m.id == var and isinstance(m.ctx, ast.Store) and m.lineno > par.lineno:
                            later += 1
                    use = "assign" if later == 0 else "assign-rebound"
                elif isinstance(par, ast.Call) and n in par.args:
                    use = "argument"
                elif isinstance(par, ast.Return):
                    use = "return"
                else:
                    use = ast.unparse(par)[:80] if par is not None else "?"
                out.append((mod, scope_of(n), n.func.id, use))
    return out


def codec_pairs(sites):
    """Per element class: the codecs its reader call sites name, in order, against the writer's.
    [(module:scope with read/write blanked, [reader codecs], [writer codecs])]; a unicode primitive counts as 'utf-16'."""
    import re
    groups = {}
    for mod, scope, prim, enc, _pad in sites:
        key = mod + ":" + re.sub(r"(read|write)", "*", scope.rsplit(".", 1)[-1]).join([scope.rsplit(".", 1)[0] + ".", ""]) \
            if "." in scope else mod + ":" + re.sub(r"(read|write)", "*", scope)
        g = groups.setdefault(key, ([], []))
        codec = "utf-16" if "unicode" in prim else (canon(enc) if enc not in ("", "param") else enc)
        (g[0] if prim.startswith("read") else g[1]).append(codec)
    return [(k, r, w) for k, (r, w) in groups.items()]


def _walk_same_function(node):
    """ast.walk that does not descend into nested function / class definitions."""
    if isinstance(node, (ast.FunctionDef, ast.AsyncFunctionDef, ast.Lambda, ast.ClassDef)):
        return
    todo = [node]
    while todo:
        n = todo.pop()
        yield n
        for ch in ast.iter_child_nodes(n):
            if not isinstance(ch, (ast.FunctionDef, ast.AsyncFunctionDef, ast.Lambda, ast.ClassDef)):
                todo.append(ch)


def name_entry_points():
    """Every function of api/layers.py and api/psd_image.py that stores a caller-supplied string as a layer name
    (`LayerRecord(name=<parameter>)` or `<x>.name = <parameter>`), and whether it also stores the unicode layer
    name block for it - through `set_data(Tag.UNICODE_LAYER_NAME, <parameter>)` or through the `name` setter -
    unconditionally (a direct statement of the function body with no `return` anywhere before it), conditionally
    (inside if / try / loop), behind an early return, or not at all.
    [(scope, parameter, mechanism, guard)]"""
    out = []
    for rel in ("api/layers.py", "api/psd_image.py"):
        f = SRC / rel
        if not f.exists():
            continue
        tree = ast.parse(f.read_text())

        def visit(node, scopes):
            for ch in ast.iter_child_nodes(node):
                if isinstance(ch, ast.ClassDef):
                    visit(ch, scopes + [ch.name])
                elif isinstance(ch, ast.FunctionDef):
                    entry(ch, ".".join(scopes + [ch.name]))
                    visit(ch, scopes + [ch.name])

        def entry(fn, scope):
            params = {a.arg for a in fn.args.args + fn.args.kwonlyargs} - {"self", "cls"}
            named = set()
            record_vars, layer_vars = set(), {"self"}
            for n in ast.walk(fn):
                if isinstance(n, ast.Assign) and isinstance(n.value, ast.Call) and len(n.targets) == 1 and isinstance(n.targets[0], ast.Name):
                    callee = ast.unparse(n.value.func)
                    if callee.endswith("LayerRecord"):
                        record_vars.add(n.targets[0].id)
                    elif callee == "cls" or callee.startswith("cls."):
                        layer_vars.add(n.targets[0].id)
            for n in ast.walk(fn):
                if isinstance(n, ast.Call) and ast.unparse(n.func).endswith("LayerRecord"):
                    for kw in n.keywords:
                        if kw.arg == "name" and isinstance(kw.value, ast.Name) and kw.value.id in params:
                            named.add(kw.value.id)
                if isinstance(n, ast.Assign) and isinstance(n.value, ast.Name) and n.value.id in params:
                    for t in n.targets:
                        if isinstance(t, ast.Attribute) and t.attr == "name":
                            named.add(n.value.id)
            top = set(map(id, fn.body))
            for v in sorted(named):
                found = []
                for n in ast.walk(fn):
                    mech = None
                    if isinstance(n, ast.Expr) and isinstance(n.value, ast.Call) and isinstance(n.value.func, ast.Attribute) \
                            and n.value.func.attr == "set_data" and len(n.value.args) >= 2 \
                            and ast.unparse(n.value.args[0]).endswith("UNICODE_LAYER_NAME") \
                            and isinstance(n.value.args[1], ast.Name) and n.value.args[1].id == v:
                        mech = "set_data"
                    elif isinstance(n, ast.Assign) and isinstance(n.value, ast.Name) and n.value.id == v and len(n.targets) == 1 \
                            and isinstance(n.targets[0], ast.Attribute) and n.targets[0].attr == "name" \
                            and isinstance(n.targets[0].value, ast.Name) and n.targets[0].value.id in layer_vars \
                            and n.targets[0].value.id not in record_vars and fn.name != "name":
                        mech = "setter"
                    if mech:
                        guard = "always" if id(n) in top else "conditional"
                        if guard == "always":
                            # "a direct statement of the body" is reached on every call only when nothing before it
                            # leaves the function normally: an early `return` (an "unchanged, nothing to do" shortcut)
                            # in front of the store makes it conditional on whatever that shortcut compares
                            for prev in fn.body[:fn.body.index(n)]:
                                if any(isinstance(m, ast.Return) for m in _walk_same_function(prev)):
                                    guard = "early-return-before"
                        found.append((mech, guard))
                if not found:
                    out.append((scope, v, "none", "absent"))
                else:
                    best = sorted(found, key=lambda x: x[1])[0]     # 'always' sorts before 'conditional'
                    out.append((scope, v, best[0], best[1]))

        visit(tree, [])
    return out


def charmap_table(name: str):
    t = []
    for i in range(256):
        try:
            t.append(ord(bytes([i]).decode(name)))
        except UnicodeDecodeError:
            t.append(0x110000)  # undefined byte: no character has this number
    return t


def canon(enc: str) -> str:
    try:
        return codecs.lookup(enc).name
    except LookupError:
        return enc


def gen_strings(ctx):
    sites = call_sites()
    enc, fallback, bound = name_setter_constants()
    leg = legacy_name_constants()
    lines = ["namespace PsdVerif.Generated.Strings", ""]
    lines.append("/-- (module, scope, primitive, encoding literal | \"param\" | \"\", padding literal | 0 = passed through) -/")
    lines.append("def sites : List (String × String × String × String × Nat) := [")
    lines.append(",\n".join(f"  ({lean_str(m)}, {lean_str(s)}, {lean_str(p)}, {lean_str(canon(e) if e not in ('', 'param') else e)}, {pad})"
                            for m, s, p, e, pad in sites))
    lines.append("]")
    lines.append("")
    lines.append(f"/-- `Layer.name` setter: encoding tested, fallback string, exclusive bound on len(value) -/")
    lines.append(f"def nameTestEncoding : String := {lean_str(canon(enc))}")
    lines.append(f"def nameFallback : List Nat := {lean_nat_list([ord(c) for c in fallback])}")
    lines.append(f"def nameBound : Nat := {bound}")
    lines.append("/-- `LayerRecord._legacy_name`: fallback strings returned and integer constants (empty when the method is absent) -/")
    lines.append("def legacyFallbacks : List (List Nat) := [" + ", ".join(lean_nat_list([ord(c) for c in s]) for s in (leg[0] if leg else [])) + "]")
    lines.append("def legacyBounds : List Nat := " + lean_nat_list(leg[1] if leg else []))
    prims = primitive_codecs()
    uses = reader_uses()
    pairs = codec_pairs(sites)
    entries = name_entry_points()
    lstr = lambda xs: "[" + ", ".join(lean_str(x) for x in xs) + "]"
    lines.append("/-- utils.py: (primitive, 'encode' | 'decode', the arguments of that codec call, parameters the body rebinds) -/")
    lines.append("def primitiveCodecs : List (String × String × List String × List String) := [")
    lines.append(",\n".join(f"  ({lean_str(a)}, {lean_str(b)}, {lstr(c)}, {lstr(d)})" for a, b, c, d in prims))
    lines.append("]")
    lines.append("/-- what each reader call site does with the string read -/")
    lines.append("def readerUses : List (String × String × String × String) := [")
    lines.append(",\n".join(f"  ({lean_str(a)}, {lean_str(b)}, {lean_str(c)}, {lean_str(d)})" for a, b, c, d in uses))
    lines.append("]")
    lines.append("/-- per element class: codecs named by its reader call sites, in order, and by its writer call sites -/")
    lines.append("def codecPairs : List (String × List String × List String) := [")
    lines.append(",\n".join(f"  ({lean_str(k)}, {lstr(r)}, {lstr(w)})" for k, r, w in pairs))
    lines.append("]")
    lines.append("/-- API functions that store a caller-supplied layer name: (scope, parameter, how the unicode block is stored, guard) -/")
    lines.append("def nameEntryPoints : List (String × String × String × String) := [")
    lines.append(",\n".join(f"  ({lean_str(a)}, {lean_str(b)}, {lean_str(c)}, {lean_str(d)})" for a, b, c, d in entries))
    lines.append("]")
    lines.append("")
    for nm, codec in (("macRoman", "mac_roman"), ("macCyrillic", "mac_cyrillic")):
        lines.append(f"/-- `bytes([i]).decode('{codec}')` for i in 0..255 (0x110000 = undefined) -/")
        lines.append(f"def {nm}Table : List Nat := {lean_nat_list(charmap_table(codec))}")
    lines.append("")
    lines.append("end PsdVerif.Generated.Strings")
    ctx.write_generated("Strings", "\n".join(lines) + "\n")
    return {"sites": len(sites), "nameTestEncoding": canon(enc), "nameFallback": fallback, "nameBound": bound,
            "legacy_name": leg, "site_list": [list(s) for s in sites],
            "primitiveCodecs": [list(x) for x in prims], "nameEntryPoints": [list(x) for x in entries],
            "readerUses": sorted({u[3] for u in uses}), "codecPairs": len(pairs)}
