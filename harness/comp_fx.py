"""Effect-carrying documents for the compositing checks C11 and C13.

* `FxDoc`: the per-pixel EFFECT-CARRYING layer tree of a real document (Model/CompositeFx.lean) extracted with the getters and the
  drawing functions the compositor itself uses - `layer.numpy`, `create_fill`, `draw_vector_mask`, `draw_stroke`,
  `create_fill_desc`, `draw_solid_color_fill` / `draw_pattern_fill` / `draw_gradient_fill`, `draw_stroke_effect`: what they DRAW is
  a parameter of the model, what the compositor does with it is the model - rendered as `comp.fx` requests.
* generators of recipes with fill layers (with / without vector masks, with / without stored pixels), overlay effects on
  pixel layers, fill layers and groups, adjustment layers, clip runs on fill layers (pixdoc builds them).
* the no-op laws for layers that carry effects.
"""
from __future__ import annotations

import numpy as np

import core  # noqa: F401
import comp_common as cc
from comp_common import OutOfScope, _rat, BIG

EFFECT_BLENDS = ["Nrml", "Nrml", "Mltp", "Scrn", "Ovrl", "Drkn", "Lghn", "Dfrn", "HrdL"]


# ------------------------------------------------------------------------------------------
# extraction
# ------------------------------------------------------------------------------------------
def _fn_name(mode):
    from psd_tools.composite.blend import BLEND_FUNC, normal
    return getattr(BLEND_FUNC.get(mode, normal), "__name__", "normal")


def _f32(arr, channels=None):
    """what `paste` makes of a drawn array: float32"""
    a = np.asarray(arr, dtype=np.float32)
    return a


class FxNode:
    __slots__ = ("kind", "name", "bbox", "pre", "post", "mask", "mask_bbox", "flags", "vm", "vm_box", "overlays", "strokefx",
                 "has_arr", "pix_color", "pix_shape", "fill_color", "fill_shape", "vstroke", "children", "clips", "passthrough")


class FxDoc:
    """The layer tree of a document as `Compositor.apply` reads it with effects, for ONE compositor viewport and one `force`."""

    def __init__(self, psd, V, layer_filter=None, force=False):
        from psd_tools.api.layers import Layer
        from psd_tools.api.numpy_io import EXPECTED_CHANNELS
        self.psd = psd
        self.depth = psd.depth
        self.force = bool(force)
        self.V = tuple(int(v) for v in V)
        self.flt = layer_filter or Layer.is_visible
        self.custom_filter = layer_filter is not None and layer_filter is not Layer.is_visible
        self.nch = EXPECTED_CHANNELS[psd.color_mode]
        self.mode = {1: "L", 3: "RGB", 4: "CMYK"}.get(self.nch, "RGB")
        self.features = set()
        self.layers = [self.node(l, self.V, False) for l in psd]

    # -- one layer ----------------------------------------------------------------------------
    def node(self, layer, V, clip_compositing):
        """`V`: the viewport of the compositor that will `apply` this layer.  Nothing is read or drawn for a layer `apply`
        returns early on (the compositor does not touch it either, and its data may not even be decodable)."""
        import psd_tools.composite as pc
        from psd_tools.api.layers import AdjustmentLayer, GroupMixin
        from psd_tools.constants import BlendMode, Tag
        n = FxNode()
        n.name = layer.name
        n.bbox = tuple(int(v) for v in layer.bbox)
        opacity = f"{int(layer.opacity)}/255"
        fill = f"{int(layer.tagged_blocks.get_data(Tag.BLEND_FILL_OPACITY, 255))}/255"
        n.mask, n.mask_bbox = None, (0, 0, 0, 0)
        has_mask, mbg, mden = False, "0", "1"
        m = layer.mask
        if m is not None and not m.disabled:
            has_mask = True
            if self.force and m._has_real():
                raise OutOfScope("force=True on a layer with a real (combined) mask")
            arr = layer.numpy("mask", real_mask=not self.force)
            if arr is not None:
                n.mask = arr
                n.mask_bbox = tuple(int(v) for v in m.bbox)
            else:
                n.mask_bbox = (-BIG, -BIG, BIG, BIG)
            mbg = f"{int(m.background_color)}/255"
            if m.parameters:
                den = m.parameters.user_mask_density
                if den is None:
                    den = m.parameters.vector_mask_density
                if den is None:
                    den = 255
                mden = f"{int(den)}/255"
        fn = cc.blend_fn_name(layer)
        knockout = bool(layer.tagged_blocks.get_data(Tag.KNOCKOUT_SETTING, 0))
        b = lambda v: "1" if v else "0"
        n.pre = [b(self.flt(layer)), *map(str, n.bbox), opacity, fill, b(has_mask), *map(str, n.mask_bbox)]
        n.post = [mbg, mden, fn, b(knockout), b(layer.clipping_layer), b(layer._has_clip_target)]
        if isinstance(layer, AdjustmentLayer):
            n.kind = "A"
            self.features.add("adjustment")
            return n
        skipped = (not self.flt(layer)) or pc._intersect(V, self._box(layer)) == (0, 0, 0, 0) or \
            (not clip_compositing and layer.clipping_layer and layer._has_clip_target)
        if skipped:
            return self._blank(n, layer)
        # what the decisions read
        has_pixels = bool(layer.has_pixels())
        has_fill = bool(cc.has_fill(layer))
        has_vm = bool(layer.has_vector_mask())
        vmobj = layer.vector_mask
        vm_enabled = vmobj is not None and not vmobj.disabled
        mask_no_real = m is not None and not m._has_real()
        n.flags = [b(has_pixels), b(has_fill), b(has_vm), b(vm_enabled), b(mask_no_real)]
        use_vm = vm_enabled and (self.force or not has_pixels or (not has_fill and mask_no_real))
        n.vm, n.vm_box = None, tuple(int(v) for v in self.psd.viewbox)
        if use_vm:
            n.vm = _f32(pc.draw_vector_mask(layer))
            self.features.add("vector-mask")
        n.clips = [self.node(c, V, True) for c in layer.clip_layers]
        is_group = isinstance(layer, GroupMixin)
        if is_group:
            n.kind = "G"
            n.passthrough = layer.blend_mode == BlendMode.PASS_THROUGH
            if self.custom_filter and layer.kind != "artboard":
                # Compositor._bbox: the box spanned by the children the filter accepts (recursively)
                n.bbox = self._filter_bbox(layer)
                n.pre[1:5] = map(str, n.bbox)
                # (the effects of the group are laid out over this box too: Compositor._bbox)
            Vsub = pc._intersect(V, n.bbox)
            n.children = [self.node(c, Vsub, False) for c in layer]
        else:
            n.kind = "L"
            color, shape = layer.numpy("color"), layer.numpy("shape")
            n.has_arr = color is not None
            if color is None and shape is not None:
                raise OutOfScope("shape without colour")
            n.pix_color = color
            n.pix_shape = shape
            n.fill_color = n.fill_shape = None
            use_fill = (self.force or not has_pixels) and has_fill
            if use_fill:
                fc, fs = pc.create_fill(layer, layer.bbox)
                n.fill_color = None if fc is None else _f32(fc)
                n.fill_shape = None if fs is None else _f32(fs)
                self.features.add("fill" + (":vector-mask" if use_vm else "") + (":force" if has_pixels else ""))
            # the vector stroke
            n.vstroke = None
            if has_vm and layer.stroke is not None and layer.stroke.enabled:
                desc = layer.stroke._data
                width = int(desc.get("strokeStyleLineWidth", 1.0))
                box = tuple(x + d for x, d in zip(layer.bbox, (-width, -width, width, width)))
                scol, _ = pc.create_fill_desc(layer, desc.get("strokeStyleContent"), box)
                if scol is None:
                    raise OutOfScope("vector stroke without a colour")
                sshape = _f32(pc.draw_stroke(layer))
                sop = float(desc.get("strokeStyleOpacity", 100.0)) / 100.0
                n.vstroke = (_f32(scol), box, sshape, tuple(int(v) for v in self.psd.viewbox), sop, _fn_name(layer.stroke.blend_mode))
                self.features.add("vector-stroke")
        # effects
        n.overlays, n.strokefx = [], []
        fxobj = layer.effects
        ebox = n.bbox                       # Compositor._bbox(layer): what the effect functions draw and paste over
        eh, ew = ebox[3] - ebox[1], ebox[2] - ebox[0]
        for eff in fxobj.find("coloroverlay"):
            c, se = pc.draw_solid_color_fill(ebox, self.psd.color_mode, eff.value)
            n.overlays.append((_f32(c), None if se is None else _f32(se), float(eff.opacity) / 100.0, _fn_name(eff.blend_mode)))
            self.features.add("color-overlay" + (":group" if is_group else ""))
        for eff in fxobj.find("patternoverlay"):
            c, se = pc.draw_pattern_fill(ebox, self.psd, eff.value)
            if c is None:
                raise OutOfScope("pattern overlay without its pattern")
            if c.shape[-1] == 1 and c.shape[-1] < self.nch:
                c = np.full([eh, ew, self.nch], c)
            n.overlays.append((_f32(c), None if se is None else _f32(se), float(eff.opacity) / 100.0, _fn_name(eff.blend_mode)))
            self.features.add("pattern-overlay")
        for eff in fxobj.find("gradientoverlay"):
            c, se = pc.draw_gradient_fill(ebox, self.psd.color_mode, eff.value)
            if c is None:
                raise OutOfScope("gradient overlay without colours")
            n.overlays.append((_f32(c), None if se is None else _f32(se), float(eff.opacity) / 100.0, _fn_name(eff.blend_mode)))
            self.features.add("gradient-overlay" + (":group" if is_group else ""))
        strokes = list(fxobj.find("stroke"))
        if strokes:
            if is_group:
                raise OutOfScope("stroke effect on a group")
            self.features.add("stroke-effect")
            # the argument `apply` passes: shape_mask, or the layer's shape after masks, over the compositor's viewport V
            H, W = V[3] - V[1], V[2] - V[0]
            shape_mask = 1.0
            if n.mask is not None:
                shape_mask = pc.paste(V, n.mask_bbox, n.mask, layer.mask.background_color / 255.0)
            if n.vm is not None:
                shape_mask = shape_mask * pc.paste(V, self.psd.viewbox, n.vm)
            from_mask = (self.force and has_vm) or ((not has_pixels) and has_fill)
            if from_mask:
                arg = shape_mask
            else:
                if n.fill_color is not None or n.fill_shape is not None or ((self.force or not has_pixels) and has_fill):
                    s0 = n.fill_shape if n.fill_shape is not None else np.ones((layer.height, layer.width, 1), dtype=np.float32)
                elif n.has_arr:
                    s0 = n.pix_shape if n.pix_shape is not None else np.ones((n.pix_color.shape[0], n.pix_color.shape[1], 1), np.float32)
                else:
                    s0 = None
                s0 = np.zeros((H, W, 1), dtype=np.float32) if s0 is None else pc.paste(V, layer.bbox, s0)
                arg = s0 * shape_mask
            from psd_tools.composite.effects import draw_stroke_effect
            for eff in strokes:
                sib = pc.paste(layer.bbox, V, arg) if isinstance(arg, np.ndarray) else arg
                with np.errstate(all="ignore"):
                    c, sib = draw_stroke_effect(layer.bbox, sib, eff.value, self.psd)
                n.strokefx.append((_f32(c), _f32(sib), float(eff.opacity) / 100.0, _fn_name(eff.blend_mode)))
                arg = pc.paste(V, layer.bbox, sib)
        return n

    def _box(self, layer):
        from psd_tools.api.layers import GroupMixin
        if self.custom_filter and isinstance(layer, GroupMixin) and layer.kind != "artboard":
            return self._filter_bbox(layer)
        return tuple(int(v) for v in layer.bbox)

    def _blank(self, n, layer):
        """a layer `apply` skips: the same record, no data"""
        from psd_tools.api.layers import GroupMixin
        from psd_tools.constants import BlendMode
        n.pre[1:5] = map(str, self._box(layer))
        n.bbox = self._box(layer)
        n.mask = None
        n.flags = ["0", "0", "0", "0", "0"]
        n.vm, n.vm_box = None, tuple(int(v) for v in self.psd.viewbox)
        n.overlays, n.strokefx, n.clips = [], [], []
        if isinstance(layer, GroupMixin):
            n.kind = "G"
            n.passthrough = layer.blend_mode == BlendMode.PASS_THROUGH
            n.children = []
        else:
            n.kind = "L"
            n.has_arr = False
            n.pix_color = n.pix_shape = n.fill_color = n.fill_shape = n.vstroke = None
        return n

    def _filter_bbox(self, layer):
        from psd_tools.api.layers import GroupMixin
        if not isinstance(layer, GroupMixin) or layer.kind == "artboard":
            return tuple(int(v) for v in layer.bbox)
        boxes = [self._filter_bbox(c) for c in layer if self.flt(c)]
        boxes = [bx for bx in boxes if bx != (0, 0, 0, 0)]
        if not boxes:
            return (0, 0, 0, 0)
        return (min(b[0] for b in boxes), min(b[1] for b in boxes), max(b[2] for b in boxes), max(b[3] for b in boxes))

    # -- tokens -------------------------------------------------------------------------------
    def _color_tokens(self, arr, x, y, box, default="1"):
        """`<nch> <c…>` of a drawn colour array over `box` at the pixel (a single default value when outside / absent)"""
        if arr is not None:
            l, t, r, b = box
            if l <= x < r and t <= y < b and (y - t) < arr.shape[0] and (x - l) < arr.shape[1]:
                px = arr[y - t, x - l]
                return [str(len(px))] + [_rat(v, self.depth) for v in px]
        return ["1", default]

    def _value(self, arr, x, y, box, default):
        if arr is not None:
            l, t, r, b = box
            if l <= x < r and t <= y < b and (y - t) < arr.shape[0] and (x - l) < arr.shape[1]:
                return _rat(arr[y - t, x - l, 0], self.depth)
        return default

    def tokens(self, n, x, y, out):
        out.append(n.kind)
        out += n.pre
        mv = "1"
        if n.mask is not None:
            l, t, r, b = n.mask_bbox
            if l <= x < r and t <= y < b:
                mv = _rat(n.mask[y - t, x - l, 0], 8)
        out.append(mv)
        out += n.post
        if n.kind == "A":
            return
        # fx
        out += n.flags
        out += map(str, n.vm_box)
        out.append(self._value(n.vm, x, y, n.vm_box, "0") if n.vm is not None else "1")
        out.append(str(len(n.overlays)))
        for c, se, op, fn in n.overlays:
            out += self._color_tokens(c, x, y, n.bbox)
            out.append("0" if se is None else "1")
            out.append("1" if se is None else self._value(se, x, y, n.bbox, "0"))
            out.append(_rat(op, 0))
            out.append(fn)
        out.append(str(len(n.strokefx)))
        for c, sh, op, fn in n.strokefx:
            out += self._color_tokens(c, x, y, n.bbox, "0")
            out.append(self._value(sh, x, y, n.bbox, "0"))
            out.append(_rat(op, 0))
            out.append(fn)
        if n.kind == "L":
            out.append("1" if n.has_arr else "0")
            out += self._color_tokens(n.pix_color, x, y, n.bbox)
            if n.has_arr and n.pix_shape is None:
                out.append("1")
            else:
                out.append(self._value(n.pix_shape, x, y, n.bbox, "0"))
            out += self._color_tokens(n.fill_color, x, y, n.bbox)
            out.append(self._value(n.fill_shape, x, y, n.bbox, "1") if n.fill_shape is not None else "1")
            if n.vstroke is None:
                out.append("0")
            else:
                scol, box, sshape, canvas, sop, fn = n.vstroke
                out.append("1")
                out += self._color_tokens(scol, x, y, box)
                out += map(str, box)
                out.append(self._value(sshape, x, y, canvas, "0"))
                out += map(str, canvas)
                out.append(_rat(sop, 0))
                out.append(fn)
        else:
            out.append("1" if n.passthrough else "0")
            out.append(str(len(n.children)))
            for c in n.children:
                self.tokens(c, x, y, out)
        out.append(str(len(n.clips)))
        for c in n.clips:
            self.tokens(c, x, y, out)

    def request(self, x, y, color_px=None, alpha_px=None):
        V = self.V
        out = [self.mode, "1" if self.force else "0", *map(str, V), str(x), str(y), str(self.nch)]
        if color_px is None:
            out += ["1"] * self.nch
            out.append("0")
        else:
            cp = list(color_px)
            if len(cp) == 1:
                cp = cp * self.nch
            out += [_rat(v, 0) for v in cp]
            out.append(_rat(alpha_px, 0))
        out.append(str(len(self.layers)))
        for n in self.layers:
            self.tokens(n, x, y, out)
        return " ".join(out)

    def requests(self, color=None, alpha=None, pixels=None):
        V = self.V
        if pixels is None:
            pixels = [(x, y) for y in range(V[1], V[3]) for x in range(V[0], V[2])]
        reqs = []
        for x, y in pixels:
            if color is None:
                reqs.append(("comp.fx", self.request(x, y)))
            else:
                reqs.append(("comp.fx", self.request(x, y, color[y - V[1], x - V[0]], alpha[y - V[1], x - V[0], 0])))
        return pixels, reqs


def real_composite(psd, viewport=None, color=None, alpha=None, layer_filter=None, force=False):
    from psd_tools.composite import composite
    kw = {}
    if color is not None:
        kw["color"] = np.array(color, dtype=np.float32, copy=True)
        kw["alpha"] = np.array(alpha, dtype=np.float32, copy=True)
    if viewport is not None:
        kw["viewport"] = tuple(viewport)
    if layer_filter is not None:
        kw["layer_filter"] = layer_filter
    if force:
        kw["force"] = True
    with np.errstate(all="ignore"):
        c, s, a = composite(psd, **kw)
    return np.asarray(c), np.asarray(s), np.asarray(a)


# ------------------------------------------------------------------------------------------
# recipes with effects, fill layers, adjustment layers
# ------------------------------------------------------------------------------------------
def gen_effects(rng, channels, allow_stroke=False, p=1.0):
    """{"master", "items"} or None"""
    if rng.random() > p:
        return None
    items = []
    for _ in range(rng.choice([1, 1, 1, 2, 3])):
        k = rng.random()
        common = {"opacity": rng.choice([100, 100, 60, 25, 0]), "blend": rng.choice(EFFECT_BLENDS), "enabled": rng.random() > 0.12}
        if k < 0.55:
            items.append(dict(common, kind="color", color=[rng.choice([0, 255, 40, 128, 200]) for _ in range(channels)]))
        elif k < 0.9 or not allow_stroke:
            stops = [[0, [rng.randrange(256) for _ in range(channels)]], [4096, [rng.randrange(256) for _ in range(channels)]]]
            if rng.random() < 0.3:
                stops.insert(1, [rng.choice([1024, 2048, 3000]), [rng.randrange(256) for _ in range(channels)]])
            astops = None if rng.random() < 0.5 else [[0, rng.choice([100, 100, 40])], [4096, rng.choice([0, 100, 70])]]
            items.append(dict(common, kind="gradient", stops=stops, alpha_stops=astops, angle=rng.choice([0, 90, -45, 30, 180]),
                              style=rng.choice(["Lnr ", "Lnr ", "Rdl ", "Rflc"]), reverse=rng.random() < 0.2,
                              scale=rng.choice([100, 100, 50, 150])))
        else:
            items.append(dict(common, kind="stroke", color=[rng.choice([0, 255, 90]) for _ in range(channels)],
                              size=rng.choice([1, 2, 3]), position=rng.choice(["OutF", "InsF", "CtrF"])))
    return {"master": rng.random() > 0.1, "items": items}


def gen_fill(rng, nprng, size, channels, blends, p_clip=0.0):
    W, H = size
    n = {"t": "fill", "fillcolor": [rng.choice([0, 255, 64, 128, 220]) for _ in range(channels)], "rect": [0, 0, 0, 0],
         "vmask": None, "pixels": None, "opacity": rng.choice([255, 255, 255, 128, 30, 0]), "fill": rng.choice([None, None, None, 255, 100, 0]),
         "blend": rng.choice(["NORMAL"] * 3 + blends) if rng.random() < 0.6 else "NORMAL", "visible": rng.random() > 0.1,
         "clip": rng.random() < p_clip, "knockout": rng.random() < 0.03, "mask": None}
    k = rng.random()
    if k < 0.55:
        rects = []
        for _ in range(rng.choice([1, 1, 2])):
            l = rng.randrange(-1, W); t = rng.randrange(-1, H)
            rects.append([l, t, rng.randrange(l + 1, W + 2), rng.randrange(t + 1, H + 2)])
        if rng.random() < 0.25:
            rects = [[0, 0, W, H]]                      # a full vector mask
        n["vmask"] = {"rects": rects, "disabled": rng.random() < 0.1, "shape": rng.random() < 0.4}
    if rng.random() < 0.3:
        # Photoshop also stores the rendered pixels of a fill layer: has_pixels() is then true and only force=True draws the fill
        l, t, r, b = cc._rect(rng, W, H)
        r, b = max(r, 1), max(b, 1)       # FillLayer.right / .bottom read a stored 0 as "not set" (= canvas size)
        n["rect"] = [l, t, r, b]
        n["pixels"] = {"color": nprng.randint(0, 256, size=(b - t, r - l, channels)).astype(np.uint8),
                       "alpha": None if rng.random() < 0.3 else nprng.choice([0, 128, 255, 255], size=(b - t, r - l)).astype(np.uint8)}
    elif rng.random() < 0.25:
        l, t, r, b = cc._rect(rng, W, H)
        n["rect"] = [l, t, max(r, l + 1, 1), max(b, t + 1, 1)]
    if rng.random() < 0.2:
        l, t, r, b = n["rect"] if n["rect"] != [0, 0, 0, 0] else [0, 0, W, H]
        n["mask"] = {"rect": [l, t, r, b], "bg": rng.choice([0, 255]),
                     "data": nprng.choice([0, 90, 255, 255], size=(b - t, r - l)).astype(np.uint8),
                     "disabled": rng.random() < 0.15, "density": rng.choice([None, None, 255, 128, 0])}
    return n


def gen_adjustment(rng, size):
    W, H = size
    return {"t": "adjustment", "rect": rng.choice([[0, 0, 0, 0], [0, 0, W, H]]), "opacity": rng.choice([255, 128]), "blend": "NORMAL",
            "visible": rng.random() > 0.2, "clip": rng.random() < 0.3, "fill": None, "knockout": False, "mask": None}


def gen_fx_list(rng, nprng, size, channels, blends, budget, depth, allow_stroke, max_depth=3):
    nodes = []
    want = rng.randrange(1, 4) if depth else rng.randrange(1, 7)
    while budget[0] > 0 and len(nodes) < want:
        budget[0] -= 1
        prev = bool(nodes)
        p_clip = 0.35 if prev else 0.05
        k = rng.random()
        if depth + 1 < max_depth and budget[0] > 0 and k < 0.22:
            g = {"t": "group", "blend": rng.choice(["PASS_THROUGH", "PASS_THROUGH", "NORMAL", "MULTIPLY"]),
                 "opacity": rng.choice([255, 255, 150, 0]), "fill": rng.choice([None, None, 100]), "visible": rng.random() > 0.1,
                 "clip": rng.random() < (0.1 if prev else 0.02), "knockout": rng.random() < 0.03,
                 "children": gen_fx_list(rng, nprng, size, channels, blends, budget, depth + 1, allow_stroke, max_depth)}
            fx = gen_effects(rng, channels, False, p=0.3)
            if fx:
                g["effects"] = fx
            nodes.append(g)
        elif k < 0.5:
            n = gen_fill(rng, nprng, size, channels, blends, p_clip=p_clip)
            fx = gen_effects(rng, channels, allow_stroke, p=0.4)
            if fx:
                n["effects"] = fx
            nodes.append(n)
        elif k < 0.57:
            nodes.append(gen_adjustment(rng, size))
        else:
            n = cc.gen_pixel(rng, nprng, size, channels, blends, p_clip=p_clip)
            fx = gen_effects(rng, channels, allow_stroke, p=0.7)
            if fx:
                n["effects"] = fx
            nodes.append(n)
    return nodes


def gen_fx_doc(rng, nprng, mode=None, allow_stroke=False):
    mode = mode or rng.choice(["RGB", "RGB", "RGB", "L", "CMYK"])
    size = (rng.randrange(1, 8), rng.randrange(1, 8))
    budget = [rng.randrange(1, 7)]
    recipe = gen_fx_list(rng, nprng, size, cc.MODE_CH[mode], cc.CONTINUOUS, budget, 0, allow_stroke)
    return {"recipe": recipe, "size": list(size), "mode": mode}


def fx_matrix_docs():
    """a small deterministic (VERIF_SEED-independent) stream: every overlay kind x {pixel, fill, fill+vector mask, group} x
    layer opacity {255, 128, 0} x fill opacity {None, 100} x {base of a clip run, clip layer, plain}, on a 3x3 canvas"""
    docs = []
    ch = 3
    W = H = 3

    def pixel(name, **kw):
        n = {"t": "pixel", "name": name, "rect": [0, 0, 3, 3], "color": np.full((3, 3, ch), 0, np.uint8), "alpha": None, "opacity": 255,
             "fill": None, "blend": "NORMAL", "visible": True, "clip": False, "knockout": False, "mask": None}
        n["color"][:, :, 0] = 200
        n["color"][1, 1] = (10, 250, 90)
        n["alpha"] = np.array([[255, 255, 0], [255, 128, 255], [64, 255, 255]], np.uint8)
        n.update(kw)
        return n

    def fillnode(name, vmask=None, **kw):
        n = {"t": "fill", "name": name, "fillcolor": [30, 120, 240], "rect": [0, 0, 0, 0], "vmask": vmask, "pixels": None, "opacity": 255,
             "fill": None, "blend": "NORMAL", "visible": True, "clip": False, "knockout": False, "mask": None}
        n.update(kw)
        return n

    backdrop = pixel("bg", color=np.full((3, 3, ch), 120, np.uint8), alpha=np.full((3, 3), 200, np.uint8))
    effects = {
        "color": {"kind": "color", "color": [250, 20, 20], "opacity": 100, "blend": "Nrml"},
        "color-multiply-half": {"kind": "color", "color": [20, 200, 60], "opacity": 50, "blend": "Mltp"},
        "gradient": {"kind": "gradient", "stops": [[0, [0, 0, 255]], [4096, [255, 255, 0]]], "alpha_stops": None, "angle": 0, "opacity": 100,
                     "blend": "Nrml"},
        "gradient-alpha": {"kind": "gradient", "stops": [[0, [255, 0, 255]], [4096, [0, 255, 0]]], "alpha_stops": [[0, 100], [4096, 0]],
                           "angle": 90, "opacity": 70, "blend": "Scrn"},
        "two": None,
        "stroke": {"kind": "stroke", "color": [0, 0, 0], "size": 2, "position": "CtrF", "opacity": 100, "blend": "Nrml"},
    }
    for ename, e in effects.items():
        items = [effects["color-multiply-half"], effects["gradient-alpha"]] if e is None else [e]
        for opacity in (255, 128, 0):
            for fillop in (None, 100):
                for carrier in ("pixel", "fill", "fill-vmask", "fill-shape", "group"):
                    for pos in ("plain", "clip-base", "clip-layer"):
                        if (opacity, fillop) == (128, 100) and pos != "plain":
                            continue
                        if ename == "stroke" and (carrier == "group" or fillop is not None):
                            continue
                        fx = {"master": True, "items": [dict(i) for i in items]}
                        kw = {"opacity": opacity, "fill": fillop, "effects": fx}
                        if carrier == "pixel":
                            c = pixel("fx", **kw)
                        elif carrier == "fill":
                            c = fillnode("fx", **kw)
                        elif carrier == "fill-vmask":
                            c = fillnode("fx", vmask={"rects": [[0, 0, 2, 3]], "disabled": False, "shape": False}, **kw)
                        elif carrier == "fill-shape":
                            c = fillnode("fx", vmask={"rects": [[1, 0, 3, 2]], "disabled": False, "shape": True}, **kw)
                        else:
                            c = {"t": "group", "name": "fx", "blend": "PASS_THROUGH" if opacity == 255 else "NORMAL", "visible": True,
                                 "clip": False, "knockout": False, "children": [pixel("kid", opacity=200)], **kw}
                        if pos == "plain":
                            recipe = [backdrop, c]
                        elif pos == "clip-base":
                            recipe = [backdrop, c, pixel("clipper", clip=True, opacity=180, color=np.full((3, 3, ch), 33, np.uint8))]
                        else:
                            c["clip"] = True
                            recipe = [backdrop, pixel("base", opacity=230), c]
                        import copy
                        docs.append({"recipe": copy.deepcopy(recipe), "size": [W, H], "mode": "RGB",
                                     "cell": f"{ename}/{carrier}/{pos}/op{opacity}/fill{fillop}"})
    return docs


def recipe_to_json(nodes):
    out = []
    for n in nodes:
        m = {k: v for k, v in n.items() if k not in ("color", "alpha", "mask", "children", "pixels")}
        mk = n.get("mask")
        if n["t"] == "group":
            m["children"] = recipe_to_json(n["children"])
        elif n["t"] == "pixel":
            m["color"] = np.asarray(n["color"]).tolist()
            m["alpha"] = None if n.get("alpha") is None else np.asarray(n["alpha"]).tolist()
        elif n["t"] == "fill":
            px = n.get("pixels")
            m["pixels"] = None if px is None else {"color": np.asarray(px["color"]).tolist(),
                                                   "alpha": None if px.get("alpha") is None else np.asarray(px["alpha"]).tolist()}
        m["mask"] = None if not mk else dict(mk, data=np.asarray(mk["data"]).tolist())
        out.append(m)
    return out


def recipe_from_json(nodes):
    out = []
    for n in nodes:
        m = dict(n)
        if n["t"] == "group":
            m["children"] = recipe_from_json(n["children"])
        elif n["t"] == "pixel":
            l, t, r, b = n["rect"]
            m["color"] = np.asarray(n["color"], dtype=np.uint8).reshape(b - t, r - l, -1)
            m["alpha"] = None if n.get("alpha") is None else np.asarray(n["alpha"], dtype=np.uint8).reshape(b - t, r - l)
        elif n["t"] == "fill" and n.get("pixels") is not None:
            l, t, r, b = n["rect"]
            px = n["pixels"]
            m["pixels"] = {"color": np.asarray(px["color"], dtype=np.uint8).reshape(b - t, r - l, -1),
                           "alpha": None if px.get("alpha") is None else np.asarray(px["alpha"], dtype=np.uint8).reshape(b - t, r - l)}
        mk = n.get("mask")
        if mk:
            ml, mt, mr, mb = mk["rect"]
            m["mask"] = dict(mk, data=np.asarray(mk["data"], dtype=np.uint8).reshape(mb - mt, mr - ml))
        out.append(m)
    return out


def fx_features(doc):
    f = set()
    for n in cc.walk(doc["recipe"]):
        fx = n.get("effects")
        if fx and fx.get("master", True):
            for e in fx["items"]:
                if e.get("enabled", True):
                    f.add(e["kind"] + "-overlay" if e["kind"] != "stroke" else "stroke-effect")
                    if n["t"] == "group":
                        f.add("effect-on-group")
                    if n.get("opacity", 255) == 0:
                        f.add("effect+zero-opacity")
                    if n.get("clip"):
                        f.add("effect-on-clip-layer")
        if n["t"] == "fill":
            f.add("fill-layer")
            if n.get("vmask"):
                f.add("fill+vector-mask")
            if n.get("pixels") is not None:
                f.add("fill+stored-pixels")
            if n.get("clip"):
                f.add("fill-as-clip-layer")
        if n["t"] == "adjustment":
            f.add("adjustment")
    return f


def has_stroke_effect(doc):
    return "stroke-effect" in fx_features(doc)


def build(doc, compression=None):
    import pixdoc
    from psd_tools.constants import Compression
    comp = Compression.RAW if compression is None else compression
    return pixdoc.build(doc["recipe"], tuple(doc["size"]), doc["mode"], depth=8, compression=comp, reopen=True)


# ------------------------------------------------------------------------------------------
# one case: real composite + comp.fx requests; runs in a pool worker
# ------------------------------------------------------------------------------------------
def eval_fx_case(case):
    """case: {doc | psd-less, viewport?, backdrop?, filter?, force?} -> {real, V, reqs, pixels, nch, error, features}"""
    doc = case["doc"]
    out = {"error": None, "real": None, "reqs": None, "pixels": None, "features": []}
    W, H = doc["size"]
    V = tuple(case.get("viewport") or (0, 0, W, H))
    out["V"] = V
    bd = case.get("backdrop")
    flt = case.get("filter")
    force = bool(case.get("force"))
    try:
        psd = build(doc)
        lf = cc.name_filter(**flt) if flt else None
        out["real"] = real_composite(psd, viewport=case.get("viewport"), color=None if bd is None else bd[0],
                                     alpha=None if bd is None else bd[1], layer_filter=lf, force=force)
    except Exception as e:
        import traceback
        tb = traceback.extract_tb(e.__traceback__)
        inrepo = [f for f in tb if str(core.REPO) in f.filename]
        where = f"{inrepo[-1].filename.split('/src/')[-1]}:{inrepo[-1].name}" if inrepo else "call of psd_tools.composite.composite"
        out["error"] = {"type": type(e).__name__, "msg": str(e)[:200], "where": where, "in_repo": bool(inrepo)}
        return out
    if case.get("want_model", True) and (V[2] - V[0]) > 0 and (V[3] - V[1]) > 0:
        try:
            xd = FxDoc(psd, V, lf, force)
            pixels, reqs = xd.requests(None if bd is None else bd[0], None if bd is None else bd[1])
            out["pixels"], out["reqs"], out["nch"], out["features"] = pixels, reqs, xd.nch, sorted(xd.features)
        except OutOfScope as e:
            out["scope"] = str(e)
        except Exception as e:  # a getter / drawing function the compositor uses raised or no longer exists
            out["error"] = {"type": type(e).__name__, "msg": str(e)[:200], "where": "extraction", "in_repo": True}
    return out


def run_fx_cases(cases, workers=12):
    if len(cases) < 8 or workers <= 1:
        return [eval_fx_case(c) for c in cases]
    import multiprocessing as mp
    with mp.get_context("fork").Pool(workers) as pool:
        return pool.map(eval_fx_case, cases, chunksize=max(1, len(cases) // (workers * 8)))
