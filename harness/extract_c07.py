"""C07/C17: table-shaped facts of the pixel pipeline, read from the live modules of the
working tree on every run -> lean/PsdVerif/Generated/Pixels.lean.

The model (Model/Pixels.lean) types these tables by hand; `PsdVerif.C07.tables_tied`
re-checks them against this dump on every run, so a change to one of the dictionaries in
pil_io.py / numpy_io.py / constants.py breaks the proof, not just a test.
"""
from __future__ import annotations

import importlib

from core import Infra
from extract import lean_str

MODES = ["1", "L", "LA", "RGB", "RGBA", "CMYK"]
CMODES = ["BITMAP", "GRAYSCALE", "RGB", "CMYK"]


def gen_pixels(ctx):
    try:
        pil_io = importlib.import_module("psd_tools.api.pil_io")
        numpy_io = importlib.import_module("psd_tools.api.numpy_io")
        const = importlib.import_module("psd_tools.constants")
    except Exception as e:  # noqa
        raise Infra(f"cannot import the pixel modules: {e}")
    CM = const.ColorMode
    expected = [(c, int(numpy_io.EXPECTED_CHANNELS[getattr(CM, c)])) for c in CMODES]
    cmch = [(c, int(CM.channels(getattr(CM, c)))) for c in CMODES]
    cmch_alpha = [(c, int(CM.channels(getattr(CM, c), True))) for c in CMODES]
    pilch = [(m, int(pil_io.get_pil_channels(m))) for m in MODES]
    pildepth = [(m, int(pil_io.get_pil_depth(m))) for m in MODES]
    pilmode = [(c, a, pil_io.get_pil_mode(getattr(CM, c), a)) for c in CMODES for a in (False, True)]
    colormode = [(m, pil_io.get_color_mode(m).name) for m in MODES]

    def pairs(xs):
        return "[" + ", ".join(f"({lean_str(a)}, {b})" for a, b in xs) + "]"

    src = (
        "namespace PsdVerif.Generated.Pixels\n"
        f"/-- `numpy_io.EXPECTED_CHANNELS` -/\ndef expectedChannels : List (String × Nat) := {pairs(expected)}\n"
        f"/-- `ColorMode.channels(mode)` -/\ndef colorModeChannels : List (String × Nat) := {pairs(cmch)}\n"
        f"/-- `ColorMode.channels(mode, True)` -/\ndef colorModeChannelsAlpha : List (String × Nat) := {pairs(cmch_alpha)}\n"
        f"/-- `pil_io.get_pil_channels(mode)` -/\ndef pilChannels : List (String × Nat) := {pairs(pilch)}\n"
        f"/-- `pil_io.get_pil_depth(mode)` -/\ndef pilDepth : List (String × Nat) := {pairs(pildepth)}\n"
        "/-- `pil_io.get_pil_mode(color_mode, alpha)` -/\ndef pilMode : List (String × Bool × String) := ["
        + ", ".join(f"({lean_str(c)}, {'true' if a else 'false'}, {lean_str(m)})" for c, a, m in pilmode) + "]\n"
        "/-- `pil_io.get_color_mode(mode).name` -/\ndef colorModeOf : List (String × String) := ["
        + ", ".join(f"({lean_str(m)}, {lean_str(c)})" for m, c in colormode) + "]\n"
        "end PsdVerif.Generated.Pixels\n"
    )
    ctx.write_generated("Pixels", src)
    return {"expectedChannels": dict(expected), "colorModeChannels": dict(cmch), "pilChannels": dict(pilch),
            "pilMode": [list(x) for x in pilmode], "colorModeOf": dict(colormode)}


# =================================================================================================
# The SAMPLE ARITHMETIC (Model/PixelSamples.lean), read from the AST of the working tree on every run
# -> Generated/PixelSamples.lean; tied by `PsdVerif.C07.samples_tied` (Props/C07Samples.lean).
#
#   api/layers.py     PixelLayer.frompil: the nested `plane()` statement by statement and, per depth branch, the operator
#                     and the constant applied to the samples and the dtypes of every `astype`; the top-level `if`s of
#                     the function (bitmap -> L, alpha taken before the conversion, conversion to the document's mode,
#                     CMYK inversion, depth/version of the document, opaque transparency) in source order; what is
#                     handed to `set_data`; every `ImageChops.invert` with its guard;
#   api/psd_image.py  PSDImage.frompil statement by statement; the default depth of `_make_header` and its assertion;
#   api/pil_io.py     `_create_image`: per depth the `frombytes` mode / raw mode, the lambda of `point` evaluated the way
#                     PIL evaluates it (a linear form: scale and offset, exact rationals), the `convert` target;
#                     `post_process`; which functions call `_remove_white_background`; its ImageMath expression;
#   api/numpy_io.py   `_parse_array`: per depth the `frombuffer` dtype, the `astype` dtype, the divisor; every call in
#                     the branches (`np.round`, `astype`, ...); `_remove_background`; every `constant - x` of the module
#                     (a colour inversion on the NumPy path would be one).
# Anything not found is written as the sentinel `<not found>` / an empty table: the file is ALWAYS written, the tie then
# fails - a broken tie (VIOLATION), never an infrastructure error.
# =================================================================================================
import ast
from fractions import Fraction

from core import REPO

MISSING = "<not found>"
_API = REPO / "src" / "psd_tools" / "api"


def _method(tree, cls, name):
    for n in ast.walk(tree):
        if isinstance(n, ast.ClassDef) and n.name == cls:
            for m in n.body:
                if isinstance(m, ast.FunctionDef) and m.name == name:
                    return m
    return None


def _function(tree, name):
    for n in tree.body:
        if isinstance(n, ast.FunctionDef) and n.name == name:
            return n
    return None


def _body(fn):
    return [st for st in fn.body
            if not (isinstance(st, ast.Expr) and isinstance(st.value, ast.Constant))
            and not isinstance(st, (ast.Import, ast.ImportFrom))]


def _flat(stmts):
    out = []
    for st in stmts:
        if isinstance(st, (ast.Import, ast.ImportFrom)):
            continue
        if isinstance(st, ast.Expr) and isinstance(st.value, ast.Constant) and isinstance(st.value.value, str):
            continue
        if isinstance(st, ast.Expr) and isinstance(st.value, ast.Call) and ast.unparse(st.value.func).startswith("logger."):
            continue            # log messages are not arithmetic
        if isinstance(st, ast.If):
            out.append("if %s: { %s }" % (ast.unparse(st.test), "; ".join(_flat(st.body)))
                       + (" else { %s }" % "; ".join(_flat(st.orelse)) if st.orelse else ""))
        elif isinstance(st, ast.For):
            out.append("for %s in %s: { %s }" % (ast.unparse(st.target), ast.unparse(st.iter), "; ".join(_flat(st.body))))
        elif isinstance(st, ast.FunctionDef):
            out.append("def %s(%s): { %s }" % (st.name, ast.unparse(st.args), "; ".join(_flat(st.body))))
        else:
            out.append(ast.unparse(st))
    return out


def _depth_of(test):
    """the constant N of a `depth == N` comparison inside a test"""
    for n in ast.walk(test):
        if isinstance(n, ast.Compare) and len(n.ops) == 1 and isinstance(n.ops[0], ast.Eq) \
                and ast.unparse(n.left) == "depth" and isinstance(n.comparators[0], ast.Constant) \
                and isinstance(n.comparators[0].value, int):
            return n.comparators[0].value
    return None


def _frac(v):
    if isinstance(v, bool) or not isinstance(v, (int, float)):
        return None
    return Fraction(v)


def _arith(expr):
    """[(operator, constant as a Fraction)] of every binary operation with a numeric constant in `expr`, innermost first"""
    found = []
    for n in ast.walk(expr):
        if isinstance(n, ast.BinOp):
            for side in (n.right, n.left):
                if isinstance(side, ast.Constant) and _frac(side.value) is not None:
                    found.append((n.lineno, n.col_offset, -(n.end_col_offset or 0), type(n.op).__name__, _frac(side.value)))
                    break
    return [(op, c) for *_p, op, c in sorted(found, key=lambda t: (t[0], t[1], t[2]), reverse=True)]


def _calls(expr):
    """names of every call in `expr` in source order (attribute calls by their attribute: `x.astype(..)` -> `astype`;
    `np.round(..)` -> `np.round`)"""
    found = []
    for n in ast.walk(expr):
        if isinstance(n, ast.Call):
            f = n.func
            if isinstance(f, ast.Attribute) and isinstance(f.value, ast.Name) and f.value.id in ("np", "Image", "ImageChops", "ImageMath"):
                name = f.value.id + "." + f.attr
            elif isinstance(f, ast.Attribute):
                name = f.attr
            else:
                name = ast.unparse(f)
            found.append((n.end_lineno, n.end_col_offset, name))
    return [x for *_p, x in sorted(found)]


def _astype_dtypes(expr):
    out = []
    for n in ast.walk(expr):
        if isinstance(n, ast.Call) and isinstance(n.func, ast.Attribute) and n.func.attr in ("astype", "frombuffer") and n.args:
            a = n.args[-1] if n.func.attr == "frombuffer" else n.args[0]
            out.append((n.end_lineno, n.end_col_offset, n.func.attr + ":" + (a.value if isinstance(a, ast.Constant) and isinstance(a.value, str) else ast.unparse(a))))
    return [x for *_p, x in sorted(out)]


def _linear(node, var):
    """the lambda body as PIL's `_E` evaluates it: (scale, offset) of a linear form in `var`, or None"""
    if isinstance(node, ast.Name) and node.id == var:
        return Fraction(1), Fraction(0)
    if isinstance(node, ast.Constant) and _frac(node.value) is not None:
        return Fraction(0), _frac(node.value)
    if isinstance(node, ast.UnaryOp) and isinstance(node.op, ast.USub):
        r = _linear(node.operand, var)
        return None if r is None else (-r[0], -r[1])
    if isinstance(node, ast.BinOp):
        a, b = _linear(node.left, var), _linear(node.right, var)
        if a is None or b is None:
            return None
        if isinstance(node.op, ast.Add):
            return a[0] + b[0], a[1] + b[1]
        if isinstance(node.op, ast.Sub):
            return a[0] - b[0], a[1] - b[1]
        if isinstance(node.op, ast.Mult):
            if a[0] == 0:
                return a[1] * b[0], a[1] * b[1]
            if b[0] == 0:
                return a[0] * b[1], a[1] * b[1]
            return None
        if isinstance(node.op, ast.Div) and b[0] == 0 and b[1] != 0:
            return a[0] / b[1], a[1] / b[1]
    return None


def _if_chain(fn):
    """[(test, body statements)] of the top-level if / elif chain of a function, then ('else', ...)"""
    out = []
    for st in _body(fn):
        while isinstance(st, ast.If):
            out.append((st.test, st.body))
            if len(st.orelse) == 1 and isinstance(st.orelse[0], ast.If):
                st = st.orelse[0]
            else:
                if st.orelse:
                    out.append((None, st.orelse))
                st = None
    return out


def read_pixel_samples():
    info = {}
    notes = []
    # ---------------- layers.py
    info.update(plane_body=[MISSING], plane_arith=[], frompil_ifs=[MISSING], set_data_args=[MISSING], layer_inversions=[(MISSING, MISSING)],
                depth_default=MISSING)
    try:
        tree = ast.parse((_API / "layers.py").read_text())
        fn = _method(tree, "PixelLayer", "frompil")
        if fn is not None:
            body = _body(fn)
            info["frompil_ifs"] = [x for st in body if isinstance(st, ast.If) for x in _flat([st])]
            for st in body:
                if isinstance(st, ast.Assign) and ast.unparse(st.targets[0]) == "depth":
                    info["depth_default"] = ast.unparse(st.value)
            plane = [st for st in body if isinstance(st, ast.FunctionDef) and st.name == "plane"]
            if plane:
                info["plane_body"] = _flat(_body(plane[0]))
                rows = []
                for st in _body(plane[0]):
                    if isinstance(st, ast.If):
                        d = _depth_of(st.test)
                        rets = [s for s in st.body if isinstance(s, ast.Return) and s.value is not None]
                        if d is not None and len(rets) == 1:
                            ar = _arith(rets[0].value)
                            rows.append((d, [(op, c.numerator, c.denominator) for op, c in ar], _astype_dtypes(rets[0].value),
                                         _calls(rets[0].value)))
                info["plane_arith"] = rows
            args = []
            for n in ast.walk(fn):
                if isinstance(n, ast.Call) and isinstance(n.func, ast.Attribute) and n.func.attr == "set_data" and n.args:
                    args.append((n.lineno, n.col_offset, ast.unparse(n.args[0]) + " | " + ", ".join(ast.unparse(a) for a in n.args[1:])))
            info["set_data_args"] = [x for *_p, x in sorted(args)]
            info["layer_inversions"] = _inversions(fn)
    except Exception as e:  # noqa
        notes.append(f"layers.py: {type(e).__name__}: {e}")
    # ---------------- psd_image.py
    info.update(doc_frompil=[MISSING], header_depth_default=MISSING, header_asserts=[MISSING], doc_inversions=[(MISSING, MISSING)])
    try:
        tree = ast.parse((_API / "psd_image.py").read_text())
        fn = _method(tree, "PSDImage", "frompil")
        if fn is not None:
            info["doc_frompil"] = _flat(_body(fn))
            info["doc_inversions"] = _inversions(fn)
        mh = _method(tree, "PSDImage", "_make_header")
        if mh is not None:
            args = mh.args.args
            defaults = [None] * (len(args) - len(mh.args.defaults)) + list(mh.args.defaults)
            for a, d in zip(args, defaults):
                if a.arg == "depth" and d is not None:
                    info["header_depth_default"] = ast.unparse(d)
            info["header_asserts"] = [ast.unparse(st.test) for st in _body(mh) if isinstance(st, ast.Assert) and "depth" in ast.unparse(st.test)]
    except Exception as e:  # noqa
        notes.append(f"psd_image.py: {type(e).__name__}: {e}")
    # ---------------- pil_io.py
    info.update(create_image=[MISSING], create_rows=[], post_process=[MISSING], unmatte_callers=[MISSING], unmatte_exprs=[MISSING],
                pil_inversions=[(MISSING, MISSING)], layer_tail=MISSING, doc_tail=[MISSING], pil_get_data=[MISSING])
    try:
        tree = ast.parse((_API / "pil_io.py").read_text())
        fn = _function(tree, "_create_image")
        if fn is not None:
            chain = _if_chain(fn)
            info["create_image"] = [("else" if t is None else ast.unparse(t)) + ": " + "; ".join(_flat(b)) for t, b in chain]
            rows = []
            for t, b in chain:
                d = _depth_of(t) if t is not None else None
                if d is None:
                    continue
                fb, lam, conv = [MISSING, MISSING], None, MISSING
                nlam = 0
                for st in b:
                    for n in ast.walk(st):
                        if isinstance(n, ast.Call) and ast.unparse(n.func) == "Image.frombytes":
                            strs_ = [a.value for a in n.args if isinstance(a, ast.Constant) and isinstance(a.value, str)]
                            fb = [strs_[0] if strs_ else MISSING, strs_[-1] if len(strs_) > 1 else MISSING]
                        if isinstance(n, ast.Lambda):
                            nlam += 1
                            if len(n.args.args) == 1:
                                lam = _linear(n.body, n.args.args[0].arg)
                        if isinstance(n, ast.Call) and isinstance(n.func, ast.Attribute) and n.func.attr == "convert" and n.args \
                                and isinstance(n.args[0], ast.Constant):
                            conv = n.args[0].value
                if nlam == 0:
                    sc = (1, 1, 0, 1)          # no `point`: the identity
                    conv = "-" if conv == MISSING else conv
                elif lam is None or nlam > 1:
                    sc = (0, 0, 0, 0)          # not a linear form: sentinel
                else:
                    sc = (lam[0].numerator, lam[0].denominator, lam[1].numerator, lam[1].denominator)
                rows.append((d, fb[0], fb[1], sc, conv, _calls(ast.Module(body=b, type_ignores=[]))))
            info["create_rows"] = rows
        pp = _function(tree, "post_process")
        if pp is not None:
            info["post_process"] = _flat(_body(pp))
            info["pil_inversions"] = _inversions(pp)
        callers = []
        for f in tree.body:
            if isinstance(f, ast.FunctionDef) and f.name != "_remove_white_background":
                if any(isinstance(n, ast.Call) and ast.unparse(n.func) == "_remove_white_background" for n in ast.walk(f)):
                    callers.append(f.name)
        info["unmatte_callers"] = callers
        um = _function(tree, "_remove_white_background")
        if um is not None:
            ex = []
            for n in ast.walk(um):
                if isinstance(n, ast.Lambda):
                    ex.append((n.lineno, n.col_offset, ast.unparse(n.body)))
                if isinstance(n, ast.Call) and ast.unparse(n.func) == "ImageMath.eval" and n.args:
                    try:
                        ex.append((n.lineno, n.col_offset, ast.literal_eval(n.args[0])))
                    except Exception:  # noqa
                        ex.append((n.lineno, n.col_offset, ast.unparse(n.args[0])))
            info["unmatte_exprs"] = [x for *_p, x in sorted(ex)]
        info["pil_get_data"] = _get_data_calls(tree)
        lay = _function(tree, "convert_layer_to_pil")
        if lay is not None:
            rets = [st for st in _body(lay) if isinstance(st, ast.Return)]
            info["layer_tail"] = ast.unparse(rets[-1]) if rets else MISSING
        doc = _function(tree, "convert_image_data_to_pil")
        if doc is not None:
            info["doc_tail"] = _flat(_body(doc)[-2:])
    except Exception as e:  # noqa
        notes.append(f"pil_io.py: {type(e).__name__}: {e}")
    # ---------------- numpy_io.py
    info.update(parse_array=[MISSING], parse_rows=[], remove_background=[MISSING], numpy_const_minus=[MISSING],
                numpy_get_data=[MISSING])
    try:
        tree = ast.parse((_API / "numpy_io.py").read_text())
        fn = _function(tree, "_parse_array")
        if fn is not None:
            chain = _if_chain(fn)
            info["parse_array"] = [("else" if t is None else ast.unparse(t)) + ": " + "; ".join(_flat(b)) for t, b in chain]
            rows = []
            for t, b in chain:
                d = _depth_of(t) if t is not None else None
                if d is None:
                    continue
                mod = ast.Module(body=b, type_ignores=[])
                ar = _arith(mod)
                rows.append((d, _astype_dtypes(mod), [(op, c.numerator, c.denominator) for op, c in ar], _calls(mod)))
            info["parse_rows"] = rows
        info["numpy_get_data"] = _get_data_calls(tree)
        rb = _function(tree, "_remove_background")
        if rb is not None:
            info["remove_background"] = _flat(_body(rb))
        subs = []
        for n in ast.walk(tree):
            if isinstance(n, ast.BinOp) and isinstance(n.op, ast.Sub) and isinstance(n.left, ast.Constant):
                subs.append((n.lineno, n.col_offset, ast.unparse(n)))
            if isinstance(n, ast.Call) and "invert" in ast.unparse(n.func):
                subs.append((n.lineno, n.col_offset, ast.unparse(n)))
        info["numpy_const_minus"] = [x for *_p, x in sorted(subs)]
    except Exception as e:  # noqa
        notes.append(f"numpy_io.py: {type(e).__name__}: {e}")
    return info, notes


def _get_data_calls(tree):
    """every `x.get_data(...)` call of a module that decodes stored planes (function: call), in source order: the depth and
    the file version handed to the channel decoders"""
    out = []

    def own_nodes(f):
        stack = list(f.body)
        while stack:
            n = stack.pop()
            if isinstance(n, ast.FunctionDef):
                continue            # a nested function reports its own calls
            yield n
            stack.extend(ast.iter_child_nodes(n))
    for f in ast.walk(tree):
        if isinstance(f, ast.FunctionDef):
            for n in own_nodes(f):
                if isinstance(n, ast.Call) and isinstance(n.func, ast.Attribute) and n.func.attr == "get_data" \
                        and any(k in ast.unparse(n) for k in ("depth", "header")):
                    out.append((n.lineno, n.col_offset, f.name + ": " + ast.unparse(n)))
    return [x for *_p, x in sorted(out)]


def _inversions(fn):
    """[(guard, statement)] of every statement of `fn` that calls something named `invert`, or computes `constant - x`"""
    out = []

    def visit(stmts, guard):
        for st in stmts:
            if isinstance(st, ast.If):
                g = ast.unparse(st.test) if not guard else guard + " and " + ast.unparse(st.test)
                visit(st.body, g)
                visit(st.orelse, ("not (%s)" % ast.unparse(st.test)) if not guard else guard + " and not (%s)" % ast.unparse(st.test))
            elif isinstance(st, (ast.For, ast.While, ast.With, ast.Try)):
                visit(getattr(st, "body", []), guard)
            elif isinstance(st, ast.FunctionDef):
                visit(st.body, guard)
            else:
                hit = any((isinstance(n, ast.Call) and "invert" in ast.unparse(n.func)) or
                          (isinstance(n, ast.BinOp) and isinstance(n.op, ast.Sub) and isinstance(n.left, ast.Constant))
                          for n in ast.walk(st))
                if hit and not isinstance(st, (ast.Import, ast.ImportFrom)):
                    out.append((guard or "-", ast.unparse(st)))
    visit(_body(fn), "")
    return out


def gen_pixel_samples(ctx):
    try:
        info, notes = read_pixel_samples()
    except Exception as e:  # noqa   (never an infrastructure error: sentinels)
        info, notes = None, [f"{type(e).__name__}: {e}"]
    if info is None:
        info = dict(plane_body=[MISSING], plane_arith=[], frompil_ifs=[MISSING], set_data_args=[MISSING],
                    layer_inversions=[(MISSING, MISSING)], depth_default=MISSING, doc_frompil=[MISSING],
                    header_depth_default=MISSING, header_asserts=[MISSING], doc_inversions=[(MISSING, MISSING)],
                    create_image=[MISSING], create_rows=[], post_process=[MISSING], unmatte_callers=[MISSING],
                    unmatte_exprs=[MISSING], pil_inversions=[(MISSING, MISSING)], layer_tail=MISSING, doc_tail=[MISSING],
                    parse_array=[MISSING], parse_rows=[], remove_background=[MISSING], numpy_const_minus=[MISSING],
                    pil_get_data=[MISSING], numpy_get_data=[MISSING])

    def strs(xs):
        return "[" + ", ".join(lean_str(x) for x in xs) + "]"

    def pairs(xs):
        return "[" + ", ".join(f"({lean_str(a)}, {lean_str(b)})" for a, b in xs) + "]"

    def ops(xs):
        return "[" + ", ".join(f"({lean_str(op)}, ({n} : Int), {d})" for op, n, d in xs) + "]"

    plane_arith = "[" + ", ".join(f"({d}, {ops(ar)}, {strs(dt)}, {strs(cl)})" for d, ar, dt, cl in info["plane_arith"]) + "]"
    create_rows = "[" + ", ".join(
        f"({d}, {lean_str(m)}, {lean_str(raw)}, (({sc[0]} : Int), {sc[1]}, ({sc[2]} : Int), {sc[3]}), {lean_str(conv)}, {strs(cl)})"
        for d, m, raw, sc, conv, cl in info["create_rows"]) + "]"
    parse_rows = "[" + ", ".join(f"({d}, {strs(dt)}, {ops(ar)}, {strs(cl)})" for d, dt, ar, cl in info["parse_rows"]) + "]"
    src = (
        "\nnamespace PsdVerif.Generated.PixelSamples\n\n"
        "/-! api/layers.py `PixelLayer.frompil` -/\n\n"
        f"/-- the nested `plane(band)`, statement by statement -/\ndef planeBody : List String := {strs(info['plane_body'])}\n"
        "/-- per `depth == N` branch of `plane`: the binary operations with a numeric constant (operator, numerator,\n"
        "denominator; innermost first), the dtypes of `astype`, every call in source order -/\n"
        f"def planeArith : List (Nat × List (String × Int × Nat) × List String × List String) := {plane_arith}\n"
        f"/-- the top-level `if` statements of the function, in source order -/\ndef frompilIfs : List String := {strs(info['frompil_ifs'])}\n"
        f"/-- the depth without a document -/\ndef depthDefault : String := {lean_str(info['depth_default'])}\n"
        f"/-- what is handed to `set_data` (plane | the other arguments) -/\ndef setDataArgs : List String := {strs(info['set_data_args'])}\n"
        f"/-- every inversion (guard, statement) -/\ndef layerInversions : List (String × String) := {pairs(info['layer_inversions'])}\n\n"
        "/-! api/psd_image.py `PSDImage.frompil`, `_make_header` -/\n\n"
        f"def docFrompil : List String := {strs(info['doc_frompil'])}\n"
        f"def docInversions : List (String × String) := {pairs(info['doc_inversions'])}\n"
        f"def headerDepthDefault : String := {lean_str(info['header_depth_default'])}\n"
        f"def headerAsserts : List String := {strs(info['header_asserts'])}\n\n"
        "/-! api/pil_io.py -/\n\n"
        f"/-- the if / elif chain of `_create_image` -/\ndef createImage : List String := {strs(info['create_image'])}\n"
        "/-- per depth: `frombytes` mode, raw mode, the lambda of `point` as the linear form PIL makes of it\n"
        "(scale numerator, denominator, offset numerator, denominator; `(1, 1, 0, 1)` without `point`, `(0, 0, 0, 0)` when it is\n"
        "not linear), the `convert` target, every call in source order -/\n"
        f"def createRows : List (Nat × String × String × (Int × Nat × Int × Nat) × String × List String) := {create_rows}\n"
        f"def postProcess : List String := {strs(info['post_process'])}\n"
        f"def pilInversions : List (String × String) := {pairs(info['pil_inversions'])}\n"
        f"/-- the functions that call `_remove_white_background` -/\ndef unmatteCallers : List String := {strs(info['unmatte_callers'])}\n"
        f"/-- its ImageMath expressions (lambda_eval, eval) -/\ndef unmatteExprs : List String := {strs(info['unmatte_exprs'])}\n"
        f"/-- the last statements of the two export functions -/\ndef layerTail : String := {lean_str(info['layer_tail'])}\n"
        f"def docTail : List String := {strs(info['doc_tail'])}\n\n"
        "/-! api/numpy_io.py -/\n\n"
        f"/-- the if / elif chain of `_parse_array` -/\ndef parseArray : List String := {strs(info['parse_array'])}\n"
        "/-- per depth: the dtypes of `frombuffer` / `astype`, the binary operations with a constant, every call -/\n"
        f"def parseRows : List (Nat × List String × List (String × Int × Nat) × List String) := {parse_rows}\n"
        f"def removeBackground : List String := {strs(info['remove_background'])}\n"
        f"/-- every `constant - x` / `invert` of the module -/\ndef numpyConstMinus : List String := {strs(info['numpy_const_minus'])}\n"
        "/-- the calls that decode stored planes (function: call): which depth and file version they pass -/\n"
        f"def pilGetData : List String := {strs(info['pil_get_data'])}\n"
        f"def numpyGetData : List String := {strs(info['numpy_get_data'])}\n\n"
        "end PsdVerif.Generated.PixelSamples\n"
    )
    ctx.write_generated("PixelSamples", src)
    for n in notes:
        ctx.notes.append("extract_c07 (samples): " + n + " (sentinels written, the tie fails)")
    missing = [k for k, v in info.items() if v in (MISSING, [MISSING], [(MISSING, MISSING)], [])
               and k not in ("numpy_const_minus",)]
    if info.get("numpy_const_minus") == [MISSING]:
        missing.append("numpy_const_minus")
    if missing:
        ctx.notes.append("extract_c07 (samples): not found in the current source (sentinel written, the tie fails): " + ", ".join(missing))
    return info
