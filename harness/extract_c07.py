"""C07/C17: table-shaped facts of the pixel pipeline, read from the live modules of the
working tree on every run -> lean/PsdVerif/Generated/Pixels.lean.

The model (Model/Pixels.lean) types these tables by hand; `PsdVerif.C07.tables_tied`
re-checks them against this dump on every run, so a change to one of the dictionaries in
pil_io.py / numpy_io.py / constants.py breaks the proof, not just a test.
"""
from __future__ import annotations

import importlib

from core import Infra
from extract import lean_str

MODES = ["1", "L", "LA", "RGB", "RGBA", "CMYK"]
CMODES = ["BITMAP", "GRAYSCALE", "RGB", "CMYK"]


def gen_pixels(ctx):
    try:
        pil_io = importlib.import_module("psd_tools.api.pil_io")
        numpy_io = importlib.import_module("psd_tools.api.numpy_io")
        const = importlib.import_module("psd_tools.constants")
    except Exception as e:  # noqa
        raise Infra(f"cannot import the pixel modules: {e}")
    CM = const.ColorMode
    expected = [(c, int(numpy_io.EXPECTED_CHANNELS[getattr(CM, c)])) for c in CMODES]
    cmch = [(c, int(CM.channels(getattr(CM, c)))) for c in CMODES]
    cmch_alpha = [(c, int(CM.channels(getattr(CM, c), True))) for c in CMODES]
    pilch = [(m, int(pil_io.get_pil_channels(m))) for m in MODES]
    pildepth = [(m, int(pil_io.get_pil_depth(m))) for m in MODES]
    pilmode = [(c, a, pil_io.get_pil_mode(getattr(CM, c), a)) for c in CMODES for a in (False, True)]
    colormode = [(m, pil_io.get_color_mode(m).name) for m in MODES]

    def pairs(xs):
        return "[" + ", ".join(f"({lean_str(a)}, {b})" for a, b in xs) + "]"

    src = (
        "namespace PsdVerif.Generated.Pixels\n"
        f"/-- `numpy_io.EXPECTED_CHANNELS` -/\ndef expectedChannels : List (String × Nat) := {pairs(expected)}\n"
        f"/-- `ColorMode.channels(mode)` -/\ndef colorModeChannels : List (String × Nat) := {pairs(cmch)}\n"
        f"/-- `ColorMode.channels(mode, True)` -/\ndef colorModeChannelsAlpha : List (String × Nat) := {pairs(cmch_alpha)}\n"
        f"/-- `pil_io.get_pil_channels(mode)` -/\ndef pilChannels : List (String × Nat) := {pairs(pilch)}\n"
        f"/-- `pil_io.get_pil_depth(mode)` -/\ndef pilDepth : List (String × Nat) := {pairs(pildepth)}\n"
        "/-- `pil_io.get_pil_mode(color_mode, alpha)` -/\ndef pilMode : List (String × Bool × String) := ["
        + ", ".join(f"({lean_str(c)}, {'true' if a else 'false'}, {lean_str(m)})" for c, a, m in pilmode) + "]\n"
        "/-- `pil_io.get_color_mode(mode).name` -/\ndef colorModeOf : List (String × String) := ["
        + ", ".join(f"({lean_str(m)}, {lean_str(c)})" for m, c in colormode) + "]\n"
        "end PsdVerif.Generated.Pixels\n"
    )
    ctx.write_generated("Pixels", src)
    return {"expectedChannels": dict(expected), "colorModeChannels": dict(cmch), "pilChannels": dict(pilch),
            "pilMode": [list(x) for x in pilmode], "colorModeOf": dict(colormode)}
