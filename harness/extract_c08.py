"""C08 extractor: the dispatch tables of `PSDImage._init` -> Generated/TreeKinds.lean.

Read from the current working tree on every run:
  * from the AST of `PSDImage._init` (api/psd_image.py): the keys consulted for the section divider
    (in override order), the ignored / pushing / popping divider kinds, the artboard keys, the
    if/elif dispatch chain (class instantiated, keys tested, in order), the keys of the shape
    condition and the classes the shape override may replace, the default class;
  * from the live registry `psd_tools.api.adjustments.TYPES`: key order, class kind, FillLayer-ness.
A change to the order of the chain, to a key list or to the registry changes the generated file,
and `Props/C08.lean` re-checks `kind_follows_blocks` / `divider_tables_tied` against it.
"""
from __future__ import annotations

import ast

from core import REPO, Infra
from extract import lean_str

SRC = REPO / "src" / "psd_tools" / "api" / "psd_image.py"


def _kind_of_class(name: str) -> str:
    return name.lower().replace("layer", "")


def _tags_in(node) -> list[str]:
    """Names X of every `Tag.X` below `node`, in source order."""
    out = []
    for n in ast.walk(node):
        if isinstance(n, ast.Attribute) and isinstance(n.value, ast.Name) and n.value.id == "Tag":
            out.append((n.lineno, n.col_offset, n.attr))
    return [a for _, _, a in sorted(out)]


def _divs_in(node) -> list[str]:
    out = []
    for n in ast.walk(node):
        if isinstance(n, ast.Attribute) and isinstance(n.value, ast.Name) and n.value.id == "SectionDivider":
            out.append((n.lineno, n.col_offset, n.attr))
    return [a for _, _, a in sorted(out)]


def _assigned_class(body, var="layer"):
    """Class name in the first `layer = Cls(...)` of a statement list (None if absent)."""
    for st in body:
        for n in ast.walk(st):
            if isinstance(n, ast.Assign) and len(n.targets) == 1 and isinstance(n.targets[0], ast.Name) \
                    and n.targets[0].id == var and isinstance(n.value, ast.Call):
                f = n.value.func
                if isinstance(f, ast.Name):
                    return f.id
                if isinstance(f, ast.Attribute):
                    return ast.unparse(f)
                if isinstance(f, ast.Subscript):
                    return ast.unparse(f.value)
    return None


def read_init():
    tree = ast.parse(SRC.read_text())
    init = None
    for cls in ast.walk(tree):
        if isinstance(cls, ast.ClassDef) and cls.name == "PSDImage":
            for f in cls.body:
                if isinstance(f, ast.FunctionDef) and f.name == "_init":
                    init = f
    if init is None:
        raise Infra("psd_image.py: PSDImage._init not found")
    loop = next((n for n in init.body if isinstance(n, ast.For)), None)
    if loop is None or "_iter_layers" not in ast.unparse(loop.iter):
        raise Infra("_init: loop over _iter_layers() not found")
    info = {"iter": ast.unparse(loop.iter), "reversed": "reversed" in ast.unparse(loop.iter)}

    # divider = blocks.get_data(K1, None); divider = blocks.get_data(K2, divider)
    div_keys = []
    for st in loop.body:
        if isinstance(st, ast.Assign) and isinstance(st.targets[0], ast.Name) and st.targets[0].id == "divider":
            div_keys += _tags_in(st.value)
    info["divider_keys"] = div_keys

    top_if = next((st for st in loop.body if isinstance(st, ast.If) and "divider" in ast.unparse(st.test)), None)
    if top_if is None:
        raise Infra("_init: `if divider is not None ...` not found")
    info["ignored_kinds"] = _divs_in(top_if.test)
    push, pop, art = [], [], []
    inner = next((st for st in top_if.body if isinstance(st, ast.If)), None)
    node = inner
    while node is not None:
        src = "\n".join(ast.unparse(s) for s in node.body)
        kinds = _divs_in(node.test)
        if "group_stack.append" in src:
            push += kinds
        elif "group_stack.pop" in src:
            pop += kinds
            for s in node.body:
                if isinstance(s, ast.For) and "Artboard._move" in ast.unparse(s):
                    art += _tags_in(s.iter)
        node = node.orelse[0] if len(node.orelse) == 1 and isinstance(node.orelse[0], ast.If) else None
    info["push_kinds"], info["pop_kinds"], info["artboard_keys"] = push, pop, art

    # the elif chain
    chain = []
    node = top_if
    while True:
        orelse = node.orelse
        if len(orelse) == 1 and isinstance(orelse[0], ast.If):
            node = orelse[0]
            cls = _assigned_class(node.body)
            chain.append({"cls": cls, "kind": _kind_of_class(cls or "?"), "keys": _tags_in(node.test)})
        else:
            src = "\n".join(ast.unparse(s) for s in orelse)
            if "adjustments.TYPES" in src:
                chain.append({"cls": "adjustments.TYPES", "kind": "", "keys": []})
            elif orelse:
                raise Infra("_init: unexpected final else arm: " + src[:80])
            break
    info["chain"] = chain

    # shape_condition = record.flags.pixel_data_irrelevant and (Tag... or ...)
    shape_keys, shape_flag = [], None
    overridable, shape_cls, default_cls = [], None, None
    for st in loop.body:
        if isinstance(st, ast.Assign) and isinstance(st.targets[0], ast.Name) and st.targets[0].id == "shape_condition":
            v = st.value
            if isinstance(v, ast.BoolOp) and isinstance(v.op, ast.And):
                shape_flag = ast.unparse(v.values[0])
            shape_keys = _tags_in(v)
        if isinstance(st, ast.If) and "shape_condition" in ast.unparse(st.test):
            for n in ast.walk(st.test):
                if isinstance(n, ast.Call) and isinstance(n.func, ast.Name) and n.func.id == "isinstance":
                    classes = n.args[1].elts if isinstance(n.args[1], ast.Tuple) else [n.args[1]]
                    overridable = [ast.unparse(c) for c in classes]
            shape_cls = _assigned_class(st.body)
        if isinstance(st, ast.If) and ast.unparse(st.test) == "layer is None":
            default_cls = _assigned_class(st.body)
    if shape_flag != "record.flags.pixel_data_irrelevant":
        raise Infra("_init: shape_condition no longer starts with record.flags.pixel_data_irrelevant: %r" % shape_flag)
    info.update(shape_keys=shape_keys, overridable=overridable, shape_cls=shape_cls, default_cls=default_cls)
    return info


def read_registry():
    from psd_tools.api import adjustments
    from psd_tools.api.layers import FillLayer
    out = []
    for key, cls in adjustments.TYPES.items():
        out.append({"key": key.name, "kind": _kind_of_class(cls.__name__), "fill": issubclass(cls, FillLayer)})
    return out


def _strs(xs):
    return "[" + ", ".join(lean_str(x) for x in xs) + "]"


def gen_tree_kinds(ctx):
    info = read_init()
    reg = read_registry()
    from psd_tools.constants import SectionDivider
    arms = ",\n    ".join(".registry" if a["cls"] == "adjustments.TYPES" else
                          ".test %s %s %s" % (lean_str(a["cls"]), lean_str(a["kind"]), _strs(a["keys"]))
                          for a in info["chain"])
    regs = ",\n    ".join("⟨%s, %s, %s⟩" % (lean_str(e["key"]), lean_str(e["kind"]), "true" if e["fill"] else "false") for e in reg)
    src = f"""import PsdVerif.Model.TreeParse

namespace PsdVerif.Generated.TreeKinds
open PsdVerif.Tree

/-- `PSDImage._init`: the if/elif dispatch chain, the registry `api.adjustments.TYPES` in
    registration order, the shape condition and override, the default class. -/
def tables : KindTables where
  chain := [
    {arms}]
  registry := [
    {regs}]
  shapeKeys := {_strs(info["shape_keys"])}
  overrideNone := {"true" if "type(None)" in info["overridable"] else "false"}   -- classes: {", ".join(info["overridable"])}
  overrideFill := {"true" if "FillLayer" in info["overridable"] else "false"}
  shapeKind := {lean_str(_kind_of_class(info["shape_cls"] or "?"))}
  defaultKind := {lean_str(_kind_of_class(info["default_cls"] or "?"))}

/-- keys consulted for the section divider, later ones override earlier ones -/
def dividerKeys : List String := {_strs(info["divider_keys"])}
/-- divider kinds for which the record is treated as an ordinary layer -/
def ignoredKinds : List String := {_strs(info["ignored_kinds"])}
/-- divider kinds that push a new group on the stack -/
def pushKinds : List String := {_strs(info["push_kinds"])}
/-- divider kinds that pop the stack and finish the group -/
def popKinds : List String := {_strs(info["pop_kinds"])}
/-- keys whose presence on the group record re-types the group as an artboard -/
def artboardKeys : List String := {_strs(info["artboard_keys"])}
/-- members of `constants.SectionDivider` with their values -/
def sectionDivider : List (String × Nat) := [{", ".join("(%s, %d)" % (lean_str(m.name), m.value) for m in SectionDivider)}]
/-- the record list is iterated in file order (`reversed(...)` absent) -/
def iteratesReversed : Bool := {"true" if info["reversed"] else "false"}

end PsdVerif.Generated.TreeKinds
"""
    ctx.write_generated("TreeKinds", src)
    return {"init": info, "registry": reg}
