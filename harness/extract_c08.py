"""C08 extractor: the dispatch tables of `PSDImage._init` -> Generated/TreeKinds.lean.

Read from the current working tree on every run:
  * from the AST of `PSDImage._init` (api/psd_image.py): the keys consulted for the section divider
    (in override order), the ignored / pushing / popping divider kinds, the artboard keys, the
    if/elif dispatch chain (class instantiated, keys tested, in order), the keys of the shape
    condition and the classes the shape override may replace, the default class;
  * from the live registry `psd_tools.api.adjustments.TYPES`: key order, class kind, FillLayer-ness.
  * from the AST of the *dispatch closure* (the record loop of `_init` plus every function / method of the same
    module it calls, transitively): the `record.flags.<name>` attributes read, the `Tag.<X>` names consulted, and the
    module-level / class-level MUTABLE state the closure touches (dict / list / set displays and constructors bound at
    module or class level, `global` statements, memoising decorators). The model's `kindOf` is a function of the
    record's blocks and of one flag; `Props/C08.lean dispatch_reads_tied` states that this is all the source reads
    and that nothing is remembered between records or documents.
  * from psd/__init__.py: where the reader looks for the records (`PSD._get_layer_info`, shared with C09's
    Generated/Reopen.lean).
A change to the order of the chain, to a key list or to the registry changes the generated file,
and `Props/C08.lean` re-checks `kind_follows_blocks` / `divider_tables_tied` against it.

A change of the source is never an infrastructure error: whatever is no longer found is written as the sentinel
`<not found>` (the tying theorems then fail: broken tie), the Generated file is always written.
"""
from __future__ import annotations

import ast

from core import REPO
from extract import lean_str

SRC = REPO / "src" / "psd_tools" / "api" / "psd_image.py"
MISSING = "<not found>"


def _kind_of_class(name: str) -> str:
    return name.lower().replace("layer", "")


def _tags_in(node) -> list[str]:
    """Names X of every `Tag.X` below `node`, in source order."""
    out = []
    for n in ast.walk(node):
        if isinstance(n, ast.Attribute) and isinstance(n.value, ast.Name) and n.value.id == "Tag":
            out.append((n.lineno, n.col_offset, n.attr))
    return [a for _, _, a in sorted(out)]


def _divs_in(node) -> list[str]:
    out = []
    for n in ast.walk(node):
        if isinstance(n, ast.Attribute) and isinstance(n.value, ast.Name) and n.value.id == "SectionDivider":
            out.append((n.lineno, n.col_offset, n.attr))
    return [a for _, _, a in sorted(out)]


def _assigned_class(body, var="layer"):
    """Class name in the first `layer = Cls(...)` of a statement list (None if absent)."""
    for st in body:
        for n in ast.walk(st):
            if isinstance(n, ast.Assign) and len(n.targets) == 1 and isinstance(n.targets[0], ast.Name) \
                    and n.targets[0].id == var and isinstance(n.value, ast.Call):
                f = n.value.func
                if isinstance(f, ast.Name):
                    return f.id
                if isinstance(f, ast.Attribute):
                    return ast.unparse(f)
                if isinstance(f, ast.Subscript):
                    return ast.unparse(f.value)
    return None


def _find_init(tree):
    for cls in ast.walk(tree):
        if isinstance(cls, ast.ClassDef) and cls.name == "PSDImage":
            for f in cls.body:
                if isinstance(f, ast.FunctionDef) and f.name == "_init":
                    return cls, f
    return None, None


def _record_loop(init):
    if init is None:
        return None
    for n in init.body:
        if isinstance(n, ast.For) and "_iter_layers" in ast.unparse(n.iter):
            return n
    return None


def read_init():
    """The tables of `_init`. Nothing raises: a piece that is no longer where it was is reported in
    info["missing"] and left at its sentinel (empty list / MISSING), which the tying theorems reject."""
    info = {"iter": MISSING, "reversed": False, "divider_keys": [], "ignored_kinds": [], "push_kinds": [],
            "pop_kinds": [], "artboard_keys": [], "chain": [], "shape_keys": [], "overridable": [],
            "shape_cls": None, "default_cls": None, "missing": []}
    try:
        tree = ast.parse(SRC.read_text())
    except (OSError, SyntaxError) as e:
        info["missing"].append("psd_image.py cannot be parsed: %s" % type(e).__name__)
        return info
    _, init = _find_init(tree)
    if init is None:
        info["missing"].append("PSDImage._init not found")
        return info
    loop = _record_loop(init)
    if loop is None:
        info["missing"].append("_init: loop over _iter_layers() not found")
        return info
    info["iter"] = ast.unparse(loop.iter)
    info["reversed"] = "reversed" in ast.unparse(loop.iter)

    # divider = blocks.get_data(K1, None); divider = blocks.get_data(K2, divider)
    div_keys = []
    for st in loop.body:
        if isinstance(st, ast.Assign) and isinstance(st.targets[0], ast.Name) and st.targets[0].id == "divider":
            div_keys += _tags_in(st.value)
    info["divider_keys"] = div_keys

    top_if = next((st for st in loop.body if isinstance(st, ast.If) and "divider" in ast.unparse(st.test)), None)
    if top_if is None:
        info["missing"].append("_init: `if divider is not None ...` not found")
        return info
    info["ignored_kinds"] = _divs_in(top_if.test)
    push, pop, art = [], [], []
    inner = next((st for st in top_if.body if isinstance(st, ast.If)), None)
    node = inner
    while node is not None:
        src = "\n".join(ast.unparse(s) for s in node.body)
        kinds = _divs_in(node.test)
        if "group_stack.append" in src:
            push += kinds
        elif "group_stack.pop" in src:
            pop += kinds
            for s in node.body:
                if isinstance(s, ast.For) and "Artboard._move" in ast.unparse(s):
                    art += _tags_in(s.iter)
        node = node.orelse[0] if len(node.orelse) == 1 and isinstance(node.orelse[0], ast.If) else None
    info["push_kinds"], info["pop_kinds"], info["artboard_keys"] = push, pop, art

    # the elif chain
    chain = []
    node = top_if
    while True:
        orelse = node.orelse
        if len(orelse) == 1 and isinstance(orelse[0], ast.If):
            node = orelse[0]
            cls = _assigned_class(node.body)
            chain.append({"cls": cls or MISSING, "kind": _kind_of_class(cls or MISSING), "keys": _tags_in(node.test)})
        else:
            src = "\n".join(ast.unparse(s) for s in orelse)
            if "adjustments.TYPES" in src:
                chain.append({"cls": "adjustments.TYPES", "kind": "", "keys": []})
            elif orelse:
                info["missing"].append("_init: unexpected final else arm: " + src[:80])
                chain.append({"cls": MISSING, "kind": MISSING, "keys": []})
            break
    info["chain"] = chain
    if not chain:
        info["missing"].append("_init: the elif dispatch chain after the divider test is gone")

    # shape_condition = record.flags.pixel_data_irrelevant and (Tag... or ...)
    shape_keys, shape_flag = [], None
    overridable, shape_cls, default_cls = [], None, None
    for st in loop.body:
        if isinstance(st, ast.Assign) and isinstance(st.targets[0], ast.Name) and st.targets[0].id == "shape_condition":
            v = st.value
            if isinstance(v, ast.BoolOp) and isinstance(v.op, ast.And):
                shape_flag = ast.unparse(v.values[0])
            shape_keys = _tags_in(v)
        if isinstance(st, ast.If) and "shape_condition" in ast.unparse(st.test):
            for n in ast.walk(st.test):
                if isinstance(n, ast.Call) and isinstance(n.func, ast.Name) and n.func.id == "isinstance" and len(n.args) == 2:
                    classes = n.args[1].elts if isinstance(n.args[1], ast.Tuple) else [n.args[1]]
                    overridable = [ast.unparse(c) for c in classes]
            shape_cls = _assigned_class(st.body)
        if isinstance(st, ast.If) and ast.unparse(st.test) == "layer is None":
            default_cls = _assigned_class(st.body)
    if shape_flag != "record.flags.pixel_data_irrelevant":
        info["missing"].append("_init: shape_condition no longer starts with record.flags.pixel_data_irrelevant: %r" % shape_flag)
        shape_keys = [MISSING] + shape_keys
    info.update(shape_keys=shape_keys, overridable=overridable, shape_cls=shape_cls, default_cls=default_cls)
    return info


# ---- what the dispatch reads, and what it remembers ------------------------------------------------
_MUTABLE_CALLS = {"dict", "list", "set", "defaultdict", "OrderedDict", "Counter", "deque", "WeakValueDictionary",
                  "WeakKeyDictionary", "bytearray"}
_MEMO_DECORATORS = {"lru_cache", "cache", "cached", "memoize", "memoized", "cached_property"}


def _is_mutable_value(v) -> bool:
    if isinstance(v, (ast.Dict, ast.List, ast.Set, ast.DictComp, ast.ListComp, ast.SetComp)):
        return True
    if isinstance(v, ast.Call):
        f = v.func
        name = f.id if isinstance(f, ast.Name) else f.attr if isinstance(f, ast.Attribute) else None
        return name in _MUTABLE_CALLS
    return False


def _bound_mutables(body):
    """names bound, directly in a module or class body, to a mutable container"""
    out = set()
    for st in body:
        if isinstance(st, ast.Assign) and _is_mutable_value(st.value):
            out |= {t.id for t in st.targets if isinstance(t, ast.Name)}
        elif isinstance(st, ast.AnnAssign) and st.value is not None and _is_mutable_value(st.value) \
                and isinstance(st.target, ast.Name):
            out.add(st.target.id)
    return out


def read_dispatch_reads():
    try:
        return _read_dispatch_reads()
    except Exception:  # noqa  (an AST shape this reader does not understand: sentinel, never an infrastructure error)
        return {"flags": [MISSING], "tags": [MISSING], "state": [MISSING], "functions": [MISSING]}


def _read_dispatch_reads():
    """-> {"flags": [...], "tags": [...], "state": [...], "functions": [...]} of the dispatch closure: the body
    of the record loop of `_init` and, transitively, every module-level function and every method of PSDImage
    that it calls by name (`f(...)`, `self.f(...)`, `cls.f(...)`, `PSDImage.f(...)`)."""
    out = {"flags": [MISSING], "tags": [MISSING], "state": [MISSING], "functions": [MISSING]}
    try:
        tree = ast.parse(SRC.read_text())
    except (OSError, SyntaxError):
        return out
    cls, init = _find_init(tree)
    loop = _record_loop(init)
    if loop is None:
        return out
    mod_funcs = {n.name: n for n in tree.body if isinstance(n, (ast.FunctionDef, ast.AsyncFunctionDef))}
    methods = {n.name: n for n in cls.body if isinstance(n, (ast.FunctionDef, ast.AsyncFunctionDef))}
    mod_state = _bound_mutables(tree.body)
    cls_state = _bound_mutables(cls.body)
    seen, todo, nodes = [], [], list(loop.body)
    flags, tags, state = set(), set(), set()

    def scan(stmts, fname):
        for st in stmts:
            for n in ast.walk(st):
                if isinstance(n, ast.Attribute):
                    if isinstance(n.value, ast.Attribute) and n.value.attr == "flags":
                        flags.add(n.attr)
                    if isinstance(n.value, ast.Name) and n.value.id == "Tag":
                        tags.add(n.attr)
                    if isinstance(n.value, ast.Name) and n.value.id in ("self", "cls", "PSDImage") and n.attr in cls_state:
                        state.add("PSDImage." + n.attr)
                elif isinstance(n, ast.Name) and n.id in mod_state:
                    state.add(n.id)
                elif isinstance(n, (ast.Global, ast.Nonlocal)):
                    state.update("global " + x for x in n.names)
                elif isinstance(n, ast.Call):
                    f = n.func
                    if isinstance(f, ast.Name) and f.id in mod_funcs:
                        todo.append(("", f.id))
                    elif isinstance(f, ast.Attribute) and isinstance(f.value, ast.Name) and \
                            f.value.id in ("self", "cls", "PSDImage") and f.attr in methods:
                        todo.append(("PSDImage.", f.attr))

    scan(nodes, "_init")
    while todo:
        pre, name = todo.pop()
        if (pre, name) in seen:
            continue
        seen.append((pre, name))
        fn = (methods if pre else mod_funcs)[name]
        for d in fn.decorator_list:
            dn = d.func if isinstance(d, ast.Call) else d
            dname = dn.id if isinstance(dn, ast.Name) else dn.attr if isinstance(dn, ast.Attribute) else ""
            if dname in _MEMO_DECORATORS:
                state.add("@%s %s%s" % (dname, pre, name))
        scan(fn.body, pre + name)
    return {"flags": sorted(flags), "tags": sorted(tags), "state": sorted(state),
            "functions": sorted(p + n for p, n in seen)}


def read_registry():
    out = []
    try:
        from psd_tools.api import adjustments
        from psd_tools.api.layers import FillLayer
        for key, cls in adjustments.TYPES.items():
            out.append({"key": getattr(key, "name", str(key)), "kind": _kind_of_class(cls.__name__),
                        "fill": issubclass(cls, FillLayer)})
    except Exception as e:  # noqa  (registry renamed / moved: sentinel entry, the tie fails)
        out.append({"key": MISSING, "kind": "%s: %s" % (type(e).__name__, str(e)[:60]), "fill": False})
    return out


PAIR_ATTRS = ("_record", "_channels", "_bounding_record", "_bounding_channels")
LAYERS_SRC = REPO / "src" / "psd_tools" / "api" / "layers.py"


def read_pair_slots():
    """The (record, channel list) PAIRS of the tree: the model treats a record and its channel list as one payload id,
    i.e. it assumes the four slots `_record` / `_channels` / `_bounding_record` / `_bounding_channels` are filled with
    the objects handed in, unmodified, and flattened in parallel.  From the AST of api/layers.py and api/psd_image.py:
      stores   every `self.<slot> = <expr>`                       -> (function, slot, expression text)
      calls    every `<x>._set_bounding_records(<args>)`          -> (calling function, argument text)
      appends  every `<list>.append(<expr>)` of `_build_record_tree` -> (list name, expression text), in source order
    Never raises: whatever cannot be read yields one sentinel row."""
    out = {"stores": [], "calls": [], "appends": []}
    try:
        for path in (LAYERS_SRC, SRC):
            tree = ast.parse(path.read_text())
            mod = path.name

            def visit(node, qual):
                for ch in ast.iter_child_nodes(node):
                    if isinstance(ch, (ast.FunctionDef, ast.AsyncFunctionDef, ast.ClassDef)):
                        visit(ch, (qual + "." if qual else "") + ch.name)
                        continue
                    for n in ([ch] + [x for x in ast.walk(ch) if x is not ch and not isinstance(x, (ast.FunctionDef, ast.ClassDef))]):
                        if isinstance(n, (ast.Assign, ast.AnnAssign)) and getattr(n, "value", None) is not None:
                            tg = n.targets if isinstance(n, ast.Assign) else [n.target]
                            for t in tg:
                                for el in (t.elts if isinstance(t, (ast.Tuple, ast.List)) else [t]):
                                    if isinstance(el, ast.Attribute) and isinstance(el.value, ast.Name) and \
                                            el.value.id == "self" and el.attr in PAIR_ATTRS:
                                        out["stores"].append((n.lineno, qual, el.attr, ast.unparse(n.value)))
                        elif isinstance(n, ast.Call) and isinstance(n.func, ast.Attribute):
                            if n.func.attr == "_set_bounding_records":
                                args = [ast.unparse(a) for a in n.args] + ["%s=%s" % (k.arg, ast.unparse(k.value)) for k in n.keywords]
                                out["calls"].append((n.lineno, qual, ", ".join(args)))
                            elif n.func.attr == "append" and qual.split(".")[-1] == "_build_record_tree" and \
                                    isinstance(n.func.value, ast.Name) and mod == "psd_image.py":
                                out["appends"].append((n.lineno, n.func.value.id, ", ".join(ast.unparse(a) for a in n.args)))
            visit(tree, "")
            for k in out:               # source order within the file; files in the order above
                out[k] = [r for r in out[k] if not isinstance(r[0], int)] + [tuple(r[1:]) for r in sorted(r for r in out[k] if isinstance(r[0], int))]
    except Exception as e:  # noqa
        out["stores"].append((MISSING, MISSING, "%s: %s" % (type(e).__name__, str(e)[:60])))
    for k in out:
        if not out[k]:
            out[k].append((MISSING,) * (3 if k == "stores" else 2))
    return out


def _strs(xs):
    return "[" + ", ".join(lean_str(x) for x in xs) + "]"


def _tuples(rows):
    return "[" + ",\n  ".join("(" + ", ".join(lean_str(x) for x in r) + ")" for r in rows) + "]"


def gen_tree_kinds(ctx):
    info = read_init()
    reg = read_registry()
    reads = read_dispatch_reads()
    pairs = read_pair_slots()
    for m in info["missing"]:
        ctx.notes.append("extract_c08: " + m + " (sentinel written, the tying theorem fails)")
    try:
        from psd_tools.constants import SectionDivider
        divider_members = [(m.name, int(m.value)) for m in SectionDivider]
    except Exception:  # noqa
        divider_members = [(MISSING, 0)]
    arms = ",\n    ".join(".registry" if a["cls"] == "adjustments.TYPES" else
                          ".test %s %s %s" % (lean_str(a["cls"]), lean_str(a["kind"]), _strs(a["keys"]))
                          for a in info["chain"])
    regs = ",\n    ".join("⟨%s, %s, %s⟩" % (lean_str(e["key"]), lean_str(e["kind"]), "true" if e["fill"] else "false") for e in reg)
    src = f"""import PsdVerif.Model.TreeParse

namespace PsdVerif.Generated.TreeKinds
open PsdVerif.Tree

/-- `PSDImage._init`: the if/elif dispatch chain, the registry `api.adjustments.TYPES` in
    registration order, the shape condition and override, the default class. -/
def tables : KindTables where
  chain := [
    {arms}]
  registry := [
    {regs}]
  shapeKeys := {_strs(info["shape_keys"])}
  overrideNone := {"true" if "type(None)" in info["overridable"] else "false"}   -- classes: {", ".join(info["overridable"])}
  overrideFill := {"true" if "FillLayer" in info["overridable"] else "false"}
  shapeKind := {lean_str(_kind_of_class(info["shape_cls"] or "?"))}
  defaultKind := {lean_str(_kind_of_class(info["default_cls"] or "?"))}

/-- keys consulted for the section divider, later ones override earlier ones -/
def dividerKeys : List String := {_strs(info["divider_keys"])}
/-- divider kinds for which the record is treated as an ordinary layer -/
def ignoredKinds : List String := {_strs(info["ignored_kinds"])}
/-- divider kinds that push a new group on the stack -/
def pushKinds : List String := {_strs(info["push_kinds"])}
/-- divider kinds that pop the stack and finish the group -/
def popKinds : List String := {_strs(info["pop_kinds"])}
/-- keys whose presence on the group record re-types the group as an artboard -/
def artboardKeys : List String := {_strs(info["artboard_keys"])}
/-- members of `constants.SectionDivider` with their values -/
def sectionDivider : List (String × Nat) := [{", ".join("(%s, %d)" % (lean_str(n), v) for n, v in divider_members)}]
/-- the record list is iterated in file order (`reversed(...)` absent) -/
def iteratesReversed : Bool := {"true" if info["reversed"] else "false"}
/-- the expression the record loop of `_init` iterates over -/
def loopSource : String := {lean_str(info["iter"])}

/-- the dispatch closure: the body of the record loop of `_init` and every function / method of psd_image.py it
    calls (transitively): the functions followed, … -/
def dispatchFunctions : List String := {_strs(reads["functions"])}
/-- … the `<record>.flags.<name>` attributes it reads, … -/
def dispatchFlags : List String := {_strs(reads["flags"])}
/-- … the `Tag.<X>` names it consults (sorted), … -/
def dispatchTags : List String := {_strs(reads["tags"])}
/-- … and the module-level / class-level mutable containers, `global` names and memoising decorators it touches:
    anything here can make the kind of a record depend on records seen before -/
def dispatchState : List String := {_strs(reads["state"])}

/-- the (record, channel list) pairs: every `self.<slot> = <expr>` of api/layers.py / api/psd_image.py for the slots
    `_record`, `_channels`, `_bounding_record`, `_bounding_channels`: (function, slot, expression) -/
def pairStores : List (String × String × String) := {_tuples(pairs["stores"])}
/-- every call of `_set_bounding_records`: (calling function, arguments) -/
def pairCalls : List (String × String) := {_tuples(pairs["calls"])}
/-- the `append`s of `_build_record_tree` in source order: (list, expression) -/
def flattenAppends : List (String × String) := {_tuples(pairs["appends"])}

end PsdVerif.Generated.TreeKinds
"""
    ctx.write_generated("TreeKinds", src)
    return {"init": info, "registry": reg, "reads": reads, "pairs": pairs}
