"""Shared machinery of C09 / C10 / C14: drive the REAL layer-tree API with operation
histories, keep model ids <-> Python object identity, dump the object graph, evaluate the
oracles that do not depend on the model (nested-list replay, invariant I1-I4 on the object
graph, cache freshness, refused => unchanged) and talk to the model (`tree.run`).

An operation is a tuple whose first item is its name and whose other items are ids / ints /
tuples of ids (`None` = Python None), exactly the tokens of `Driver/Tree.lean: parseOp`.
"""
from __future__ import annotations

import hashlib
import io
import itertools

import core
from core import err_class

from PIL import Image  # noqa: E402
from psd_tools import PSDImage  # noqa: E402
from psd_tools.api.layers import (Artboard, FillLayer, Group, GroupMixin, Layer, PixelLayer,  # noqa: E402
                                  ShapeLayer)
from psd_tools.constants import Clipping, Tag  # noqa: E402

FIX = core.REPO / "tests" / "psd_files"
LIMIT = 150          # recursion budget of the model (never reached by the trees generated here)
BOGUS = 999999       # id standing for a non-layer object
INSERTING = ("append", "extend", "insert", "setitem", "setslice")
# attribute setters that are outside the modelled state (model operation `attr x`: nothing but the
# attribute changes - no list, pointer, dirty flag or cached box)
ATTR_OPS = ("rename", "clip", "opacity", "maskoff")


# ------------------------------------------------------------------------------------------
# worlds
# ------------------------------------------------------------------------------------------
class World:
    def __init__(self, recipe):
        self.recipe = recipe
        self.objs: list = []          # id -> object (None = placeholder of an object lost to an exception)
        self._ids: dict = {}
        self.last_frames: tuple = ()  # function names of the traceback of the last exception
        self.origin: dict = {}        # layer id -> (mode, depth) of the document it was made for (None: made without one)
        self.layout: dict = {}        # layer id -> (mode, depth, file version) of that document

    def reg(self, o) -> int:
        if o is not None and id(o) in self._ids:
            return self._ids[id(o)]
        self.objs.append(o)
        if o is not None:
            self._ids[id(o)] = len(self.objs) - 1
            if isinstance(o, Layer):
                d = getattr(o, "_psd", None)
                try:
                    self.origin[len(self.objs) - 1] = None if d is None else (d.pil_mode, d.depth)
                    self.layout[len(self.objs) - 1] = None if d is None else (d.pil_mode, d.depth, d.version)
                except Exception:  # noqa
                    pass
        return len(self.objs) - 1

    def reg_tree(self, g):
        self.reg(g)
        for l in g._layers:
            if isinstance(l, GroupMixin):
                self.reg_tree(l)
            else:
                self.reg(l)

    def idof(self, o):
        if o is None:
            return None
        return self._ids.get(id(o), BOGUS)

    def obj(self, i):
        if i is None:
            return None
        if i == BOGUS or i >= len(self.objs):
            return 3            # some non-layer object
        return self.objs[i]

    # --- id sets used by the generators
    def ids(self):
        return [i for i, o in enumerate(self.objs) if o is not None]

    def docs(self):
        return [i for i, o in enumerate(self.objs) if o is not None and _kind(o) == "d"]

    def conts(self):
        return [i for i, o in enumerate(self.objs) if o is not None and _kind(o) != "l"]

    def groups(self):
        return [i for i, o in enumerate(self.objs) if o is not None and _kind(o) in ("g", "a")]

    def layers(self):
        return [i for i, o in enumerate(self.objs) if o is not None and _kind(o) != "d"]

    def plain_leaves(self):
        return [i for i in self.layers()
                if not isinstance(self.objs[i], (Group, ShapeLayer, FillLayer))]

    def listed(self):
        """ids currently listed in some container -> list of containers"""
        m: dict = {}
        for c in self.conts():
            for x in self.objs[c]._layers:
                m.setdefault(self.idof(x), []).append(c)
        return m

    def detached(self):
        l = self.listed()
        return [i for i in self.layers() if i not in l]


def _img(mode, w=2, h=2, color=None):
    if color is None:
        color = {"L": 90, "RGB": (200, 30, 60), "CMYK": (10, 120, 40, 5)}[mode]
    return Image.new(mode, (w, h), color)


def _px(psd, mode, name, left=0, top=0, w=2, h=2, clip=False, visible=True):
    kw = {}
    if clip:
        kw["clipping"] = Clipping.NON_BASE
    l = PixelLayer.frompil(_img(mode, w, h), psd, name, top, left, **kw)
    if not visible:
        l._record.flags.visible = False
    return l


COMPRESSIONS = {"raw": 0, "rle": 1, "zip": 2, "zipp": 3}


def _pattern(mode, w=5, h=4):
    """a small picture with a gradient, runs of equal samples (RLE has something to do) and - where PIL can express
    it - transparent, half transparent and opaque pixels"""
    bands = {"L": 1, "RGB": 3, "CMYK": 4}[mode]
    px = []
    for y in range(h):
        for x in range(w):
            v = [(40 * x + 17 * y + 60 * b) % 256 if y else 200 - 30 * b for b in range(bands)]
            a = 0 if (x, y) == (w - 1, h - 1) else 128 if x == 0 else 255
            px.append(tuple(v + ([a] if mode != "CMYK" else [])))
    im = Image.new({"L": "LA", "RGB": "RGBA", "CMYK": "CMYK"}[mode], (w, h))
    im.putdata(px)
    return im


def _px_comp(psd, mode, name, left, top, w, h, comp):
    """a pixel layer made by the API with compression `comp` = "<all planes>" or "<transparency plane>+<other planes>"
    (planes re-encoded one by one, as a writer that chooses per plane - Photoshop - leaves them)"""
    from psd_tools.constants import Compression
    from psd_tools.psd.layer_and_mask import ChannelData
    first, _, rest = comp.partition("+")
    l = PixelLayer.frompil(_pattern(mode, w, h), psd, name, top, left, Compression(COMPRESSIONS[rest or first]))
    if rest:
        d, v = psd.depth, psd.version
        ch = l._channels[0]
        new = ChannelData(Compression(COMPRESSIONS[first]))
        new.set_data(ch.get_data(w, h, d, v), w, h, d, v)
        l._channels[0] = new
        l._record.channel_info[0].length = len(new.data) + 2
    return l


def _new_doc(mode, depth, version):
    # the public way to a PSB: a canvas wider than 30000 pixels
    return PSDImage.new(mode, (30001, 4) if version == 2 else (8, 8), depth=depth)


def build_adopt(recipe) -> World:
    """("adopt", source, target): a source document and a target document for cross-document adoption.
    source = "f:<fixture>" | "n:<mode>:<depth>:<version>:<compression>"; target = "<mode>:<depth>:<version>" where
    mode / depth may be "=" (as the source). ids: the source tree, then the target, its layer b1 and its group gb."""
    w = World(recipe)
    src, dst = recipe[1], recipe[2]
    if src.startswith("f:"):
        A = PSDImage.open(str(FIX / src[2:]))
    else:
        _, mode, depth, version, comp = src.split(":")
        A = _new_doc(mode, int(depth), int(version))
        A.append(_px_comp(A, mode, "p1", 0, 0, 5, 4, comp))
        ga = Group.new("ga", parent=A)
        ga.append(_px_comp(A, mode, "p2", 2, 1, 3, 3, comp))
        A.append(_px_comp(A, mode, "p3", 1, 2, 4, 2, comp.split("+")[-1]))
    w.reg_tree(A)
    mode, depth, version = dst.split(":")
    mode = A.pil_mode if mode == "=" else mode
    B = _new_doc(mode, A.depth if depth == "=" else int(depth), int(version))
    w.reg(B)
    base = mode.rstrip("A") if mode.rstrip("A") in ("L", "RGB", "CMYK") else "RGB"
    B.append(PixelLayer.frompil(_pattern(base, 3, 2), B, "b1", 1, 0))
    Group.new("gb", parent=B)
    w.reg_tree(B)
    return w


def build(recipe) -> World:
    """recipe = (shape, mode, depth) | ("fixture", relative path) | ("adopt", source, target)"""
    if recipe[0] == "adopt":
        w = build_adopt(recipe)
        for d in w.docs():
            w.objs[d]._update_record()
            w.objs[d]._updated_layers = False
            w.objs[d]._bbox = None
        for g in w.groups():
            w.objs[g]._bbox = None
        return w
    w = World(recipe)
    shape = recipe[0]
    if shape == "fixture":
        p = PSDImage.open(str(FIX / recipe[1]))
        w.reg_tree(p)
        q = PSDImage.new("RGB", p.size)          # same canvas: FillLayer boxes follow the document
        w.reg(q)
        a = _px(q, "RGB", "qa", 1, 1)
        q.append(a)
        w.reg(a)
        w.reg(Group.new("fg"))                   # detached fresh group
        if p.depth == 8:
            w.reg(_px(p, p.pil_mode if p.pil_mode in ("L", "RGB", "CMYK") else "RGB", "fl", 0, 1))
        return w
    mode, depth = recipe[1], recipe[2]
    A = PSDImage.new(mode, (8, 8), depth=depth)
    w.reg(A)
    if shape == "flat":
        for k in range(3):
            A.append(_px(A, mode, "x%d" % k, k, k))
        w.reg_tree(A)
        w.reg(_px(A, mode, "fresh", 3, 0))
        w.reg(Group.new("fg"))
    elif shape == "nest":
        x1 = _px(A, mode, "x1", 0, 0)
        A.append(x1)
        g1 = Group.new("g1", parent=A)
        g1.append(_px(A, mode, "x2", 1, 2))
        g2 = Group.new("g2", parent=g1)
        g2.append(_px(A, mode, "x3", 4, 4, 3, 3))
        g1.append(_px(A, mode, "c1", 2, 1, clip=True))
        A.append(_px(A, mode, "x4", 5, 0, visible=False))
        w.reg_tree(A)
        w.reg(_px(A, mode, "fresh", 3, 0))
        w.reg(Group.new("fg"))
    elif shape == "two":
        a1 = _px(A, mode, "a1", 0, 0)
        A.append(a1)
        ga = Group.new("ga", parent=A)
        ga.append(_px(A, mode, "a2", 2, 2))
        w.reg_tree(A)
        m2 = recipe[3] if len(recipe) > 3 else "RGB"
        B = PSDImage.new(m2, (8, 8))
        w.reg(B)
        B.append(_px(B, m2, "b1", 1, 0))
        gb = Group.new("gb", parent=B)
        w.reg_tree(B)
        w.reg(_px(B, m2, "fresh", 0, 3))
    elif shape == "small":
        A.append(_px(A, mode, "x0", 0, 0))
        g = Group.new("g", parent=A)
        w.reg_tree(A)
        w.reg(_px(A, mode, "fresh", 3, 3))
    elif shape == "dup":
        # names shared by a group, its descendants and layers elsewhere (name search: C10 I4)
        A.append(_px(A, mode, "n", 0, 0))
        g1 = Group.new("n", parent=A)
        g1.append(_px(A, mode, "n", 1, 2))
        g2 = Group.new("n", parent=g1)
        g2.append(_px(A, mode, "m", 4, 4, 3, 3))
        g2.append(_px(A, mode, "n", 2, 1))
        g3 = Group.new("m", parent=A)
        g3.append(_px(A, mode, "m", 5, 0))
        w.reg_tree(A)
        w.reg(_px(A, mode, "n", 3, 0))
        w.reg(Group.new("m"))
    elif shape == "hid":
        # groups below a hidden and below a visible group (visibility is inherited: the box of a group depends on
        # its ancestors), a hidden leaf, a detached group with content
        H = Group.new("H", parent=A)
        K = Group.new("K", parent=H)
        K.append(_px(A, mode, "a", 1, 2))
        H.append(_px(A, mode, "h", 0, 5, 2, 1))
        V = Group.new("V", parent=A)
        M = Group.new("M", parent=V)
        M.append(_px(A, mode, "b", 4, 4, 3, 3))
        V.append(_px(A, mode, "v", 6, 0, 1, 2))
        A.append(_px(A, mode, "x", 5, 6))
        H._record.flags.visible = False
        w.reg_tree(A)
        fg = Group.new("fg")
        fg.append(_px(A, mode, "f", 2, 0, 3, 1))
        w.reg_tree(fg)
    elif shape == "clips":
        # clipping runs (C14 degenerate end states): a base with two half transparent clipping layers inside a group,
        # a base with one clipping layer at the top level; releasing the last of them leaves a document without any
        g = Group.new("g", parent=A)
        g.append(_px(A, mode, "base", 1, 1, 5, 5))
        for k in range(2):
            c = _px(A, mode, "clip%d" % k, 3 + 2 * k, 0, 4, 3, clip=True)
            c._record.opacity = 128
            g.append(c)
        A.append(_px(A, mode, "base2", 0, 5, 4, 3))
        c = _px(A, mode, "clip2", 2, 4, 4, 3, clip=True)
        c._record.opacity = 128
        A.append(c)
        w.reg_tree(A)
        w.reg(_px(A, mode, "fresh", 3, 0))
        w.reg(Group.new("fg"))
    elif shape == "board":
        # a document with artboards (API-built, typed by the reader: saved and reopened once)
        import docbuild
        A.append(_px(A, mode, "x1", 0, 0))
        b1 = Group.new("board1", parent=A)
        b1.append(_px(A, mode, "x2", 1, 2))
        g2 = Group.new("g2", parent=b1)
        g2.append(_px(A, mode, "x3", 4, 4, 3, 3))
        b1.append(_px(A, mode, "c1", 2, 1, clip=True))
        b2 = Group.new("board2", parent=A)
        A.append(_px(A, mode, "x4", 5, 0))
        docbuild.make_artboard(b1, (0, 0, 6, 7))
        docbuild.make_artboard(b2, (6, 0, 8, 8))
        buf = io.BytesIO()
        A.save(buf)
        A = PSDImage.open(io.BytesIO(buf.getvalue()))
        w = World(recipe)
        w.reg(A)
        w.reg_tree(A)
        w.reg(_px(A, mode, "fresh", 3, 0))
        w.reg(Group.new("fg"))
    else:
        raise ValueError(shape)
    for d in w.docs():           # building is not part of the history: records rebuilt, flag reset
        w.objs[d]._update_record()
        w.objs[d]._updated_layers = False
        w.objs[d]._bbox = None
    for g in w.groups():
        w.objs[g]._bbox = None
    return w


# ------------------------------------------------------------------------------------------
# dumps (format of Driver/Tree.lean: showNode)
# ------------------------------------------------------------------------------------------
def _box(b):
    return "%d,%d,%d,%d" % tuple(int(v) for v in b)


_KIND_OF_TYPE: dict = {}


def _kind(o):
    """d / a / g / l by class (cached per class: GroupMixin is a typing.Protocol, whose instance checks are slow)"""
    t = type(o)
    k = _KIND_OF_TYPE.get(t)
    if k is None:
        k = "d" if isinstance(o, PSDImage) else "a" if isinstance(o, Artboard) else "g" if isinstance(o, Group) else "l"
        _KIND_OF_TYPE[t] = k
    return k


def _artboard_rect(a):
    data = None
    for key in (Tag.ARTBOARD_DATA1, Tag.ARTBOARD_DATA2, Tag.ARTBOARD_DATA3):
        if key in a.tagged_blocks:
            data = a.tagged_blocks.get_data(key)
    r = data.get(b"artboardRect")
    return tuple(int(r.get(k)) for k in (b"Left", b"Top ", b"Rght", b"Btom"))


def block_keys(o):
    """the tagged-block keys of the record of a layer, in stored order, as numbers (model: `State.blocks`); () for a
    document"""
    if _kind(o) == "d":
        return ()
    tb = getattr(getattr(o, "_record", None), "tagged_blocks", None)
    if tb is None:
        return ()
    return tuple(int.from_bytes(bytes(getattr(key, "value", key))[:8], "big") for key in tb.keys())


def node_fields(w: World, i: int):
    o = w.objs[i]
    k = _kind(o)
    if k == "l":
        kids = []
    else:
        kids = [w.idof(x) for x in o._layers]
    par = None if k == "d" else w.idof(o._parent)
    psd = None if k == "d" else w.idof(getattr(o, "_psd", None))
    vis = True if k == "d" else bool(o._record.flags.visible)
    if k == "d":
        box = (0, 0, o.width, o.height)
    elif k == "g":
        box = (0, 0, 0, 0)
    elif k == "a":
        box = _artboard_rect(o)
    elif isinstance(o, (ShapeLayer, FillLayer)):
        try:
            box = o.bbox
        except Exception:
            box = (0, 0, 0, 0)
    else:
        r = o._record
        box = (r.left, r.top, r.right, r.bottom)
    cache = None if k == "l" else getattr(o, "_bbox", None)
    dirty = bool(o._updated_layers) if k == "d" else False
    return k, kids, par, psd, vis, tuple(box), cache, dirty, block_keys(o)


def _nats(l):
    return ",".join(str(x) for x in l) if l else "-"


def _opt(x):
    return "_" if x is None else str(x)


def node_str(i, f):
    k, kids, par, psd, vis, box, cache, dirty, blocks = f
    return " ".join([str(i), k, _nats(kids), _opt(par), _opt(psd), "1" if vis else "0", _box(box),
                     "_" if cache is None else _box(cache), "1" if dirty else "0", _nats(blocks)])


def mask_cache(node: str) -> str:
    f = node.split(" ")
    f[7] = "*"
    return " ".join(f)


def mask_blocks(node: str) -> str:
    f = node.split(" ")
    f[9] = "*"
    return " ".join(f)


def same_node(real: str, model) -> bool:
    if model is None:
        return False
    if real == model:
        return True
    a, b = real.split(" "), model.split(" ")
    return len(a) == len(b) and all(x == y or x == "*" for x, y in zip(a, b))


def dump(w: World) -> dict:
    """id -> node string, for every live (non placeholder) id"""
    return {i: node_str(i, node_fields(w, i)) for i in w.ids()}


def init_str(w: World) -> str:
    parts = ["%d %d" % (LIMIT, len(w.objs))]
    for i in w.ids():
        k, kids, par, psd, vis, box, cache, dirty, blocks = node_fields(w, i)
        parts.append(" ".join([str(i), k, _opt(par), _opt(psd), "1" if vis else "0", _box(box),
                               "_" if cache is None else _box(cache), "1" if dirty else "0", _nats(kids), _nats(blocks)]))
    return ";".join(parts)


def structure(w: World):
    """what `refused => unchanged` speaks about: lists and back pointers of every object"""
    out = {}
    for i in w.ids():
        k, kids, par, psd, vis, box, cache, dirty, _blocks = node_fields(w, i)
        out[i] = (tuple(kids), par, psd)
    return out


# ------------------------------------------------------------------------------------------
# operations on the real API
# ------------------------------------------------------------------------------------------
def op_str(op) -> str:
    def tok(v):
        if v is None:
            return "_"
        if isinstance(v, bool):
            return "1" if v else "0"
        if isinstance(v, (tuple, list)):
            if v and isinstance(v[0], str):       # obs sub-command
                return " ".join(tok(x) for x in v)
            return _nats(list(v))
        return str(v)
    return " ".join(tok(v) for v in op)


def model_op(op):
    """the operation the model is given for `op`"""
    if op[0] in ATTR_OPS:
        return ("attr", op[1])
    return op


def _slice(a, b):
    return slice(a, b)


def apply_real(w: World, op):
    """Execute `op` on the real objects. Returns the canonical output string (model: showOut)."""
    name = op[0]
    O = w.obj
    w.last_frames = ()
    try:
        if name == "append":
            O(op[1]).append(O(op[2])); return "none"
        if name == "extend":
            O(op[1]).extend([O(x) for x in op[2]]); return "none"
        if name == "insert":
            O(op[1]).insert(op[2], O(op[3])); return "none"
        if name == "remove":
            r = O(op[1]).remove(O(op[2])); return "id:%d" % w.idof(r)
        if name == "pop":
            r = O(op[1]).pop(op[2]); return "id:%d" % w.idof(r)
        if name == "clear":
            O(op[1]).clear(); return "none"
        if name == "setitem":
            O(op[1])[op[2]] = O(op[3]); return "none"
        if name == "setslice":
            O(op[1])[_slice(op[2], op[3])] = [O(x) for x in op[4]]; return "none"
        if name == "delitem":
            del O(op[1])[op[2]]; return "none"
        if name == "delslice":
            del O(op[1])[_slice(op[2], op[3])]; return "none"
        if name == "delete":
            r = O(op[1]).delete_layer(); return "id:%d" % w.idof(r)
        if name == "move":
            r = O(op[1]).move_to_group(O(op[2])); return "id:%d" % w.idof(r)
        if name == "up":
            r = O(op[1]).move_up(op[2]); return "id:%d" % w.idof(r)
        if name == "down":
            r = O(op[1]).move_down(op[2]); return "id:%d" % w.idof(r)
        if name == "newgroup":
            try:
                g = Group.new("G%d" % len(w.objs), True, O(op[1]))
            except BaseException:
                w.reg(None)        # the model allocates before the move
                raise
            return "id:%d" % w.reg(g)
        if name == "grouplayers":
            g = Group.group_layers([O(x) for x in op[1]], "G%d" % len(w.objs), O(op[2]))
            return "id:%d" % w.reg(g)
        if name == "newlayer":
            d = O(op[1])
            b = op[2]
            mode = d.pil_mode if d is not None else "RGB"
            l = _px(d, mode if mode in ("L", "RGB", "CMYK") else "RGB", "N%d" % len(w.objs),
                    b[0], b[1], b[2] - b[0], b[3] - b[1])
            return "id:%d" % w.reg(l)
        if name == "vis":
            O(op[1]).visible = op[2]; return "none"
        if name == "left":
            O(op[1]).left = op[2]; return "none"
        if name == "top":
            O(op[1]).top = op[2]; return "none"
        if name == "rename":
            O(op[1]).name = O(op[2]).name; return "none"      # x takes the name of y
        if name == "clip":
            O(op[1]).clipping_layer = op[2]; return "none"
        if name == "opacity":
            O(op[1]).opacity = op[2]; return "none"
        if name == "maskoff":                # disable / enable the layer mask through the public view
            O(op[1]).mask.flags.mask_disabled = bool(op[2]); return "none"
        if name == "obs":
            return observe_real(w, op[1:])
        raise core.Infra("unknown op %r" % (op,))
    except core.Infra:
        raise
    except Exception as e:  # noqa
        import traceback
        names = []
        tb = e.__traceback__
        while tb is not None and len(names) < 4000:
            names.append(tb.tb_frame.f_code.co_name)
            tb = tb.tb_next
        w.last_frames = tuple(dict.fromkeys(names))
        if isinstance(e, RecursionError):
            return "err:RecursionError"
        c = err_class(e)
        return "err:Other" if c.startswith("Other") else "err:" + c


def observe_real(w: World, o):
    k = o[0]
    O = w.obj
    if k == "bbox":
        return "box:" + _box(O(o[1]).bbox)
    if k == "size":
        return "pair:%d,%d" % tuple(O(o[1]).size)
    if k == "repr":
        repr(O(o[1])); return "none"
    if k == "desc":
        return "ids:" + _nats([w.idof(x) for x in O(o[1]).descendants()])
    if k == "len":
        return "int:%d" % len(O(o[1]))
    if k == "index":
        return "int:%d" % O(o[1]).index(O(o[2]))
    if k == "count":
        return "int:%d" % O(o[1]).count(O(o[2]))
    if k == "getitem":
        return "id:%d" % w.idof(O(o[1])[o[2]])
    if k == "contains":
        return "bool:%d" % int(O(o[2]) in O(o[1]))
    if k == "isvis":
        return "bool:%d" % int(O(o[1]).is_visible())
    if k == "touch":
        for x in o[1]:
            O(x).bbox
        return "none"
    raise core.Infra("unknown observation %r" % (o,))


# opaque read-only calls (not in the model): the caches they fill are reported as a `touch`
OPAQUE = ("composite", "numpy", "topil", "find", "iterate", "pretty", "layer_composite", "mask_effects",
          "save", "clip_layers", "composite_all", "composite_shown", "composite_lambda")


# layer filters a script would keep in a module and pass to composite() again and again (the SAME function
# object in every call), as opposed to a lambda written at the call site (a new object every time)
def filter_all(layer):
    """render hidden layers too"""
    return True


def filter_shown(layer):
    """the default rule under another name: the compositor cannot know that it is the default"""
    return layer.is_visible()


FILTERS = {"composite_all": lambda: filter_all, "composite_shown": lambda: filter_shown,
           "composite_lambda": lambda: (lambda layer: True)}


def _digest(b):
    return "%d:%s" % (len(b), hashlib.sha1(bytes(b)).hexdigest()[:20])


def opaque_answer(w: World, kind: str, x: int):
    """the answer of one opaque read-only call on object x (exceptions are values)"""
    o = w.objs[x]
    if kind.startswith("m:"):              # a member found by reflection (harness/members.py), e.g. "m:locks"
        import members
        return members.answer(w, x, kind[2:])
    try:
        if kind == "composite":
            r = o.composite()
            return None if r is None else (r.mode, r.size, _digest(r.tobytes()))
        if kind == "layer_composite":
            r = o.composite(force=True) if isinstance(o, PSDImage) else o.composite()
            return None if r is None else (r.mode, r.size, _digest(r.tobytes()))
        if kind in FILTERS:
            if not isinstance(o, (PSDImage, Layer)):
                return None
            r = o.composite(layer_filter=FILTERS[kind]())
            return None if r is None else (r.mode, r.size, _digest(r.tobytes()))
        if kind == "numpy":
            r = o.numpy()
            return None if r is None else (tuple(r.shape), _digest(r.tobytes()))
        if kind == "topil":
            r = o.topil()
            return None if r is None else (r.mode, r.size, _digest(r.tobytes()))
        if kind == "save":                 # export to a throw-away buffer
            if not isinstance(o, PSDImage):
                return None
            buf = io.BytesIO()
            o.save(buf)
            return _digest(buf.getvalue())
        if kind == "find":
            if not isinstance(o, GroupMixin):
                return None
            return find_answers(w, o)
        if kind == "iterate":
            return [w.idof(l) for l in o] if isinstance(o, GroupMixin) else None
        if kind == "pretty":
            return repr(o)
        if kind == "mask_effects":
            return (o.has_mask(), o.mask is None, o.has_effects(), len(list(o.effects)),
                    o.has_vector_mask()) if isinstance(o, Layer) else None
        if kind == "clip_layers":
            return ([w.idof(l) for l in o.clip_layers], o.has_clip_layers(), bool(o.clipping_layer)) \
                if isinstance(o, Layer) else None
        raise core.Infra(kind)
    except core.Infra:
        raise
    except RecursionError:
        return "err:RecursionError"
    except Exception as e:  # noqa
        return "err:" + err_class(e)


def names_in_use(w: World):
    """every layer name of the world (listed or not) + one that no layer has"""
    names = set()
    for i in w.layers():
        try:
            names.add(w.objs[i].name)
        except Exception:  # noqa
            pass
    return sorted(names) + ["no such layer"]


def find_answers(w: World, o):
    """find / findall from container o for every name in use in the world (a name that left the subtree must
    not be found any more, one that entered it must be)"""
    return [(n, w.idof(o.find(n)), [w.idof(l) for l in o.findall(n)]) for n in names_in_use(w)]


def walk_answers(w: World, o):
    """what find_answers must give, by an independent walk of the lists"""
    below = list(walk_layers(o))
    out = []
    for n in names_in_use(w):
        hits = [w.idof(l) for l in below if l.name == n]
        out.append((n, hits[0] if hits else None, hits))
    return out


def walk_layers(g):
    """every layer below g, depth first, following `_layers` only (cycle safe)"""
    seen, todo = set(), list(reversed(g._layers))
    while todo:
        x = todo.pop()
        if id(x) in seen or not isinstance(x, Layer):
            continue
        seen.add(id(x))
        yield x
        if isinstance(x, GroupMixin):
            todo += list(reversed(x._layers))


def opaque_observe(w: World, kind: str, x: int):
    """run an opaque read-only call on object x TWICE in a row; returns (answer, touch op or None,
    answer of the second call)"""
    before = {i: getattr(w.objs[i], "_bbox", None) for i in w.conts()}
    ans = opaque_answer(w, kind, x)
    again = opaque_answer(w, kind, x)
    # the order in which the compositor read the boxes is not known: a cache filled while another
    # one was still empty may only be read after it, so replay in an order that reproduces the values
    touched = [i for i in w.conts() if before[i] is None and getattr(w.objs[i], "_bbox", None) is not None]
    return ans, (("obs", "touch", tuple(touched)) if touched else None), again


# ------------------------------------------------------------------------------------------
# oracle 1: the same operations on plain nested lists (C09)
# ------------------------------------------------------------------------------------------
class Shadow:
    """Containers are plain Python lists of ids. `apply` returns ('ok', value) | ('err', class) |
    ('refuse', why) where 'refuse' is the specification's refusal (non layer / would create a cycle)."""

    def __init__(self, w: World):
        self.L = {c: [w.idof(x) for x in w.objs[c]._layers] for c in w.conts()}
        self.kind = {i: _kind(w.objs[i]) for i in w.ids()}
        self.n = len(w.objs)

    def container_of(self, x):
        cs = [c for c, l in self.L.items() if x in l]
        return cs[0] if cs else None

    def reaches(self, a, b):
        """b is a or below a"""
        seen, todo = set(), [a]
        while todo:
            y = todo.pop()
            if y == b:
                return True
            if y in seen:
                continue
            seen.add(y)
            todo += self.L.get(y, [])
        return False

    def _is_layer(self, x):
        return self.kind.get(x) in ("g", "a", "l")

    def _ok_items(self, g, xs):
        for x in xs:
            if not self._is_layer(x):
                return "non-layer"
            if self.reaches(x, g):
                return "cycle"
        return None

    def apply(self, op):
        n, L = op[0], self.L
        if n in ("append", "extend", "insert", "setitem", "setslice", "remove", "pop", "clear", "delitem",
                 "delslice") and op[1] not in L:
            return ("refuse", "target-not-a-group")
        try:
            if n in ("append", "extend", "insert", "setitem", "setslice"):
                g = op[1]
                xs = {"append": lambda: [op[2]], "extend": lambda: list(op[2]), "insert": lambda: [op[3]],
                      "setitem": lambda: [op[3]], "setslice": lambda: list(op[4])}[n]()
                why = self._ok_items(g, xs)
                if why:
                    return ("refuse", why)
                if n == "append":
                    L[g].append(op[2])
                elif n == "extend":
                    L[g].extend(op[2])
                elif n == "insert":
                    L[g].insert(op[2], op[3])
                elif n == "setitem":
                    L[g][op[2]] = op[3]
                else:
                    L[g][slice(op[2], op[3])] = list(op[4])
                return ("ok", "none")
            if n == "remove":
                L[op[1]].remove(op[2]); return ("ok", "id:%d" % op[1])
            if n == "pop":
                return ("ok", "id:%d" % L[op[1]].pop(op[2]))
            if n == "clear":
                L[op[1]].clear(); return ("ok", "none")
            if n == "delitem":
                del L[op[1]][op[2]]; return ("ok", "none")
            if n == "delslice":
                del L[op[1]][slice(op[2], op[3])]; return ("ok", "none")
            if n == "delete":
                c = self.container_of(op[1])
                if c is not None:
                    L[c].remove(op[1])
                return ("ok", "id:%d" % op[1])
            if n == "move":
                x, g = op[1], op[2]
                if self.kind.get(g) not in ("d", "g", "a"):
                    return ("refuse", "target-not-a-group")
                if self.reaches(x, g):
                    return ("refuse", "cycle")
                c = self.container_of(x)
                if c is not None:
                    L[c].remove(x)
                L[g].append(x)
                return ("ok", "id:%d" % x)
            if n in ("up", "down"):
                x, k = op[1], (op[2] if n == "up" else -op[2])
                c = self.container_of(x)
                if c is None:
                    return ("refuse", "not-listed")
                i = L[c].index(x) + k
                i = max(0, min(i, len(L[c]) - 1))
                L[c].remove(x)
                L[c].insert(i, x)
                return ("ok", "id:%d" % x)
            if n == "newgroup":
                new = self.n
                self.n += 1
                self.kind[new] = "g"
                L[new] = []
                p = op[1]
                if p is not None and self.kind.get(p) in ("d", "g", "a"):
                    L[p].append(new)
                return ("ok", "id:%d" % new)
            if n == "grouplayers":
                xs, p = list(op[1]), op[2]
                if not xs:
                    return ("refuse", "empty")
                if any(not self._is_layer(x) for x in xs):
                    return ("refuse", "non-layer")
                if p is None:
                    p = self.container_of(xs[0])
                if p is not None and self.kind.get(p) in ("d", "g", "a"):
                    if any(self.reaches(x, p) for x in xs):
                        return ("refuse", "cycle")
                else:
                    p = None
                new = self.n
                self.n += 1
                self.kind[new] = "g"
                L[new] = []
                for x in xs:
                    c = self.container_of(x)
                    if c is not None:
                        L[c].remove(x)
                    L[new].append(x)
                if p is not None:
                    L[p].append(new)
                return ("ok", "id:%d" % new)
            if n == "newlayer":
                new = self.n
                self.n += 1
                self.kind[new] = "l"
                return ("ok", "id:%d" % new)
            if n in ("vis", "left", "top", "obs", "opaque") + ATTR_OPS:
                return ("ok", None)
        except IndexError:
            return ("err", "IndexError")
        except ValueError:
            return ("err", "ValueError")
        raise core.Infra("shadow: unknown op %r" % (op,))


# ------------------------------------------------------------------------------------------
# oracle 2: the invariant on the real object graph (C10)
# ------------------------------------------------------------------------------------------
def check_invariant(w: World):
    """Returns a list of (tag, detail). Independent of the model: walks `_layers` itself."""
    bad = []
    conts = w.conts()
    occ: dict = {}
    for c in conts:
        C = w.objs[c]
        for x in C._layers:
            if not isinstance(x, Layer):
                bad.append(("non-layer-listed", "%d lists a %s" % (c, type(x).__name__)))
                continue
            occ.setdefault(id(x), []).append(c)
            if x._parent is not C:
                bad.append(("parent-pointer", "%d listed in %d reports parent %s" % (w.idof(x), c, w.idof(x._parent))))
    for k, cs in occ.items():
        if len(cs) > 1:
            bad.append(("listed-twice", "%d listed in %s" % (w._ids.get(k, BOGUS), cs)))
    # cycles (iterative DFS on the listing relation)
    color: dict = {}
    cyc = False
    for c in conts:
        if color.get(c):
            continue
        stack = [(c, iter([w.idof(x) for x in w.objs[c]._layers if isinstance(x, GroupMixin)]))]
        color[c] = 1
        while stack:
            node, it = stack[-1]
            nxt = next(it, None)
            if nxt is None:
                color[node] = 2
                stack.pop()
            elif color.get(nxt) == 1:
                cyc = True
                break
            elif not color.get(nxt) and nxt != BOGUS and w.objs[nxt] is not None:
                color[nxt] = 1
                stack.append((nxt, iter([w.idof(x) for x in w.objs[nxt]._layers if isinstance(x, GroupMixin)])))
        if cyc:
            break
    if cyc:
        bad.append(("cycle", "a group is its own ancestor"))
        return bad
    # document pointer of everything reachable from a document; traversal multiplicities
    for c in conts:
        C = w.objs[c]
        reach = []
        todo = list(reversed([x for x in C._layers if isinstance(x, Layer)]))
        while todo:
            x = todo.pop()
            reach.append(x)
            if isinstance(x, GroupMixin):
                todo += list(reversed([y for y in x._layers if isinstance(y, Layer)]))
        if isinstance(C, PSDImage):
            for x in reach:
                if x._psd is not C:
                    bad.append(("psd-pointer", "%d reachable from document %d reports document %s"
                                % (w.idof(x), c, w.idof(x._psd))))
        if any(t == "non-layer-listed" for t, _ in bad):
            continue
        try:
            ds = list(C.descendants())
        except RecursionError:
            bad.append(("descendants-recursion", str(c)))
            continue
        except Exception as e:  # noqa
            bad.append(("descendants-raises", "%d: descendants() raises %s" % (c, err_class(e))))
            continue
        if [id(x) for x in ds] != [id(x) for x in reach]:
            if len(ds) != len(reach) or len({id(x) for x in ds}) != len(ds):
                twice = [x for k, x in enumerate(ds) if any(x is y for y in ds[:k])]
                only_clip = bool(twice) and {id(x) for x in ds} == {id(x) for x in reach} and all(
                    isinstance(x, Layer) and x.clipping_layer for x in twice)
                tag = "clip-layer-yielded-twice" if only_clip else "descendants-multiplicity"
            else:
                tag = "descendants-order"
            bad.append((tag, "%d: descendants() gives %s, the lists contain %s"
                        % (c, [w.idof(x) for x in ds], [w.idof(x) for x in reach])))
        # name search against the independent walk: every name in use (shared names included) and one
        # that no layer has
        names = {}
        for x in reach:
            try:
                names.setdefault(x.name, []).append(x)
            except Exception:  # noqa
                pass
        names.setdefault("no such layer", [])
        for nm, xs in names.items():
            try:
                fa = list(C.findall(nm))
                f1 = C.find(nm)
            except RecursionError:
                bad.append(("find-recursion", "%d: findall(%r)" % (c, nm)))
                continue
            except Exception as e:  # noqa
                bad.append(("find-raises", "%d: findall(%r) / find raises %s" % (c, nm, err_class(e))))
                continue
            want1 = xs[0] if xs else None
            if [id(x) for x in fa] != [id(x) for x in xs] or f1 is not want1:
                bad.append((find_feature(C, fa, xs, f1, nm),
                            "%d: findall(%r) gives %s and find %s, the lists contain %s"
                            % (c, nm, [w.idof(x) for x in fa], w.idof(f1), [w.idof(x) for x in xs])))
    return bad


def find_feature(C, found, expected, first, name):
    """which way a name search differs from the independent walk (part of the signature)"""
    fid, eid = [id(x) for x in found], [id(x) for x in expected]
    if len(set(fid)) != len(fid):
        return "find-multiplicity"
    missing = [x for x in expected if id(x) not in set(fid)]
    if set(fid) - set(eid):
        return "find-reports-other-layer"
    if missing:
        def below_namesake(x):
            p, n = x._parent, 0
            while p is not None and p is not C and n < 1000:
                if isinstance(p, Layer) and p.name == name:
                    return True
                p, n = getattr(p, "_parent", None), n + 1
            return False
        return "find-misses-layer-below-same-named-group" if all(below_namesake(x) for x in missing) \
            else "find-misses-layer"
    if fid != eid:
        return "find-order"
    return "find-not-first"


# ------------------------------------------------------------------------------------------
# oracle 3: every cached box equals a fresh computation (C14)
# ------------------------------------------------------------------------------------------
def stale_caches(w: World):
    out = []
    for c in w.conts():
        C = w.objs[c]
        cached = getattr(C, "_bbox", None)
        if cached is None or isinstance(C, Artboard):
            continue
        try:
            fresh = Group.extract_bbox(C)
        except RecursionError:
            continue
        if tuple(cached) != tuple(fresh):
            out.append((c, tuple(cached), tuple(fresh), c in attached(w)))
    return out


def stale_detached(w: World, i: int) -> bool:
    """a group outside every document that has, or lies below a group that has, a parent pointer naming a container
    which does not list it (is_visible() follows that pointer, the invalidation cannot come back along it)"""
    o = w.objs[i]
    if not isinstance(o, Group) or i in attached(w):
        return False
    n = 0
    while isinstance(o, Layer) and n < 200:
        p = getattr(o, "_parent", None)
        if p is None:
            return False
        if not any(x is o for x in getattr(p, "_layers", [])):
            return True
        o, n = p, n + 1
    return False


def stale_sig(w: World, c: int, att: bool, opname: str) -> str:
    if not att and stale_detached(w, c):
        return "C14/bbox-stale/detached-node-with-stale-parent"
    return "C14/bbox-stale-after/%s" % opname


def attached(w: World):
    """ids reachable from a document through the lists"""
    seen = set()
    todo = list(w.docs())
    while todo:
        c = todo.pop()
        if c in seen or c == BOGUS or w.objs[c] is None:
            continue
        seen.add(c)
        if isinstance(w.objs[c], GroupMixin):
            todo += [w.idof(x) for x in w.objs[c]._layers]
    return seen


# ------------------------------------------------------------------------------------------
# the model
# ------------------------------------------------------------------------------------------
def model_runs(ctx, cases, cfg="current", table=False):
    """cases: list of (init string, [op, ...]) -> list (one per case) of lists of (out, {id: node string});
    table=True: every call is one run of the table machine over Generated/TreeTable.lean (treetbl.run)"""
    reqs = [(("treetbl.run",) if table else ("treest.run", cfg)) + (init, ";".join(op_str(o) for o in ops) if ops else "-")
            for init, ops in cases]
    res = []
    for (init, ops), ans in zip(cases, ctx.driver().batch(reqs)):
        if ans[0] != "ok":
            raise core.Infra("tree.run: %s for %r" % (ans, ops[:5]))
        steps = []
        if ops:
            for st in ans[1].split("|"):
                out, nodes = st.split("#", 1)
                d = {}
                for n in nodes.split(";") if nodes else []:
                    d[int(n.split(" ", 1)[0])] = n
                steps.append((out, d))
        res.append(steps)
    return res


# ------------------------------------------------------------------------------------------
# one history on the real code with all oracles
# ------------------------------------------------------------------------------------------
class Trace:
    """What happened when a history was run on the real code."""

    def __init__(self):
        self.init = ""
        self.ops = []            # ops as executed on the real code (("opaque", kind, id) included)
        self.mops = []           # the steps given to the model (opaque -> touch, attribute setters -> attr, a pixel
                                 # conversion that rendered a layer -> the operation, then a touch of the boxes it cached)
        self.mouts = []          # real outputs / dumps, one per model step
        self.mdumps = []
        self.msrc = []           # model step -> index in `ops`
        self.outs = []           # real outputs
        self.dumps = []          # real dumps after each op
        self.problems = []       # (property, signature, what, step, detail)
        self.stopped = None      # step at which the history was abandoned (ill-formed tree)
        self.opaque_answers = [] # answers of opaque observations, in order
        self.out_of_model = None # step whose behaviour the model does not cover (pixel conversion raised)
        self.world = None
        self.new_attributes = set()  # (class, attribute, call) lazily created by read-only calls (caches)


def first_inserted(op):
    n = op[0]
    if n == "append":
        return [op[2]]
    if n == "extend":
        return list(op[2])
    if n in ("insert", "setitem"):
        return [op[3]]
    if n == "setslice":
        return list(op[4])
    return []


def _stored_state(w, full=None):
    import members
    return members.stored_state(w, full)


def _member_name(kind: str) -> str:
    """signature part of an opaque call: reflective members without their argument tokens"""
    if not kind.startswith("m:"):
        return kind
    import re
    return re.sub(r"\((.*?)\)", "()", kind[2:]).replace("/", "-")


def _what_sig(what: str) -> str:
    return what.replace(" ", "-").replace(":", "-")


def run_history(recipe, ops, check_inv=True, check_fresh=True, check_shadow=True, stop_on_problem=True,
                check_stored=True) -> Trace:
    """ops may contain ("opaque", kind, id) items (C14): they are executed (twice in a row: the same
    read-only call must give the same answer) and given to the model as the `touch` observation describing
    the caches they filled."""
    w = build(recipe)
    t = Trace()
    t.world = w
    t.init = init_str(w)
    sh = Shadow(w) if check_shadow else None
    mirror = {i: block_keys(w.objs[i]) for i in w.ids()}     # the model's tagged-block key lists (State.blocks)
    carried = None           # (target, stored state) after the previous read-only call (None: an edit came in between)
    run_start = None         # full stored state at the start of the current run of consecutive read-only calls
    attributed = False       # a call of the current run was found to write

    def close_run():
        """at the end of a run of consecutive read-only calls: everything stored, serialised, against the start of
        the run (what the per-call comparison - the target in full, the other objects by identity, fields and key
        lists - cannot see)"""
        nonlocal run_start, attributed
        if run_start is not None and not attributed and t.ops:
            import members
            for i, what, a, b in members.state_diff(run_start[1], _stored_state(w)):
                if what.startswith("new-attribute:"):
                    continue
                t.problems.append(("C14", "C14/impure/read-writes/some-read-only-call/%s" % _what_sig(what),
                                   "one of the read-only calls of steps %d..%d changed what is stored: %s of object %d was "
                                   "%s, is %s" % (run_start[0], len(t.ops) - 1, what, i, _shorten(a), _shorten(b)),
                                   len(t.ops) - 1))
        run_start, attributed = None, False

    for k, op in enumerate(ops):
        if op[0] == "opaque":
            if op[2] is None or op[2] >= len(w.objs) or w.objs[op[2]] is None or not (
                    op[1] in OPAQUE or op[1].startswith("m:")):
                continue
            # what is STORED (records, tagged-block key lists and bytes, channel planes, non-cache attributes of
            # every object, document sections) before and after the call; save() is documented to refresh the
            # merged image and is compared through its bytes instead
            stored = None
            if check_stored and op[1] != "save":
                if run_start is None:
                    run_start = (len(t.ops), _stored_state(w))
                stored = carried[1] if (carried is not None and carried[0] == op[2]) else _stored_state(w, (op[2],))
            elif check_stored:
                close_run()
            carried = None
            ans, touch, again = opaque_observe(w, op[1], op[2])
            t.opaque_answers.append((op[1], op[2], ans))
            # executed already; for the model it is a touch (possibly of nothing)
            t.ops.append(op)
            t.outs.append("none")
            t.dumps.append(dump(w))
            # (a reflected member that cached nothing is the model's `getter` observation)
            t.mops.append(touch or (("obs", "getter", op[2]) if op[1].startswith("m:") else ("obs", "touch", ())))
            t.mouts.append("none")
            t.mdumps.append(t.dumps[-1])
            t.msrc.append(len(t.ops) - 1)
            step_problems = []
            if stored is not None:
                import members
                carried = (op[2], _stored_state(w, (op[2],)))   # (the state after this call is the state before the next)
                for i, what, a, b in members.state_diff(stored, carried[1]):
                    if what.startswith("new-attribute:"):
                        t.new_attributes.add((type(w.objs[i]).__name__, what[14:], _member_name(op[1])))
                        continue                # a lazily created attribute is a cache until an answer or the bytes differ
                    attributed = True
                    step_problems.append(("C14", "C14/impure/read-writes/%s/%s" % (_member_name(op[1]), _what_sig(what)),
                                          "%s of object %d (%s) changed what is stored: %s of object %d was %s, is %s"
                                          % (_member_name(op[1]), op[2], type(w.objs[op[2]]).__name__, what, i,
                                             _shorten(a), _shorten(b))))
            if again != ans:
                step_problems.append(("C14", "C14/impure/%s-twice-differs" % _member_name(op[1]),
                                      "%s of object %d called twice in a row answers %s, then %s"
                                      % (op[1], op[2], _shorten(ans), _shorten(again))))
            if check_fresh and op[1] == "find" and isinstance(ans, list) and all(len(v) == 1 for v in w.listed().values()):
                # a name search is a derived value too: it must be what a walk of the lists gives now
                try:
                    want = walk_answers(w, w.objs[op[2]])
                except Exception:  # noqa
                    want = ans
                if want != ans:
                    last = next((o[0] for o in reversed(t.ops[:-1]) if o[0] not in ("obs", "opaque")), "start")
                    bad = [(x, y) for x, y in zip(ans, want) if x != y][:3]
                    step_problems.append(("C14", "C14/find-differs-from-walk/after-%s" % last,
                                          "find / findall from container %d give (name, find, findall) %s, a walk of the "
                                          "lists gives %s" % (op[2], [x for x, _ in bad], [y for _, y in bad])))
            if check_fresh:
                for c, cached, fresh, att in stale_caches(w):
                    sig = stale_sig(w, c, att, op[1])
                    step_problems.append(("C14", sig, "after %s node %d caches %s, a fresh computation gives %s"
                                          % (op_str(op), c, cached, fresh)))
            if check_inv:
                for tag, detail in check_invariant(w):
                    step_problems.append(("C10", sig_invariant(tag, op, w, {}), detail))
            for prop, sig, what in step_problems:
                t.problems.append((prop, sig, what, len(t.ops) - 1))
            if step_problems and stop_on_problem:
                t.stopped = len(t.ops) - 1
                break
            continue
        carried = None
        if check_stored:
            close_run()
        listed_before = w.listed()
        before = structure(w)
        cache_before = {c: getattr(w.objs[c], "_bbox", None) for c in w.conts()}
        out = apply_real(w, op)
        t.ops.append(op)
        t.outs.append(out)
        t.dumps.append(dump(w))
        # cross-document adoption converts pixel layers by rendering them (PixelLayer._convert, opaque for the
        # model): the boxes that rendering cached are given to the model as a `touch` after the operation
        filled = []
        if not out.startswith("err:") and op[0] not in ("obs",) + ATTR_OPS:
            now = structure(w)
            adopted = [i for i, v in now.items() if i in before and before[i][2] is not None and v[2] != before[i][2]
                       and isinstance(w.objs[i], PixelLayer)]
            if adopted:
                # (a box that was cached before may have been dropped and cached again while rendering: every cached
                # box is touched - a no-op for the model where it holds one - and compared after the touch)
                filled = [c for c in w.conts() if getattr(w.objs[c], "_bbox", None) is not None]
        t.mops.append(model_op(op))
        t.mouts.append(out)
        t.msrc.append(len(t.ops) - 1)
        # which tagged blocks the records carry is outside the modelled edits (a new layer comes with its blocks, the
        # name setter adds the Unicode name, adoption fetches shared blocks ...): after an EDIT the key lists that
        # changed are given to the model (`setblocks`), never after a read-only call - there a change is a disagreement
        changed = []
        if op[0] != "obs":
            for i in w.ids():
                now = block_keys(w.objs[i])
                if now != mirror.get(i, ()):
                    mirror[i] = now
                    changed.append(i)
        follow = []             # model steps after the operation itself: (model op, ids whose cache / blocks are not compared yet)
        if filled:
            follow.append((("obs", "touch", tuple(filled)), (), changed))
        for n, i in enumerate(changed):
            follow.append((("setblocks", i, mirror[i]), (), changed[n + 1:]))
        if follow:
            d0 = dict(t.dumps[-1])
            for c in filled:
                d0[c] = mask_cache(d0[c])      # not compared before the touch
            for i in changed:
                d0[i] = mask_blocks(d0[i])     # not compared before the setblocks
            t.mdumps.append(d0)
            for mop, _, pending in follow:
                d1 = dict(t.dumps[-1])
                for i in pending:
                    d1[i] = mask_blocks(d1[i])
                t.mops.append(mop)
                t.mouts.append("none")
                t.mdumps.append(d1)
                t.msrc.append(len(t.ops) - 1)
        else:
            t.mdumps.append(t.dumps[-1])
        step_problems = []
        root = None     # a known mechanism that explains every problem of this step
        if op[0] in INSERTING and already_listed(op, listed_before):
            root = ("C10", "C10/%s/already-listed" % op[0])
        # --- refused operations leave the tree unchanged
        if out.startswith("err:"):
            after = structure(w)
            if after != before:
                ch = sorted(i for i in after if after.get(i) != before.get(i))
                sig = sig_refused(op, out, w, listed_before)
                if "_convert" in w.last_frames:
                    t.out_of_model = len(t.ops) - 1
                    sig = "C10/adopt/pixel-conversion-fails-after-mutation"
                    root = ("C10", sig)
                step_problems.append(("C10", sig,
                                      "%s raised %s but the tree changed (nodes %s)" % (op_str(op), out[4:], ch)))
        # --- nested-list replay
        if sh:
            r = sh.apply(op)
            p = compare_shadow(w, sh, op, out, r, listed_before)
            step_problems += p
        # --- the invariant on the object graph
        if check_inv:
            for tag, detail in check_invariant(w):
                step_problems.append(("C10", sig_invariant(tag, op, w, listed_before), detail))
        # --- freshness of every cached box
        if check_fresh:
            for c, cached, fresh, att in stale_caches(w):
                sig = stale_sig(w, c, att, op[0])
                step_problems.append(("C14", sig,
                                      "after %s node %d caches %s, a fresh computation gives %s"
                                      % (op_str(op), c, cached, fresh)))
        if root and step_problems:
            step_problems = [(root[0], root[1], "; ".join(p[2] for p in step_problems)[:600])]
        for prop, sig, what in step_problems:
            t.problems.append((prop, sig, what, len(t.ops) - 1))
        if step_problems and stop_on_problem:
            t.stopped = len(t.ops) - 1
            break
    if check_stored:
        close_run()
    return t


def _shorten(v, n=160):
    r = repr(v)
    return r if len(r) <= n else r[:n] + "..."


def compare_shadow(w, sh, op, out, r, listed_before):
    """C09: the tree equals the nested lists after the same operation."""
    probs = []
    n = op[0]
    real_lists = {c: [w.idof(x) for x in w.objs[c]._layers] for c in w.conts()}
    if n in ("obs", "vis", "left", "top", "opaque") + ATTR_OPS:
        r = ("ok", None)
        out = "none"
    if r[0] == "refuse":
        if not out.startswith("err:"):
            probs.append(("C10", "C10/%s/accepted-%s" % (n, r[1]), "%s was accepted (%s)" % (op_str(op), r[1])))
            # follow the code so that later steps are compared meaningfully
            sh.L = {c: list(l) for c, l in real_lists.items()}
            for c in real_lists:
                sh.kind.setdefault(c, _kind(w.objs[c]))
            sh.n = len(w.objs)
    elif r[0] == "err":
        if out != "err:" + r[1]:
            probs.append(("C09", "C09/%s/list-raises-%s-code-gives-%s" % (n, r[1], out.split(":")[1] if ":" in out else out),
                          "%s: a list raises %s, the code answered %s" % (op_str(op), r[1], out)))
    else:
        if out.startswith("err:"):
            probs.append(("C09", "C09/%s/refused-%s" % (n, out[4:]),
                          "%s is a legal list operation but raised %s" % (op_str(op), out[4:])))
            sh.L = {c: list(l) for c, l in real_lists.items()}
            sh.n = len(w.objs)
        elif r[1] is not None and out != r[1]:
            probs.append(("C09", "C09/%s/returns-other-value" % n, "%s returned %s, expected %s" % (op_str(op), out, r[1])))
    if not probs:
        sh_lists = {c: l for c, l in sh.L.items() if c < len(w.objs) and w.objs[c] is not None}
        if sh_lists != real_lists:
            diff = sorted(c for c in set(sh_lists) | set(real_lists) if sh_lists.get(c) != real_lists.get(c))
            feat = "already-listed" if (n in INSERTING and already_listed(op, listed_before)) else "tree-differs"
            probs.append(("C09", "C09/%s/%s" % (n, feat),
                          "after %s the lists of %s are %s, nested-list replay gives %s"
                          % (op_str(op), diff, [real_lists.get(c) for c in diff], [sh_lists.get(c) for c in diff])))
            sh.L = {c: list(l) for c, l in real_lists.items()}
    return probs


def already_listed(op, listed_before):
    xs = first_inserted(op)
    return any(x in listed_before for x in xs) or len(set(xs)) != len(xs)


def guarded(recipe, ops):
    """the history up to (excluding) the first inserting operation whose arguments are already listed: beyond it
    the tree is ill-formed (known finding of C10) and the freshness / purity / save statements do not apply"""
    w = build(recipe)
    out = []
    for op in ops:
        if op[0] in INSERTING and already_listed(op, w.listed()):
            break
        apply_real(w, op)
        out.append(op)
    return out


def sig_invariant(tag, op, w, listed_before):
    n = op[0]
    if n in INSERTING and already_listed(op, listed_before) and (tag in (
            "listed-twice", "parent-pointer", "psd-pointer", "descendants-multiplicity", "clip-layer-yielded-twice")
            or tag.startswith("find-")):
        return "C10/%s/already-listed" % n
    if tag == "cycle" and n in INSERTING and op[1] in first_inserted(op):
        return "C10/%s/item-is-container" % n
    if tag in ("descendants-multiplicity", "clip-layer-yielded-twice", "descendants-order", "descendants-raises"):
        return "C10/descendants/%s" % tag
    if tag.startswith("find-"):
        return "C10/find/%s" % tag[5:]
    return "C10/%s/%s" % (n if n != "opaque" else op[1], tag)


def sig_refused(op, out, w, listed_before):
    n = op[0]
    if n in INSERTING and op[1] in first_inserted(op):
        return "C10/%s/item-is-container" % n
    if n == "grouplayers":
        p = op[2]
        return "C10/group_layers/%s" % ("parent-among-moved" if p in op[1] else "refused-after-moving")
    return "C10/%s/refused-but-changed/%s" % (n, out[4:])


# ------------------------------------------------------------------------------------------
# generators
# ------------------------------------------------------------------------------------------
IDX = (0, 1, -1, 5, -7)


def candidate_ops(w: World, level=1):
    """A pruned, deterministic argument set for exhaustive exploration from the current state."""
    C, X = w.conts(), w.layers()
    det = w.detached()
    listed = [x for x in X if x not in det]
    some_listed = listed[:1] + listed[-1:] if listed else []
    args = list(dict.fromkeys(det[:3] + some_listed))
    groups = w.groups()
    ops = []
    for g in C:
        for x in args:
            ops.append(("append", g, x))
        for d in w.docs():
            ops.append(("append", g, d))          # a document is a container, not a layer
        if len(args) >= 2:
            ops.append(("extend", g, (args[0], args[1])))
        if g in groups:
            ops.append(("extend", g, (g,)))
            ops.append(("insert", g, 0, g))
        for x in args[:2]:
            ops.append(("insert", g, 0, x))
            ops.append(("insert", g, -1, x))
        ops.append(("pop", g, -1))
        ops.append(("pop", g, 0))
        ops.append(("clear", g))
        ops.append(("delitem", g, 0))
        ops.append(("delitem", g, 3))
        if args:
            ops.append(("setitem", g, 0, args[0]))
            ops.append(("setslice", g, 0, 1, (args[0],)))
        ops.append(("delslice", g, 1, None))
        for x in listed[:2]:
            ops.append(("remove", g, x))
    for x in X[:5]:
        ops.append(("delete", x))
        ops.append(("up", x, 1))
        ops.append(("down", x, 5))
        for g in C:
            ops.append(("move", x, g))
    ops.append(("newgroup", None))
    for g in C[:2]:
        ops.append(("newgroup", g))
    if len(listed) >= 2:
        ops.append(("grouplayers", (listed[0], listed[1]), None))
        ops.append(("grouplayers", (listed[0], listed[1]), C[0]))
        if groups:
            ops.append(("grouplayers", (groups[0], listed[0]), groups[0]))
    # names shared by a group and the layers below / beside it (name search)
    for g in groups[:2]:
        below = [w.idof(x) for x in w.objs[g]._layers][:1]
        for x in list(dict.fromkeys(below + listed[:1])):
            if x != g:
                ops.append(("rename", x, g))
                ops.append(("rename", g, x))
    if level >= 2:
        ops.append(("newlayer", w.docs()[0], (1, 1, 3, 3)))
        for x in X[:3]:
            ops.append(("vis", x, False))
        for x in w.plain_leaves()[:2]:
            ops.append(("left", x, 3))
        for x in listed[:2]:
            ops.append(("clip", x, True))
        for x in listed[:1]:
            ops.append(("opacity", x, 90))
    return list(dict.fromkeys(ops))


def stale_return_op(w: World, rng):
    """(added for C10) an operation aimed at what a REMOVED layer still carries.  A detached layer x keeps the parent pointer
    of the container p it was taken from.  In order of preference (each taken with probability 0.7 when available):
    x is offered, through any inserting form, to a former ancestor that now sits BELOW x (a cycle on lists: must be refused
    and change nothing); a former ancestor of a detached group x (p, or a group above p) is moved below x (legal on lists
    once x lists nothing of it); x is offered again to p / to a container above p.  With nothing detached that carries a
    pointer, a group listed in a group is taken out by one of the detaching forms (so that later steps have material).
    None: nothing applies."""
    cands = []
    for x in w.detached():
        p = w.idof(getattr(w.objs[x], "_parent", None))
        if p is not None and p != BOGUS and p != x and w.objs[p] is not None:
            cands.append((x, p))
    if not cands:
        nested = [(c, w.idof(g)) for c in w.groups() for g in w.objs[c]._layers if isinstance(g, GroupMixin)]
        nested = [(c, g) for c, g in nested if g not in (None, BOGUS)]
        if not nested:
            return None
        c, g = rng.choice(nested)
        return rng.choice(detaching_forms(w, c, g))

    def chain(p):
        out, q, n = [p], getattr(w.objs[p], "_parent", None), 0
        while q is not None and n < 20 and w.idof(q) not in (None, BOGUS) and w.idof(q) not in out:
            out.append(w.idof(q))
            q, n = getattr(q, "_parent", None), n + 1
        return out

    closing, lowering = [], []
    for x, p in cands:
        if not isinstance(w.objs[x], GroupMixin):
            continue
        below = [w.idof(l) for l in walk_layers(w.objs[x]) if isinstance(l, GroupMixin)]
        below = [b for b in below if b not in (None, BOGUS)]
        for a in chain(p):
            if a in below:
                closing.append((x, a))
            elif isinstance(w.objs[a], Layer) and a != x:
                lowering.append((a, rng.choice([x] + below)))
    if closing and rng.random() < 0.7:
        x, a = rng.choice(closing)
        return rng.choice(inserting_forms(w, a, x))
    if lowering and rng.random() < 0.7:
        a, d = rng.choice(lowering)
        return rng.choice([("move", a, d), ("move", a, d), ("grouplayers", (a,), d)])
    x, p = rng.choice(cands)
    return rng.choice(inserting_forms(w, rng.choice(chain(p)), x))


def random_op(w: World, rng, p_unguarded=0.12, p_attr=0.15, p_obs=0.0, p_stale=0.0):
    if p_stale and rng.random() < p_stale:      # (p_stale = 0: the random stream of the other properties is unchanged)
        op = stale_return_op(w, rng)
        if op is not None:
            return op
    C, X = w.conts(), w.layers()
    det = w.detached()
    r = rng.random()

    def arg():
        if det and rng.random() > p_unguarded:
            return rng.choice(det)
        if rng.random() < 0.04:
            return rng.choice(w.docs() + [BOGUS])
        return rng.choice(X)

    def idx():
        return rng.choice([0, 0, 1, 2, -1, -1, -2, 4, -5, 9])

    if p_obs and r < p_obs:
        k = rng.choice(["bbox", "bbox", "size", "repr", "desc", "len", "isvis", "getitem", "index", "count", "contains"])
        if k in ("bbox", "size", "repr", "isvis"):
            return ("obs", k, rng.choice(C + X if k != "isvis" else X))
        if k in ("desc", "len"):
            return ("obs", k, rng.choice(C))
        if k == "getitem":
            return ("obs", k, rng.choice(C), idx())
        return ("obs", k, rng.choice(C), rng.choice(X))
    r = rng.random()
    if r < p_attr:
        k = rng.random()
        if k < 0.35:
            return ("vis", rng.choice(X), rng.random() < 0.5)
        if k < 0.55:
            pl = w.plain_leaves()
            if pl:
                return (rng.choice(["left", "top"]), rng.choice(pl), rng.choice([-2, 0, 1, 3, 6]))
            return ("vis", rng.choice(X), rng.random() < 0.5)
        if k < 0.8:
            # x takes the name of y; half of the time y is a container above x or a layer below x
            x = rng.choice(X)
            rel = related(w, x)
            y = rng.choice(rel) if rel and rng.random() < 0.5 else rng.choice(X)
            return ("rename", x, y)
        if k < 0.92:
            return ("clip", rng.choice(X), rng.random() < 0.7)
        return ("opacity", rng.choice(X), rng.choice([0, 90, 255]))
    kinds = ["append", "append", "extend", "insert", "insert", "remove", "pop", "clear", "setitem", "setslice",
             "delitem", "delslice", "delete", "move", "move", "move", "up", "down", "newgroup", "grouplayers",
             "newlayer", "newlayer"]
    k = rng.choice(kinds)
    g = rng.choice(C)
    if k == "append":
        return (k, g, arg())
    if k == "extend":
        n = rng.choice([0, 1, 2, 2, 3])
        pool = det if (det and rng.random() > p_unguarded) else X
        xs = tuple(rng.sample(pool, min(n, len(pool)))) if rng.random() > 0.05 else tuple(rng.choice(pool) for _ in range(n))
        return (k, g, xs)
    if k == "insert":
        return (k, g, idx(), arg())
    if k == "remove":
        l = [w.idof(x) for x in w.objs[g]._layers]
        return (k, g, rng.choice(l) if l and rng.random() < 0.85 else rng.choice(X))
    if k == "pop":
        return (k, g, idx())
    if k == "clear":
        return (k, g)
    if k == "setitem":
        return (k, g, idx(), arg())
    if k == "setslice":
        n = rng.choice([0, 1, 2])
        pool = det if (det and rng.random() > p_unguarded) else X
        xs = tuple(rng.sample(pool, min(n, len(pool))))
        return (k, g, rng.choice([None, 0, 1, -1, 3]), rng.choice([None, 0, 1, 2, -1]), xs)
    if k == "delitem":
        return (k, g, idx())
    if k == "delslice":
        return (k, g, rng.choice([None, 0, 1, -1, 3]), rng.choice([None, 0, 1, 2, -1]))
    if k == "delete":
        return (k, rng.choice(X))
    if k == "move":
        return (k, rng.choice(X), rng.choice(C))
    if k in ("up", "down"):
        return (k, rng.choice(X), rng.choice([1, 1, 2, -1, 7]))
    if k == "newgroup":
        return (k, rng.choice([None] + C))
    if k == "grouplayers":
        n = rng.choice([1, 2, 2, 3])
        xs = tuple(rng.sample(X, min(n, len(X))))
        return (k, xs, rng.choice([None, None] + C))
    if k == "newlayer":
        d = rng.choice(w.docs() + [None])
        l, t = rng.choice([0, 1, 4]), rng.choice([0, 2, 5])
        return (k, d, (l, t, l + rng.choice([1, 2, 3]), t + rng.choice([1, 2])))
    raise AssertionError(k)


def related(w: World, x: int):
    """the layers above and below x in the tree (through the lists)"""
    out = []
    o = w.objs[x]
    if isinstance(o, GroupMixin):
        out += [w.idof(l) for l in walk_layers(o)]
    p, n = getattr(o, "_parent", None), 0
    while isinstance(p, Layer) and n < 50:
        out.append(w.idof(p))
        p, n = p._parent, n + 1
    return [i for i in dict.fromkeys(out) if i != x and i != BOGUS and i is not None]


def random_walk(recipe, rng, length, **kw):
    """Generate a history against a scratch world (ops depend on the evolving state)."""
    w = build(recipe)
    ops = []
    for _ in range(length):
        if len(w.objs) > 40:
            break
        op = random_op(w, rng, **kw)
        ops.append(op)
        before_bad = False
        apply_real(w, op)
        # do not walk on in an ill-formed tree: the guard of the theorems is gone
        occ = {}
        for c in w.conts():
            for x in w.objs[c]._layers:
                occ[id(x)] = occ.get(id(x), 0) + 1
                if not isinstance(x, Layer):
                    before_bad = True
        if before_bad or any(v > 1 for v in occ.values()):
            break
    return ops


# ------------------------------------------------------------------------------------------
# comparison with the model
# ------------------------------------------------------------------------------------------
def compare_with_model(ctx, traces, cfg="current", what="tree", table=False):
    """traces: list of Trace. Reports disagreements through ctx.disagree; returns their number."""
    cases = [(t.init, t.mops) for t in traces]
    n = 0
    for t, steps in zip(traces, model_runs(ctx, cases, cfg, table=table)):
        for k, (out, nodes) in enumerate(steps):
            src = t.msrc[k]
            if t.out_of_model is not None and src >= t.out_of_model:
                break
            real = t.mdumps[k]
            ctx.corr_cases += 1
            bad = None
            if out != t.mouts[k]:
                bad = ("output", t.mouts[k], out)
            else:
                for i, s in real.items():
                    if not same_node(s, nodes.get(i)):
                        bad = ("node %d" % i, s, nodes.get(i))
                        break
            if bad:
                n += 1
                ctx.disagree("%s: model and code differ after step %d (%s)" % (what, src, bad[0]),
                             {"recipe": list(t.world.recipe), "ops": [list(map(_j, o)) for o in t.ops[:src + 1]],
                              "model_ops": [op_str(o) for o in t.mops[:k + 1]][-6:], "code": bad[1], "model": bad[2]})
                break
    return n


def _j(v):
    return list(v) if isinstance(v, tuple) else v


def ops_to_json(ops):
    return [[_j(v) for v in o] for o in ops]


def ops_from_json(ops):
    return [tuple(tuple(v) if isinstance(v, list) else v for v in o) for o in ops]


# ------------------------------------------------------------------------------------------
# save / reopen (C09)
# ------------------------------------------------------------------------------------------
def describe_tree(g):
    out = []
    for l in g:
        chans = tuple((ci.id, bytes(cd.data) if cd.data is not None else None, int(cd.compression))
                      for ci, cd in zip(l._record.channel_info, l._channels))
        item = (l.name, l.kind, bool(l.visible), int(l.opacity), str(l.blend_mode), bool(l.clipping_layer),
                (l._record.left, l._record.top, l._record.right, l._record.bottom), chans)
        out.append(item + ((describe_tree(l),) if isinstance(l, GroupMixin) else ()))
    return out


def save_reopen(psd):
    """Returns ('ok', before, after) | ('raises', phase, class)"""
    try:
        before = describe_tree(psd)
    except Exception as e:  # noqa
        return ("raises", "describe", err_class(e))
    buf = io.BytesIO()
    try:
        psd.save(buf)
    except RecursionError:
        return ("raises", "save", "RecursionError")
    except Exception as e:  # noqa
        return ("raises", "save", err_class(e))
    try:
        q = PSDImage.open(io.BytesIO(buf.getvalue()))
        after = describe_tree(q)
    except Exception as e:  # noqa
        return ("raises", "open", err_class(e))
    return ("ok", before, after, buf.getvalue())


def strip_payload(t):
    return [(i[:7] + ((strip_payload(i[8]),) if len(i) > 8 else ())) for i in t]


# ------------------------------------------------------------------------------------------
# exploration engine shared by the three checks
# ------------------------------------------------------------------------------------------
SMALL_TREES = [("small", "L", 8), ("flat", "RGB", 8), ("nest", "RGB", 8)]
NAMED_TREES = [("dup", "RGB", 8), ("board", "RGB", 8), ("board", "L", 16)]
MATRIX = [(m, d) for m in ("L", "RGB", "CMYK") for d in (8, 16, 32)]
FIXTURES = ["clipping-mask.psd", "group.psd", "artboard.psd", "16bit5x5.psd", "32bit5x5.psd",
            "layers-minimal/gradient-fill.psd", "layers-minimal/pattern-fill.psd", "layers-minimal/pixel-layer.psd",
            "layers-minimal/shape-layer.psd", "layers-minimal/smartobject-layer.psd",
            "layers-minimal/solid-color-fill.psd", "layers-minimal/type-layer.psd"]


def walk_recipes():
    r = list(SMALL_TREES) + list(NAMED_TREES)
    r += [("nest", m, d) for m, d in MATRIX]
    r += [("two", m, d, m2) for (m, d), m2 in zip(MATRIX, ["RGB", "L", "RGB", "CMYK", "L", "RGB", "L", "RGB", "CMYK"])]
    r += [("fixture", f) for f in FIXTURES]
    return r


def exhaustive(recipe, depth, level=1, limit=None, rng=None, **kw):
    """All histories of exactly 1..depth candidate operations (pruned argument set recomputed in
    every state). Yields Trace objects. With `limit`, a seeded sample of the deepest level."""
    frontier = [()]
    for d in range(depth):
        nxt = []
        for prefix in frontier:
            w = build(recipe)
            okp = True
            for op in prefix:
                apply_real(w, op)
            cands = candidate_ops(w, level)
            for op in cands:
                nxt.append(prefix + (op,))
        if limit and len(nxt) > limit and d == depth - 1:
            nxt = rng.sample(nxt, limit)
        for h in nxt:
            yield run_history(recipe, list(h), **kw)
        # only well-formed, accepted prefixes are extended
        frontier = nxt


def visibility_move_ops(w: World):
    """the operations of the `visibility x position` family in the current state: hide / show every group and one
    leaf, move every group to every container that is not the group itself or below it (move_to_group, and - when the
    group is detached - append / insert, which adopt through the same path)"""
    ops = []
    sh = Shadow(w)
    G, C = w.groups(), w.conts()
    det = set(w.detached())
    for g in G:
        ops.append(("vis", g, not bool(w.objs[g]._record.flags.visible)))
    for x in w.plain_leaves()[:1]:
        ops.append(("vis", x, not bool(w.objs[x]._record.flags.visible)))
    for g in G:
        for c in C:
            if sh.reaches(g, c) or sh.container_of(g) == c:
                continue
            ops.append(("move", g, c))
            if g in det:
                ops.append(("append", c, g))
                ops.append(("insert", c, 0, g))
    for g in G:
        if g not in det:
            ops.append(("remove", sh.container_of(g), g))
    return ops


def visibility_move_histories(recipe, depth, limit=None, rng=None):
    """all histories of `depth` operations of visibility_move_ops (a seeded sample with `limit`)"""
    frontier = [()]
    for d in range(depth):
        nxt = []
        for prefix in frontier:
            w = build(recipe)
            for op in prefix:
                apply_real(w, op)
            for op in visibility_move_ops(w):
                nxt.append(prefix + (op,))
        if limit and len(nxt) > limit:
            nxt = rng.sample(nxt, limit)
        frontier = nxt
    return [list(h) for h in frontier]


def read_everything(w0: World, ops, kinds=("bbox",), after=("repr",)):
    """the history with a read of every container before the first and after every operation (ids of containers
    created by the history are not read)"""
    seq = [("obs", k, c) for k in kinds for c in w0.conts()]
    for op in ops:
        seq.append(op)
        seq += [("obs", k, c) for k in after for c in w0.conts()]
    return seq


def exhaustive_histories(recipe, depth, level=1, limit=None, rng=None):
    """The histories of `exhaustive` without running the oracles (prefix closed: a history of length k
    contains its prefixes, so only the deepest level is returned)."""
    frontier = [()]
    for d in range(depth):
        nxt = []
        for prefix in frontier:
            w = build(recipe)
            bad = False
            for op in prefix:
                apply_real(w, op)
            occ = {}
            for c in w.conts():
                for x in w.objs[c]._layers:
                    occ[id(x)] = occ.get(id(x), 0) + 1
                    if not isinstance(x, Layer):
                        bad = True
            if bad or any(v > 1 for v in occ.values()):
                continue          # ill-formed (known finding reported at the prefix): not extended
            for op in candidate_ops(w, level):
                nxt.append(prefix + (op,))
        if limit and len(nxt) > limit:
            nxt = rng.sample(nxt, limit)
        frontier = nxt
    return [list(h) for h in frontier]


# ------------------------------------------------------------------------------------------
# directed families (C09 / C10): classes of histories the pruned exhaustive argument set and the short random
# walks of the quick tier reach only by luck. Every family is computed from the state of the world (every pair /
# every operation of a kind), never from a particular function of the library.
# ------------------------------------------------------------------------------------------
def _after(recipe, prefix):
    w = build(recipe)
    for op in prefix:
        apply_real(w, op)
    return w


def _group_chain(sh: Shadow, g):
    """g and the containers above it that are layers (groups / artboards), innermost first"""
    out, n = [], 0
    while g is not None and sh.kind.get(g) in ("g", "a") and n < 50:
        out.append(g)
        g, n = sh.container_of(g), n + 1
    return out


def inserting_forms(w: World, c, x, sh=None):
    """every way to put layer x into container c (the adopting operations + the two that take it out first)"""
    ops = [("append", c, x), ("insert", c, 0, x), ("insert", c, -1, x), ("extend", c, (x,)),
           ("setslice", c, 0, 0, (x,)), ("setslice", c, None, None, (x,)), ("move", x, c), ("grouplayers", (x,), c)]
    if len(w.objs[c]._layers):
        ops.append(("setitem", c, 0, x))
    return ops


def detaching_forms(w: World, c, x):
    """every way to take the listed layer x out of its container c without putting it anywhere"""
    i = [w.idof(y) for y in w.objs[c]._layers].index(x)
    ops = [("delete", x), ("remove", c, x), ("pop", c, i), ("delitem", c, i), ("delslice", c, i, i + 1),
           ("setslice", c, i, i + 1, ()), ("clear", c)]
    spare = [d for d in w.detached() if _kind(w.objs[d]) == "l"]
    if spare:
        ops.append(("setitem", c, i, spare[0]))        # replaced by a loose leaf
    return ops


def stale_pointer_histories(recipe, prefix=()):
    """detach -> go below -> come back: a group S is taken out of its container G (every detaching form; the removed
    layer keeps its parent / document pointers), a former ancestor P of S is then moved BELOW S (legal on lists: S
    lists nothing of P any more) and S is offered to a former ancestor again (every inserting form; on lists a cycle:
    must be refused and leave the tree unchanged). Also the legal halves: detach + come back to the old container /
    to the document, detach + former ancestor below S + S into a container that is not below it."""
    prefix = list(prefix)
    w = _after(recipe, prefix)
    sh = Shadow(w)
    hs = []
    for S in w.groups():
        G = sh.container_of(S)
        if G is None:
            continue
        chain = _group_chain(sh, G)                  # former ancestors of S that are layers
        outside = [c for c in w.conts() if not sh.reaches(S, c) and c not in chain][:2]
        for d in detaching_forms(w, G, S):
            w1 = _after(recipe, prefix + [d])
            if S in w1.listed():
                continue
            for back in inserting_forms(w1, G, S)[:4] + [("move", S, G)]:
                hs.append(prefix + [d, back])        # legal: S comes back
            for P in chain:
                for under in (("move", P, S), ("grouplayers", (P,), S), ("append", S, P) if P in w1.detached() else None):
                    if under is None:
                        continue
                    w2 = _after(recipe, prefix + [d, under])
                    hs.append(prefix + [d, under])
                    for C in dict.fromkeys([G, P]):
                        for back in inserting_forms(w2, C, S):
                            hs.append(prefix + [d, under, back])          # cycle on lists
                    for C in outside[:1]:
                        hs.append(prefix + [d, under, ("move", S, C)])    # legal
    return [list(h) for h in dict.fromkeys(tuple(h) for h in hs)]


def group_layers_orders(recipe, prefix=()):
    """group_layers with the layers in every order: every ordered pair and the ordered triples of the first listed
    layers - same owner in ascending / descending stacking order, different owners, a group and a layer beside /
    below it - without parent, and with every container as parent (refusals included)"""
    prefix = list(prefix)
    w = _after(recipe, prefix)
    listed = [x for x in sorted(w.listed()) if x != BOGUS]
    hs = []
    for xs in list(itertools.permutations(listed, 2)) + list(itertools.permutations(listed[:5], 3)):
        hs.append(prefix + [("grouplayers", xs, None)])
        for c in w.conts():
            hs.append(prefix + [("grouplayers", xs, c)])
    return hs


def loose_group_histories(recipe, prefix=()):
    """pixel layers made WITHOUT a document (PixelLayer.frompil(image, None)) and layers of one document, put into a
    loose group (Group.new(): no parent, no document), the group then inserted / moved into every container of every
    document, moved on to the other document and taken out again: the document pointer of everything below a
    document is evaluated on the object graph after every step"""
    prefix = list(prefix)
    w = _after(recipe, prefix)
    n = len(w.objs)
    docs, conts = w.docs(), [c for c in w.conts() if c in attached(w)]
    hs = []
    own = [x for x in w.plain_leaves() if x in w.listed()][:1]
    # ids: n = documentless layer, n + 1 = loose group, n + 2 = a second loose group (nesting)
    base = prefix + [("newlayer", None, (1, 1, 3, 3)), ("newgroup", None)]
    fills = [[("append", n + 1, n)], [("move", n, n + 1)], [("insert", n + 1, 0, n)],
             [("newgroup", None), ("append", n + 2, n), ("append", n + 1, n + 2)]]
    if own:
        fills.append([("append", n + 1, n), ("move", own[0], n + 1)])
    for fill in fills:
        for c in conts:
            for put in inserting_forms(w, c, n + 1)[:5] + [("move", n + 1, c)]:
                h = base + fill + [put]
                hs.append(h)
                for d in docs:
                    if d != c:
                        hs.append(h + [("move", n + 1, d)])
                hs.append(h + [("delete", n + 1), ("move", n, docs[-1])])
    # the documentless layer on its own, into every container
    for c in conts:
        for put in inserting_forms(w, c, n):
            hs.append(prefix + [("newlayer", None, (1, 1, 3, 3)), put])
    return hs


def closing_groups_histories(recipe, prefix=()):
    """trees where 2+ nested groups end at the same place and something follows at an outer level: every group is
    made the LAST child of every other group (moved there, or everything after it taken out), then a layer / a group is
    put after the outer group; for save + reopen (the closing records of nested groups)"""
    prefix = list(prefix)
    w = _after(recipe, prefix)
    sh = Shadow(w)
    hs = []
    att = attached(w)
    for S in w.groups():
        for G in w.groups():
            if S == G or sh.reaches(S, G) or G not in att:
                continue
            h = prefix + [("move", S, G)]
            outer = sh.container_of(G)
            hs.append(h)                                            # whatever follows G in its container stays
            hs.append(h + [("newgroup", outer)])                    # an (empty) group follows
            hs.append(h + [("newgroup", S), ("newgroup", outer)])   # three levels close at once
            leaves = [x for x in w.plain_leaves() if x not in (S, G) and not sh.reaches(S, x) and not sh.reaches(G, x)]
            for x in leaves[:2]:
                hs.append(h + [("move", x, outer)])                 # a layer follows
        G = sh.container_of(S)
        if G is not None and sh.kind.get(G) in ("g", "a"):
            i = sh.L[G].index(S)
            if i + 1 < len(sh.L[G]):
                hs.append(prefix + [("delslice", G, i + 1, None)])  # S becomes the last child where it is
    return [list(h) for h in dict.fromkeys(tuple(h) for h in hs)]


def sole_layer_histories(recipe, prefix=()):
    """adoption that EMPTIES the document the layer comes from: every document is reduced to one top-level layer
    (the others deleted), which then leaves for every container of the other documents (every inserting form that
    takes it out first, and detach + insert)"""
    prefix = list(prefix)
    w = _after(recipe, prefix)
    sh = Shadow(w)
    hs = []
    for d in w.docs():
        top = list(sh.L[d])
        others = [c for c in w.conts() if c in attached(w) and not sh.reaches(d, c)]
        for keep in top[:3]:
            strip = [("delete", x) for x in top if x != keep]
            for c in others:
                hs.append(prefix + strip + [("move", keep, c)])
                hs.append(prefix + strip + [("grouplayers", (keep,), c)])
                hs.append(prefix + strip + [("pop", d, 0), ("append", c, keep)])
                hs.append(prefix + strip + [("delete", keep), ("insert", c, 0, keep)])
    return hs


FAMILY_TREES = [("nest", "RGB", 8), ("hid", "RGB", 8), ("board", "RGB", 8), ("two", "RGB", 8, "L"),
                ("two", "L", 16, "RGB"), ("fixture", "group.psd")]
FAMILIES = [("stale-pointer", stale_pointer_histories, True), ("group-layers-order", group_layers_orders, False),
            ("loose-group", loose_group_histories, False), ("closing-groups", closing_groups_histories, True),
            ("sole-layer", sole_layer_histories, False)]


def deepest_group(recipe):
    """the attached group with the longest chain of groups above it (None: no group)"""
    w = build(recipe)
    sh = Shadow(w)
    att = attached(w)
    best = None
    for g in w.groups():
        if g in att:
            n = len(_group_chain(sh, g))
            if best is None or n > best[0]:
                best = (n, g)
    return best[1] if best else None


def directed_histories(rng, quick=True, only=None):
    """[(family, recipe, history)]: every family on every FAMILY_TREES recipe, as built and (families that look at
    nesting) with one more group inside the deepest group; a seeded sample per (family, tree) in the quick tier"""
    out = []
    per = 50 if quick else 2000
    for recipe in FAMILY_TREES:
        g = deepest_group(recipe)
        for name, f, nesting in FAMILIES:
            if only and name not in only:
                continue
            for prefix in ([[]] + ([[("newgroup", g)]] if nesting and g is not None else [])):
                hs = f(recipe, prefix)
                if len(hs) > per:
                    hs = rng.sample(hs, per)
                out += [(name, recipe, h) for h in hs]
    return out


def report(ctx, traces, props, shrink=True, how="search"):
    """Turn the problems found on the real code into ctx.fail entries (shrunk, one per signature)."""
    seen = {}
    for t in traces:
        for prop, sig, what, step in t.problems:
            ctx.hist("problems_seen", sig)
            if prop not in props:
                continue
            if sig in seen:
                seen[sig]["count"] += 1
                continue
            ops = t.ops[:step + 1]
            recipe = t.world.recipe
            if shrink and len(ops) > 1:
                def test(sub, recipe=recipe, sig=sig):
                    tt = run_history(recipe, list(sub))
                    return any(p[1] == sig for p in tt.problems)
                try:
                    ops = core.ddmin(ops, test)
                    again = [p[2] for p in run_history(recipe, list(ops)).problems if p[1] == sig]
                    what = again[0] if again else what      # the description of the shrunk history
                except core.Infra:
                    raise
                except Exception:  # noqa
                    pass
            seen[sig] = {"count": 1}
            ctx.fail(sig, what, {"recipe": list(recipe), "ops": ops_to_json(ops)}, observed=what,
                     expected="the property holds after every operation", how=how)
    for sig, d in seen.items():
        for f in ctx.failures:
            if f["signature"] == sig:
                f["count"] = d["count"]
    return seen


def coverage(ctx, traces):
    for t in traces:
        ctx.count(("h", t.world.recipe, tuple(t.ops)), nontrivial=len(t.ops) >= 1)
        for op, out in zip(t.ops, t.outs):
            ctx.hist("op", op[0] if op[0] not in ("obs", "opaque") else op[0] + "." + op[1])
            ctx.hist("outcome", out.split(":")[1] if out.startswith("err:") else "ok")
        ctx.hist("history_length", min(len(t.ops), 60) // 5 * 5)
        ctx.hist("recipe", "/".join(str(x) for x in t.world.recipe[:3]))


def replay_print(data):
    inp = data.get("input") or {}
    recipe = tuple(inp.get("recipe", ()))
    ops = ops_from_json(inp.get("ops", []))
    print("replaying", data.get("signature"), "on", recipe)
    t = run_history(recipe, ops, stop_on_problem=False)
    for k, (op, out) in enumerate(zip(t.ops, t.outs)):
        print("  %2d %-40s -> %s" % (k, op_str(op), out))
    for p in t.problems:
        print("  PROBLEM at step %d: %s: %s" % (p[3], p[1], p[2][:300]))
    print("expected:", data.get("expected"))
    return 0


TRUSTED = [
    "Lean 4.33 kernel; axioms allowed: propext, Classical.choice, Quot.sound (audited per theorem)",
    "Model/TreeState.lean is a hand transliteration of api/layers.py and api/psd_image.py (order of check / "
    "mutation / bookkeeping included); tied to the code by this run's correspondence check after EVERY operation",
    "harness/treeops.py: object identity <-> model ids, dumps of the object graph, the nested-list replay, the "
    "invariant / freshness evaluators on the object graph",
]
ASSUME = [
    "trees stay far below the interpreter's recursion limit (model parameter `limit`; RecursionError paths of the "
    "model are not exercised by the correspondence)",
    "pixel conversion on cross-document adoption (`PixelLayer._convert`) is not modelled; a conversion that raises is "
    "reported by the search (known finding) and the history is not compared with the model beyond it; the boxes a "
    "conversion caches while it renders the layer (clipping groups) are given to the model as a `touch` after the "
    "operation and compared then",
    "Shape / fill layers are leaves with a constant box; extended slices (step != 1) are not modelled",
]
MODEL_COVERAGE = {
    "operations": ["append", "extend", "insert", "remove", "pop", "clear", "__setitem__ (index, slice)",
                   "__delitem__ (index, slice)", "delete_layer", "move_to_group", "move_up", "move_down", "Group.new",
                   "Group.group_layers", "PixelLayer.frompil (allocation)", "visible / left / top setters",
                   "name / opacity / clipping_layer setters (model operation `attr`: nothing of the modelled state changes)",
                   "bbox / size / repr / descendants / len / index / count / getitem / in / is_visible",
                   "every other public getter / query found by reflection (model observation `getter`: writes nothing)",
                   "the tagged-block key list of every record (State.blocks; edits report it with `setblocks`, read-only "
                   "calls must leave it alone)"],
    "opaque": ["PixelLayer._convert", "_fetch_tagged_blocks", "composite / numpy / topil / save to a throw-away buffer / "
               "find / iteration / clip_layers reads (their cache effects are replayed as `touch`; everything else of "
               "the dump - lists, pointers, dirty flag - must be unchanged)", "the clipping relation itself (C15)"],
}
